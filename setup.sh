#!/bin/bash
# setup: build the checker (normal and -race) offline so first-run build time is not charged to a check
set -e
cd "$(dirname "$0")"
. ./env.sh
mkdir -p .bin .work evidence replays
cp /repo/go.sum ./go.sum
go build -tags verif -o .bin/vcheck ./cmd/vcheck
go build -race -tags verif -o .bin/vcheck-race ./cmd/vcheck
.bin/vcheck list
