# sourced by setup.sh / run.sh: offline Go settings (no network in the sandbox)
export GOFLAGS=-mod=mod GOPROXY=off GOSUMDB=off GOTOOLCHAIN=local
export VERIF_ROOT="$(cd "$(dirname "${BASH_SOURCE[0]}")" && pwd)"
