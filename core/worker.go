package core

import (
	"bufio"
	"encoding/binary"
	"encoding/json"
	"fmt"
	"os"
	"runtime"
	"runtime/debug"
	"runtime/metrics"
	"runtime/pprof"
	"strings"
	"sync/atomic"
	"syscall"
	"time"
)

// WorkerOpts is passed from the supervisor to a worker on its command line (as JSON).
type WorkerOpts struct {
	ID        string `json:"id"`
	Tier      string `json:"tier"`
	Shard     int    `json:"shard"`
	Of        int    `json:"of"`
	Seed      int64  `json:"seed"`
	FromLevel int    `json:"from_level"`
	FromIdx   int64  `json:"from_idx"` // skip cases with index <= FromIdx in FromLevel
	Prog      string `json:"prog"`     // progress file
	Dump      string `json:"dump"`     // goroutine dump file (written on hang)
	Deadline  int64  `json:"deadline"` // unix nano; 0 = none
	CaseMs    int64  `json:"case_ms"`
	One       *Case  `json:"one,omitempty"` // run only this case (replay / confirmation)
	Slot      int    `json:"slot"`
	RaceSet   bool   `json:"race_set,omitempty"` // this worker is the -race binary and runs only Race levels
}

// LevelStat is reported per level by each worker.
type LevelStat struct {
	Name      string `json:"name"`
	Generated int64  `json:"generated"` // cases enumerated (all shards see all cases)
	Ran       int64  `json:"ran"`
	Done      bool   `json:"done"`
}

// Summary is the final message of a worker.
type Summary struct {
	T        string           `json:"t"`
	Evals    int64            `json:"evals"`
	Dups     int64            `json:"dups"`
	Distinct int64            `json:"distinct"`
	NT       int64            `json:"nt"`
	Outcomes int64            `json:"outcomes"`
	Skips    map[string]int64 `json:"skips"`
	Levels   []LevelStat      `json:"levels"`
	Samples  []Case           `json:"samples"`
	Capped   bool             `json:"capped"`
	States   int64            `json:"states"`
	Trans    int64            `json:"trans"`
	Traces   int64            `json:"traces"`
	Cnt      map[string]int64 `json:"cnt"`
	// Recycle: the worker stopped voluntarily (memory held by earlier cases, e.g. leaked
	// goroutines) and asks to be restarted after (RLevel, RIdx).
	Recycle bool  `json:"recycle,omitempty"`
	RLevel  int   `json:"rlevel,omitempty"`
	RIdx    int64 `json:"ridx,omitempty"`
}

type violMsg struct {
	T     string `json:"t"`
	Level int    `json:"level"`
	Idx   int64  `json:"idx"`
	Case  Case   `json:"case"`
	Res   Result `json:"res"`
	// what this worker has executed so far (a run that stops at its first violations still reports its coverage)
	Evals int64 `json:"evals,omitempty"`
	NT    int64 `json:"nt,omitempty"`
}

type deadMsg struct {
	T     string `json:"t"`
	Class string `json:"class"`
	Info  string `json:"info"`
}

var (
	curStart  atomic.Int64 // unix nano of the running case; 0 when idle
	curActive atomic.Bool
)

// WorkDir is a scratch directory private to this worker (removed by the supervisor).
var WorkDir string

type stopGen struct{}
type recycleGen struct{}

func heapNow() uint64 {
	sample := []metrics.Sample{{Name: "/memory/classes/heap/objects:bytes"}, {Name: "/memory/classes/heap/stacks:bytes"}}
	metrics.Read(sample)
	return sample[0].Value.Uint64() + sample[1].Value.Uint64()
}

// SafeRun runs one case, converting a panic on the calling goroutine into a violation.
func SafeRun(chk *Check, c Case) (r Result) {
	defer func() {
		if p := recover(); p != nil {
			st := string(debug.Stack())
			if len(st) > 3000 {
				st = st[:3000]
			}
			r = Violation("panic", fmt.Sprintf("panic on the calling goroutine: %v\n%s", p, st))
		}
	}()
	return chk.Run(c)
}

func writeProg(f *os.File, level int, idx int64, key string) {
	if f == nil {
		return
	}
	buf := make([]byte, 20+len(key))
	binary.LittleEndian.PutUint32(buf[0:], uint32(level))
	binary.LittleEndian.PutUint64(buf[4:], uint64(idx))
	binary.LittleEndian.PutUint64(buf[12:], uint64(len(key)))
	copy(buf[20:], key)
	f.WriteAt(buf, 0)
}

// ReadProg returns the case a dead worker was executing.
func ReadProg(path string) (level int, idx int64, c Case, ok bool) {
	b, err := os.ReadFile(path)
	if err != nil || len(b) < 20 {
		return 0, 0, c, false
	}
	level = int(binary.LittleEndian.Uint32(b[0:]))
	idx = int64(binary.LittleEndian.Uint64(b[4:]))
	n := int(binary.LittleEndian.Uint64(b[12:]))
	if n <= 0 || 20+n > len(b) {
		return level, idx, c, false
	}
	if json.Unmarshal(b[20:20+n], &c) != nil {
		return level, idx, c, false
	}
	return level, idx, c, true
}

func watchdog(out *bufio.Writer, opts WorkerOpts) {
	caseDl := time.Duration(opts.CaseMs) * time.Millisecond
	var seenStart int64
	var heapAtStart uint64
	for {
		time.Sleep(25 * time.Millisecond)
		class, info := "", ""
		if curActive.Load() {
			st := curStart.Load()
			if st != 0 && time.Since(time.Unix(0, st)) > caseDl {
				class, info = "hang", fmt.Sprintf("case still running after %v", caseDl)
			}
			heap := heapNow()
			if st != seenStart {
				seenStart, heapAtStart = st, heap
			} else if heap > heapAtStart && heap-heapAtStart > 1024<<20 {
				class, info = "unbounded-memory", fmt.Sprintf("heap+stacks grew by %d MiB during one case", (heap-heapAtStart)>>20)
			}
		}
		if class == "" {
			continue
		}
		// classify the hang by goroutine states before exiting
		if opts.Dump != "" {
			if f, err := os.Create(opts.Dump); err == nil {
				pprof.Lookup("goroutine").WriteTo(f, 2)
				f.Close()
				if b, err := os.ReadFile(opts.Dump); err == nil {
					info += "; " + ClassifyDump(string(b))
				}
			}
		}
		b, _ := json.Marshal(deadMsg{"dead", class, info})
		os.Stdout.Write(append(append([]byte("\n"), b...), '\n'))
		os.Exit(3)
	}
}

// ClassifyDump summarises a goroutine dump: is the stick code spinning or blocked?
func ClassifyDump(d string) string {
	gs := strings.Split(d, "\n\n")
	var notes []string
	for _, g := range gs {
		if !strings.Contains(g, "tyler-sommer/stick") {
			continue
		}
		head := g
		if i := strings.Index(g, "\n"); i > 0 {
			head = g[:i]
		}
		fn := ""
		for _, ln := range strings.Split(g, "\n") {
			if strings.Contains(ln, "tyler-sommer/stick") && !strings.HasPrefix(ln, "\t") {
				fn = ln
				if i := strings.LastIndex(fn, "/"); i >= 0 {
					fn = fn[i+1:]
				}
				if i := strings.Index(fn, "("); i > 0 && !strings.HasPrefix(fn, "parse.(") && !strings.HasPrefix(fn, "stick.(") {
					fn = fn[:i]
				}
				break
			}
		}
		st := "?"
		if i := strings.Index(head, "["); i >= 0 {
			st = strings.Trim(head[i:], "[]:")
		}
		notes = append(notes, st+" in "+fn)
		if len(notes) >= 4 {
			break
		}
	}
	return strings.Join(notes, " | ")
}

// WorkerMain runs one shard and reports on stdout.
func WorkerMain(opts WorkerOpts) {
	chk := Lookup(opts.ID)
	if chk == nil {
		fmt.Fprintln(os.Stderr, "unknown check", opts.ID)
		os.Exit(4)
	}
	debug.SetMaxStack(96 << 20)
	var lim syscall.Rlimit
	lim.Cur, lim.Max = 8<<30, 8<<30
	if !chk.Race && !opts.RaceSet { // the race runtime reserves a huge address range
		syscall.Setrlimit(syscall.RLIMIT_AS, &lim)
	}
	if opts.CaseMs == 0 {
		opts.CaseMs = 10000
	}
	if opts.Dump != "" {
		WorkDir = opts.Dump + ".d"
		os.MkdirAll(WorkDir, 0o755)
	}
	out := bufio.NewWriterSize(os.Stdout, 1<<16)
	go watchdog(out, opts)
	if chk.Init != nil {
		chk.Init()
	}

	if opts.One != nil {
		curStart.Store(time.Now().UnixNano())
		curActive.Store(true)
		r := SafeRun(chk, *opts.One)
		curActive.Store(false)
		b, _ := json.Marshal(violMsg{T: "one", Case: *opts.One, Res: r})
		out.Write(b)
		out.WriteByte('\n')
		out.Flush()
		return
	}

	var prog *os.File
	if opts.Prog != "" {
		prog, _ = os.OpenFile(opts.Prog, os.O_CREATE|os.O_RDWR, 0o644)
	}
	sum := Summary{T: "sum", Skips: map[string]int64{}, Cnt: map[string]int64{}}
	seen := map[uint64]struct{}{}
	ntSeen := int64(0)
	outcomes := map[uint64]struct{}{}
	levels := chk.Levels(opts.Tier)
	var lastCase *Case
	nextSample := int64(1)
	of := uint64(opts.Of)
	if of == 0 {
		of = 1
	}
	stopped := false
	for li, lvl := range levels {
		ls := LevelStat{Name: lvl.Name}
		if lvl.Race != opts.RaceSet {
			ls.Done = true
			sum.Levels = append(sum.Levels, ls)
			continue
		}
		if li < opts.FromLevel || stopped {
			ls.Done = li < opts.FromLevel
			sum.Levels = append(sum.Levels, ls)
			continue
		}
		idx := int64(0)
		func() {
			defer func() {
				if p := recover(); p != nil {
					if _, ok := p.(stopGen); ok {
						stopped = true
						sum.Capped = true
						return
					}
					if _, ok := p.(recycleGen); ok {
						stopped = true
						sum.Recycle, sum.RLevel, sum.RIdx = true, li, idx
						return
					}
					panic(p)
				}
			}()
			lvl.Gen(func(c Case) {
				idx++
				ls.Generated++
				if li == opts.FromLevel && idx <= opts.FromIdx {
					return
				}
				key := c.Key()
				h := fnv64(key)
				if (h+uint64(opts.Seed))%of != uint64(opts.Shard) {
					return
				}
				if !chk.NoDedup {
					if _, dup := seen[h]; dup {
						sum.Dups++
						return
					}
					seen[h] = struct{}{}
				}
				if opts.Deadline != 0 && idx&63 == 0 && time.Now().UnixNano() > opts.Deadline {
					panic(stopGen{})
				}
				writeProg(prog, li, idx, key)
				curStart.Store(time.Now().UnixNano())
				curActive.Store(true)
				r := SafeRun(chk, c)
				curActive.Store(false)
				sum.Evals++
				ls.Ran++
				sum.Distinct++
				if r.Capped {
					sum.Capped = true
				}
				sum.States += r.States
				sum.Trans += r.Trans
				sum.Traces += r.Traces
				for k, v := range r.Cnt {
					sum.Cnt[k] += v
				}
				switch r.V {
				case Skip:
					sum.Skips[r.Why]++
				case Viol:
					ntNow := int64(ntSeen)
					if r.NT {
						ntNow++
					}
					b, _ := json.Marshal(violMsg{"viol", li, idx, c, r, sum.Evals, ntNow})
					out.Write(b)
					out.WriteByte('\n')
					out.Flush()
				}
				if r.NT && r.V != Skip {
					ntSeen++
				}
				if r.Out != "" && len(outcomes) < 2_000_000 {
					outcomes[fnv64(r.Out)] = struct{}{}
				}
				if sum.Evals == nextSample && len(sum.Samples) < 6 {
					sum.Samples = append(sum.Samples, c)
					nextSample *= 16
				}
				cc := c
				lastCase = &cc
				if sum.Evals&1023 == 0 && heapNow() > 1024<<20 {
					runtime.GC()
					if heapNow() > 768<<20 {
						panic(recycleGen{})
					}
				}
			})
			ls.Done = true
		}()
		sum.Levels = append(sum.Levels, ls)
	}
	if lastCase != nil {
		sum.Samples = append(sum.Samples, *lastCase)
	}
	sum.NT = ntSeen
	sum.Outcomes = int64(len(outcomes))
	b, _ := json.Marshal(sum)
	out.Write(b)
	out.WriteByte('\n')
	out.Flush()
	runtime.KeepAlive(prog)
}
