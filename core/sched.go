package core

import (
	"fmt"
	"runtime"
	"strconv"
	"strings"
	"sync/atomic"
	"time"

	"verif/vsync"
)

// Sched is a cooperative scheduler: threads are goroutines that run one at a time;
// control changes hands only at Point() calls placed at the seams of the system under
// test (loader, writer, callbacks, visitors). Every scheduling decision is drawn from a
// Src, so Explore enumerates all schedules within a preemption budget: continuing the
// running thread is free, switching away from it costs one preemption, the choice of the
// first thread and of the successor of a finished thread is free.
//
// A thread that has the token but neither reaches its next point nor finishes is inspected
// through the goroutine dump: only if it is parked in a sync primitive (a lock a repair may
// have introduced) is it marked blocked and another thread scheduled (state-based, never
// time-based: a merely slow runnable thread is waited for).
type Sched struct {
	src     *Src
	threads []*sthread
	events  chan sevent
	cur     int
	Points  int
	Trace   []int // thread id at each decision
	Dead    bool  // all unfinished threads blocked

	// Policy, if set, makes every scheduling decision instead of the choice source (a deterministic, structured
	// schedule such as "all threads advance to their k-th point before any goes further"); it returns an index into opts.
	Policy func(s *Sched, opts []int) int

	everBlocked bool
	waitSeq     atomic.Int64 // incremented whenever the scheduler starts waiting for a thread
	stuck       chan int64   // monitor -> scheduler: "you have been waiting on seq for a while"
}

type sthread struct {
	id      int
	wake    chan struct{}
	done    bool
	blocked bool
	gid     int64
	atPoint bool
	npoints int // points this thread has reached so far
}

type sevent struct {
	tid  int
	done bool
}

func goid() int64 {
	var buf [64]byte
	n := runtime.Stack(buf[:], false)
	s := strings.TrimPrefix(string(buf[:n]), "goroutine ")
	if i := strings.IndexByte(s, ' '); i > 0 {
		id, _ := strconv.ParseInt(s[:i], 10, 64)
		return id
	}
	return 0
}

// NPoints returns the number of points thread id has reached so far.
func (s *Sched) NPoints(id int) int { return s.threads[id].npoints }

// Current returns the id of the thread holding the token.
func (s *Sched) Current() int { return s.cur }

// Point is called by the running thread at a seam.
func (s *Sched) Point() {
	if s == nil {
		return
	}
	t := s.threads[s.cur]
	if s.everBlocked {
		// A thread that was marked blocked may arrive here while another thread holds the token.
		me := goid()
		if t.gid != me {
			for _, o := range s.threads {
				if o.gid == me {
					t = o
					break
				}
			}
		}
	}
	s.events <- sevent{t.id, false}
	<-t.wake
}

// SyncPoint is the hook of the sync / sync/atomic shims (package vsync): a scheduling point at every lock,
// unlock, once, map and atomic operation of the library under test. Calls from goroutines that are not
// threads of this scheduler (the lexer goroutine, finalisers) are ignored.
func (s *Sched) SyncPoint() {
	me := goid()
	for _, t := range s.threads {
		if t.gid == me {
			s.events <- sevent{t.id, false}
			<-t.wake
			return
		}
	}
}

// Run executes the bodies as threads under the scheduler and returns when all have finished
// (or a deadlock among them is detected).
func (s *Sched) Run(src *Src, bodies []func()) {
	s.src = src
	s.events = make(chan sevent)
	s.threads = nil
	for i := range bodies {
		t := &sthread{id: i, wake: make(chan struct{}, 1)}
		s.threads = append(s.threads, t)
	}
	for i, b := range bodies {
		t, b := s.threads[i], b
		go func() {
			t.gid = goid()
			<-t.wake
			defer func() { s.events <- sevent{t.id, true} }()
			b()
		}()
	}
	// wait until all goroutines recorded their ids (they block on wake right after)
	for _, t := range s.threads {
		for t.gid == 0 {
			runtime.Gosched()
		}
	}
	running := -1 // thread that currently has the token
	// monitor: tells the scheduler when it has been waiting for the same hand-off for 2-4 ms, so that
	// the waited-for goroutine's state can be inspected (off the hot path: no timer per point)
	s.stuck = make(chan int64)
	quit := make(chan struct{})
	defer close(quit)
	vsync.SetHook(s.SyncPoint)
	defer vsync.SetHook(nil)
	go func() {
		last := int64(-1)
		tk := time.NewTicker(150 * time.Microsecond)
		defer tk.Stop()
		for {
			select {
			case <-quit:
				return
			case <-tk.C:
				cur := s.waitSeq.Load()
				if cur == last {
					select {
					case s.stuck <- cur:
					case <-quit:
						return
					}
				}
				last = cur
			}
		}
	}()
	for {
		// collect enabled threads
		var enabled []int
		unfinished := 0
		for _, t := range s.threads {
			if !t.done {
				unfinished++
				if !t.blocked {
					enabled = append(enabled, t.id)
				}
			}
		}
		if unfinished == 0 {
			return
		}
		if len(enabled) == 0 {
			// every unfinished thread was seen parked on a lock. The thread that just ran may have
			// released it: wait until one of them arrives at a point or finishes; it is a deadlock
			// only if all of them are (still) parked in a sync primitive.
			seq := s.waitSeq.Add(1)
			progressed := false
			for !progressed {
				select {
				case ev := <-s.events:
					et := s.threads[ev.tid]
					et.blocked = false
					if ev.done {
						et.done = true
					} else {
						et.atPoint = true
						et.npoints++
						s.Points++
					}
					progressed = true
				case sq := <-s.stuck:
					if sq != seq {
						continue
					}
					all := true
					for _, t := range s.threads {
						if !t.done && t.blocked {
							if st := goroutineState(t.gid); !(strings.HasPrefix(st, "sync.") || strings.HasPrefix(st, "semacquire")) {
								all = false
							}
						}
					}
					if all {
						s.Dead = true
						return
					}
				}
			}
			running = -1
			continue
		}
		// canonical order: the running thread first if still enabled, then ascending ids
		var opts []int
		runningEnabled := false
		for _, id := range enabled {
			if id == running {
				runningEnabled = true
			}
		}
		if runningEnabled {
			opts = append(opts, running)
		}
		for _, id := range enabled {
			if id != running {
				opts = append(opts, id)
			}
		}
		var pick int
		if s.Policy != nil {
			pick = opts[s.Policy(s, opts)]
		} else if runningEnabled {
			pick = opts[src.Deviate(len(opts))]
		} else {
			pick = opts[src.Choose(len(opts))]
		}
		s.Trace = append(s.Trace, pick)
		running = pick
		s.cur = pick
		t := s.threads[pick]
		t.atPoint = false
		t.wake <- struct{}{}
		// wait for an event; an event may also come from a previously blocked thread
		seq := s.waitSeq.Add(1)
	wait:
		for {
			select {
			case ev := <-s.events:
				et := s.threads[ev.tid]
				if ev.done {
					et.done = true
				} else {
					et.atPoint = true
					et.npoints++
					s.Points++
				}
				if et.blocked {
					et.blocked = false // it got through its lock; it now waits at a point (or is done)
					if ev.tid != pick {
						continue wait
					}
				}
				if ev.tid == pick {
					break wait
				}
			case sq := <-s.stuck:
				if sq != seq {
					continue wait
				}
				if st := goroutineState(t.gid); strings.HasPrefix(st, "sync.") || strings.HasPrefix(st, "semacquire") {
					t.blocked = true
					s.everBlocked = true
					break wait
				}
			}
		}
		// Threads seen parked on a lock: the segment that just ran may have released it. Their state is
		// re-read (deterministic: Unlock readies the waiter before it returns) and a thread that is on
		// its way is waited for, so that the set of enabled threads is a function of the lock state.
		if s.everBlocked {
			for _, bt := range s.threads {
				for bt.blocked && !bt.done {
					st := goroutineState(bt.gid)
					if strings.HasPrefix(st, "sync.") || strings.HasPrefix(st, "semacquire") {
						break
					}
					ev := <-s.events
					et := s.threads[ev.tid]
					et.blocked = false
					if ev.done {
						et.done = true
					} else {
						et.atPoint = true
						et.npoints++
						s.Points++
					}
				}
			}
		}
	}
}

// goroutineState returns the wait state of goroutine gid ("running", "chan receive", "sync.Mutex.Lock", ...).
func goroutineState(gid int64) string {
	buf := make([]byte, 1<<18)
	n := runtime.Stack(buf, true)
	needle := fmt.Sprintf("goroutine %d [", gid)
	s := string(buf[:n])
	i := strings.Index(s, needle)
	if i < 0 {
		return ""
	}
	rest := s[i+len(needle):]
	if j := strings.IndexAny(rest, "],"); j >= 0 {
		return rest[:j]
	}
	return ""
}
