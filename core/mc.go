package core

import "fmt"

// Src is the single source of every decision a generator, scheduler or fault
// injector takes. Explore enumerates all decision sequences (stateless DFS in
// odometer form) within a deviation budget.
type Src struct {
	prefix []int
	trace  []point
	devs   int
	Budget int
	stop   bool
}

// Stop ends the exploration after the current run.
func (s *Src) Stop() { s.stop = true }

type point struct {
	choice, arity int
	dev           bool
}

// Choose returns every value 0..n-1 across the exploration.
func (s *Src) Choose(n int) int { return s.pick(n, false) }

// Deviate returns 0 (the default, free) or 1..n-1 (each costs one unit of budget).
func (s *Src) Deviate(n int) int { return s.pick(n, true) }

// Devs is the number of deviations taken so far in this run.
func (s *Src) Devs() int { return s.devs }

// Trace returns the choices of the current run.
func (s *Src) Trace() []int {
	r := make([]int, len(s.trace))
	for i, p := range s.trace {
		r[i] = p.choice
	}
	return r
}

func (s *Src) pick(n int, dev bool) int {
	if n <= 0 {
		panic("mc: choice point without alternatives")
	}
	i := len(s.trace)
	c := 0
	if i < len(s.prefix) {
		c = s.prefix[i]
		if c >= n {
			panic(fmt.Sprintf("mc: non-deterministic replay: choice %d at point %d but arity is %d", c, i, n))
		}
	}
	if dev && c != 0 {
		s.devs++
		if s.devs > s.Budget && i >= len(s.prefix) {
			panic("mc: budget exceeded on a default path")
		}
	}
	s.trace = append(s.trace, point{c, n, dev})
	return c
}

// Explore runs body once per decision sequence within the budget; body receives a fresh Src.
// It returns the number of runs. Replay divergence (changed arity) is a hard error (panic).
func Explore(budget int, body func(s *Src)) int {
	var prefix []int
	var arities []int
	runs := 0
	for {
		s := &Src{prefix: prefix, Budget: budget}
		body(s)
		runs++
		if s.stop {
			return runs
		}
		if len(s.trace) < len(prefix) {
			panic(fmt.Sprintf("mc: non-deterministic replay: run ended after %d points, prefix has %d", len(s.trace), len(prefix)))
		}
		for i := range arities {
			if s.trace[i].arity != arities[i] {
				panic(fmt.Sprintf("mc: non-deterministic replay: arity at point %d changed from %d to %d", i, arities[i], s.trace[i].arity))
			}
		}
		// find the last point with an unexplored alternative within budget
		tr := s.trace
		devsBefore := make([]int, len(tr)+1)
		for i, p := range tr {
			devsBefore[i+1] = devsBefore[i]
			if p.dev && p.choice != 0 {
				devsBefore[i+1]++
			}
		}
		next := -1
		for i := len(tr) - 1; i >= 0; i-- {
			p := tr[i]
			if p.choice+1 >= p.arity {
				continue
			}
			if p.dev && p.choice == 0 && devsBefore[i]+1 > budget {
				continue
			}
			next = i
			break
		}
		if next < 0 {
			return runs
		}
		prefix = make([]int, next+1)
		arities = make([]int, next+1)
		for i := 0; i < next; i++ {
			prefix[i] = tr[i].choice
			arities[i] = tr[i].arity
		}
		prefix[next] = tr[next].choice + 1
		arities[next] = tr[next].arity
	}
}

// ReplayChoices runs body once with the given decision sequence (defaults afterwards).
func ReplayChoices(choices []int, budget int, body func(s *Src)) {
	s := &Src{prefix: choices, Budget: budget}
	body(s)
}
