package core

import (
	"bufio"
	"bytes"
	"encoding/json"
	"fmt"
	"os"
	"os/exec"
	"path/filepath"
	"runtime"
	"sort"
	"strings"
	"sync"
	"time"
)

// Root is /verif (the directory that holds MANIFEST.json); set by main.
var Root = "/verif"

// RaceBin is the path of the -race build of this binary (for Check.Race).
var RaceBin = ""

type finding struct {
	prop, hash, rest string
}

func loadFindings() (map[string]finding, error) {
	res := map[string]finding{}
	b, err := os.ReadFile(filepath.Join(Root, "KNOWN_FINDINGS.txt"))
	if err != nil {
		if os.IsNotExist(err) {
			return res, nil
		}
		return nil, err
	}
	for _, ln := range strings.Split(string(b), "\n") {
		ln = strings.TrimSpace(ln)
		if !strings.HasPrefix(ln, "finding:") {
			continue
		}
		f := finding{rest: strings.TrimSpace(strings.TrimPrefix(ln, "finding:"))}
		for _, w := range strings.Fields(f.rest) {
			if strings.HasPrefix(w, "property=") {
				f.prop = strings.TrimPrefix(w, "property=")
			}
			if strings.HasPrefix(w, "case=") {
				f.hash = strings.TrimPrefix(w, "case=")
			}
			if strings.HasPrefix(w, "sig=") {
				f.hash = "sig:" + strings.TrimPrefix(w, "sig=")
			}
		}
		if f.prop != "" && f.hash != "" {
			res[f.prop+"/"+f.hash] = f
		}
	}
	return res, nil
}

// Replay is the content of a replay file.
type Replay struct {
	Property      string `json:"property"`
	Tier          string `json:"tier"`
	CaseHash      string `json:"case_hash"`
	Case          Case   `json:"case"`
	Class         string `json:"class"`
	Msg           string `json:"msg"`
	Confirmations int    `json:"confirmations"`
	ReplayCmd     string `json:"replay_cmd"`
}

type workerRun struct {
	shard int
	opts  WorkerOpts
}

type event struct {
	shard int
	viol  *violMsg
	sum   *Summary
	dead  *deadMsg
	exit  error
	errf  string
	opts  WorkerOpts
}

func selfBin(chk *Check, raceSet bool) string {
	if (chk.Race || raceSet) && RaceBin != "" {
		return RaceBin
	}
	p, err := os.Executable()
	if err != nil {
		return os.Args[0]
	}
	return p
}

func startWorker(chk *Check, opts WorkerOpts, errPath string, ch chan<- event, wg *sync.WaitGroup) (*exec.Cmd, error) {
	ob, _ := json.Marshal(opts)
	cmd := exec.Command(selfBin(chk, opts.RaceSet), "worker", string(ob))
	procs := 2
	if chk.Procs > 0 {
		procs = chk.Procs
	}
	cmd.Env = append(os.Environ(), fmt.Sprintf("GOMAXPROCS=%d", procs), "GOTRACEBACK=all")
	if opts.RaceSet {
		cmd.Env = append(os.Environ(), "GOMAXPROCS=4", "GOTRACEBACK=all", "GORACE=halt_on_error=1")
	}
	ef, err := os.Create(errPath)
	if err != nil {
		return nil, err
	}
	cmd.Stderr = ef
	so, err := cmd.StdoutPipe()
	if err != nil {
		return nil, err
	}
	if err := cmd.Start(); err != nil {
		return nil, err
	}
	wg.Add(1)
	go func() {
		defer wg.Done()
		defer ef.Close()
		rd := bufio.NewReaderSize(so, 1<<20)
		gotSum := false
		var dead *deadMsg
		for {
			ln, err := rd.ReadBytes('\n')
			if len(bytes.TrimSpace(ln)) > 0 {
				var probe struct {
					T string `json:"t"`
				}
				if json.Unmarshal(ln, &probe) == nil {
					switch probe.T {
					case "viol", "one":
						var v violMsg
						if json.Unmarshal(ln, &v) == nil {
							ch <- event{shard: opts.Slot, viol: &v, opts: opts}
						}
					case "sum":
						var s Summary
						if json.Unmarshal(ln, &s) == nil {
							gotSum = true
							ch <- event{shard: opts.Slot, sum: &s, opts: opts}
						}
					case "dead":
						var d deadMsg
						if json.Unmarshal(ln, &d) == nil {
							dead = &d
						}
					}
				}
			}
			if err != nil {
				break
			}
		}
		werr := cmd.Wait()
		if !gotSum {
			if werr == nil {
				werr = fmt.Errorf("worker exited without summary")
			}
			ch <- event{shard: opts.Slot, exit: werr, dead: dead, errf: errPath, opts: opts}
		}
	}()
	return cmd, nil
}

// classifyDeath turns exit status + stderr into a verdict class.
func classifyDeath(ev event) (class, info string) {
	if ev.dead != nil {
		return ev.dead.Class, ev.dead.Info
	}
	b, _ := os.ReadFile(ev.errf)
	s := string(b)
	first := s
	if len(first) > 1500 {
		first = first[:1500]
	}
	switch {
	case strings.Contains(s, "WARNING: DATA RACE"):
		i := strings.Index(s, "WARNING: DATA RACE")
		t := s[i:]
		if len(t) > 2500 {
			t = t[:2500]
		}
		return "data-race", t
	case strings.Contains(s, "stack overflow") || strings.Contains(s, "goroutine stack exceeds"):
		// keep the frames that repeat
		return "fatal-stack-overflow", firstLines(s, 3) + " ... " + repeatingFrame(s)
	case strings.Contains(s, "out of memory") || strings.Contains(s, "cannot allocate memory"):
		return "out-of-memory", firstLines(s, 3)
	case strings.Contains(s, "panic:"):
		i := strings.Index(s, "panic:")
		t := s[i:]
		if len(t) > 1500 {
			t = t[:1500]
		}
		return "panic-in-goroutine", t
	case strings.Contains(s, "fatal error:"):
		return "fatal-error", first
	}
	return "worker-died", fmt.Sprintf("%v: %s", ev.exit, first)
}

func firstLines(s string, n int) string {
	ls := strings.SplitN(s, "\n", n+1)
	if len(ls) > n {
		ls = ls[:n]
	}
	return strings.Join(ls, " / ")
}

func repeatingFrame(s string) string {
	cnt := map[string]int{}
	for _, ln := range strings.Split(s, "\n") {
		if strings.Contains(ln, "tyler-sommer/stick") && !strings.HasPrefix(ln, "\t") {
			if i := strings.Index(ln, "("); i > 0 {
				ln = ln[:i]
			}
			cnt[ln]++
		}
	}
	best, bn := "", 0
	for k, v := range cnt {
		if v > bn {
			best, bn = k, v
		}
	}
	return fmt.Sprintf("most frequent frame %s x%d", best, bn)
}

// RunOne executes a single case in a fresh supervised subprocess.
func RunOne(chk *Check, tier string, c Case, work string, raceSet ...bool) (Result, string) {
	ch := make(chan event, 8)
	var wg sync.WaitGroup
	opts := WorkerOpts{ID: chk.ID, Tier: tier, Of: 1, One: &c, CaseMs: caseMs(chk, tier),
		Dump: filepath.Join(work, "one.dump"), RaceSet: len(raceSet) > 0 && raceSet[0]}
	_, err := startWorker(chk, opts, filepath.Join(work, "one.err"), ch, &wg)
	if err != nil {
		return Result{V: OK}, "cannot start: " + err.Error()
	}
	go func() { wg.Wait(); close(ch) }()
	var res *Result
	for ev := range ch {
		if ev.viol != nil {
			r := ev.viol.Res
			res = &r
		} else if ev.exit != nil && res == nil {
			class, info := classifyDeath(ev)
			r := Violation(class, info)
			res = &r
		}
	}
	if res == nil {
		return Result{V: OK}, "no result"
	}
	return *res, ""
}

func caseMs(chk *Check, tier string) int64 {
	d := chk.CaseDeadline
	if d == 0 {
		d = 10 * time.Second
		if tier == "thorough" {
			d = 30 * time.Second
		}
	}
	return d.Milliseconds()
}

// RunCheck is the supervisor: shards the check over worker processes, turns worker death
// and divergence into verdicts, applies known findings, writes replays and evidence.
// It returns the process exit code.
func RunCheck(chk *Check, tier string, seed int64) int {
	t0 := time.Now()
	known, err := loadFindings()
	if err != nil {
		fmt.Println("cannot read KNOWN_FINDINGS.txt:", err)
		return 2
	}
	work := filepath.Join(Root, ".work", fmt.Sprintf("%s-%s-%d", chk.ID, tier, os.Getpid()))
	os.MkdirAll(work, 0o755)
	defer os.RemoveAll(work)
	nw := runtime.NumCPU()
	if chk.MaxWorkers > 0 && chk.MaxWorkers < nw {
		nw = chk.MaxWorkers
	}
	budget := 20 * time.Minute
	if chk.Budget != nil {
		budget = chk.Budget(tier)
	}
	deadline := t0.Add(budget).UnixNano()

	ch := make(chan event, 1024)
	var wg sync.WaitGroup
	cmds := map[int]*exec.Cmd{}
	var mu sync.Mutex
	// slots 0..nw-1 are the normal workers; slots nw.. are the -race workers that run only Race levels
	nr := 0
	for _, l := range chk.Levels(tier) {
		if l.Race {
			nr = nw / 2
			if nr < 1 {
				nr = 1
			}
		}
	}
	if os.Getenv("VERIF_NORACE") != "" { // debugging aid: skip the race-detector pass
		nr = 0
	}
	if nr > 0 && RaceBin == "" {
		fmt.Println("race binary not built (.bin/vcheck-race): run ./setup.sh")
		return 2
	}
	launch := func(slot, fromLevel int, fromIdx int64, gen int) error {
		shard, of, raceSet := slot, nw, false
		if slot >= nw {
			shard, of, raceSet = slot-nw, nr, true
		}
		opts := WorkerOpts{ID: chk.ID, Tier: tier, Shard: shard, Of: of, Seed: seed, Slot: slot, RaceSet: raceSet,
			FromLevel: fromLevel, FromIdx: fromIdx,
			Prog:     filepath.Join(work, fmt.Sprintf("w%d.prog", slot)),
			Dump:     filepath.Join(work, fmt.Sprintf("w%d.dump", slot)),
			Deadline: deadline, CaseMs: caseMs(chk, tier)}
		os.Remove(opts.Prog)
		cmd, err := startWorker(chk, opts, filepath.Join(work, fmt.Sprintf("w%d.%d.err", slot, gen)), ch, &wg)
		if err != nil {
			return err
		}
		mu.Lock()
		cmds[slot] = cmd
		mu.Unlock()
		return nil
	}
	nslots := nw + nr
	for i := 0; i < nslots; i++ {
		if err := launch(i, 0, 0, 0); err != nil {
			fmt.Println("cannot start worker:", err)
			return 2
		}
	}
	killAll := func() {
		mu.Lock()
		for _, c := range cmds {
			if c.Process != nil {
				c.Process.Kill()
			}
		}
		mu.Unlock()
	}

	total := Summary{Skips: map[string]int64{}, Cnt: map[string]int64{}}
	levelStats := map[int][]LevelStat{}
	recycles := 0
	var violStates, violTrans int64
	partialEvals, partialNT := map[int]int64{}, map[int]int64{} // per shard: executed so far, as of its last reported violation
	finished := 0
	restarts := 0
	violations := 0
	knownHit := map[string]int{}
	var replays []string
	unconfirmed := 0
	aborted := false
	maxOutcomes := int64(0)

	gens := map[int]int{}
	report := func(c Case, class, msg string, confirmations int, sig string) {
		h := c.Hash()
		for _, k := range []string{h, "sig:" + sig} {
			if f, ok := known[chk.ID+"/"+k]; ok && k != "sig:" {
				knownHit[k]++
				if knownHit[k] == 1 {
					fmt.Printf("KNOWN-FINDING: property=%s %s\n", chk.ID, strings.TrimSpace(strings.Replace(f.rest, "property="+chk.ID, "", 1)))
				}
				return
			}
		}
		violations++
		dir := filepath.Join(Root, "replays", chk.ID)
		os.MkdirAll(dir, 0o755)
		p := filepath.Join(dir, h+".json")
		rp := Replay{Property: chk.ID, Tier: tier, CaseHash: h, Case: c, Class: class, Msg: msg,
			Confirmations: confirmations, ReplayCmd: "./run.sh replay " + p}
		b, _ := json.MarshalIndent(rp, "", " ")
		os.WriteFile(p, b, 0o644)
		// a plain unit test that replays the case without the explorer: go test ./replays/<id>/ -run <hash>
		cj, _ := json.Marshal(c)
		test := fmt.Sprintf("package replay_test\n\nimport (\n\t\"encoding/json\"\n\t\"testing\"\n\n\t_ \"verif/checks\"\n\t\"verif/core\"\n)\n\n"+
			"// Replays one recorded case of %s directly against /repo's working tree (class: %s).\n// A case that kills the process fails the test by crashing it.\n"+
			"func TestReplay_%s(t *testing.T) {\n\tvar c core.Case\n\tif err := json.Unmarshal([]byte(%s), &c); err != nil {\n\t\tt.Fatal(err)\n\t}\n"+
			"\tchk := core.Lookup(%q)\n\tif chk.Init != nil {\n\t\tchk.Init()\n\t}\n\tif r := core.SafeRun(chk, c); r.V == core.Viol {\n\t\tt.Fatalf(\"%%s: %%s\", r.Why, r.Msg)\n\t}\n}\n",
			chk.ID, class, h, "`"+strings.ReplaceAll(string(cj), "`", "`+\"`\"+`")+"`", chk.ID)
		os.WriteFile(filepath.Join(dir, "replay_"+h+"_test.go"), []byte(test), 0o644)
		replays = append(replays, p)
		short := msg
		if len(short) > 600 {
			short = short[:600] + "..."
		}
		if violations <= 8 {
			fmt.Printf("VIOLATION property=%s replay=%s\n  class=%s case=%s\n  %s\n", chk.ID, p, class, c.Key(), strings.ReplaceAll(short, "\n", "\n  "))
		} else {
			fmt.Printf("VIOLATION property=%s replay=%s\n", chk.ID, p)
		}
	}

	for finished < nslots {
		ev := <-ch
		switch {
		case ev.viol != nil:
			report(ev.viol.Case, ev.viol.Res.Why, ev.viol.Res.Msg, 1, ev.viol.Res.Sig)
			violStates += ev.viol.Res.States
			violTrans += ev.viol.Res.Trans
			if ev.viol.Evals > partialEvals[ev.shard] {
				partialEvals[ev.shard], partialNT[ev.shard] = ev.viol.Evals, ev.viol.NT
			}
		case ev.sum != nil:
			s := ev.sum
			if s.Recycle {
				recycles++
				gens[ev.shard]++
				if err := launch(ev.shard, s.RLevel, s.RIdx, gens[ev.shard]); err != nil {
					finished++
				}
			} else {
				finished++
			}
			total.Evals += s.Evals
			total.Dups += s.Dups
			total.Distinct += s.Distinct
			total.NT += s.NT
			total.States += s.States
			total.Trans += s.Trans
			total.Traces += s.Traces
			if s.Outcomes > maxOutcomes {
				maxOutcomes = s.Outcomes
			}
			total.Outcomes += s.Outcomes
			for k, v := range s.Skips {
				total.Skips[k] += v
			}
			for k, v := range s.Cnt {
				total.Cnt[k] += v
			}
			if s.Capped {
				total.Capped = true
			}
			if old, ok := levelStats[ev.shard]; ok {
				for li := range s.Levels {
					if li < len(old) {
						s.Levels[li].Ran += old[li].Ran
					}
				}
			}
			levelStats[ev.shard] = s.Levels
			for _, c := range s.Samples {
				if len(total.Samples) < 10 {
					total.Samples = append(total.Samples, c)
				}
			}
		case ev.exit != nil:
			if aborted {
				finished++
				continue
			}
			// worker died: which case?
			lvl, idx, c, ok := ReadProg(ev.opts.Prog)
			class, info := classifyDeath(ev)
			if !ok {
				fmt.Printf("worker %d died before its first case (%s: %s)\n", ev.shard, class, info)
				finished++
				total.Capped = true
				continue
			}
			// confirm in a fresh process
			r2, note := RunOne(chk, tier, c, work, ev.opts.RaceSet)
			conf := 1
			if r2.V == Viol {
				conf = 2
				r3, _ := RunOne(chk, tier, c, work, ev.opts.RaceSet)
				if r3.V == Viol {
					conf = 3
				}
			}
			if class == "data-race" && conf < 2 {
				// a report of the race detector is evidence in itself (it has no false positives); the
				// sampled schedule need not repeat
				report(c, class, info+"\n(not reproduced when the case was replayed alone: schedules are sampled)", 1, "")
			} else if conf >= 2 {
				report(c, class, info+"\n(confirmed in fresh worker: "+r2.Why+")", conf, "")
			} else {
				unconfirmed++
				fmt.Printf("note: worker %d died (%s) on case %s but the case passed when replayed alone (%s); not reported\n", ev.shard, class, c.Key(), note)
			}
			total.Evals++
			restarts++
			gens[ev.shard]++
			if restarts > 400 {
				fmt.Println("too many worker deaths; stopping early")
				aborted = true
				total.Capped = true
				killAll()
				finished++
				continue
			}
			if err := launch(ev.shard, lvl, idx, gens[ev.shard]); err != nil {
				finished++
			}
		}
		if violations >= 5 && !aborted {
			aborted = true
			total.Capped = true
			killAll()
		}
	}
	wg.Wait()

	// merge level stats
	var levels []map[string]any
	allDone := true
	var ls0 []LevelStat
	for _, v := range levelStats {
		ls0 = v
		break
	}
	if len(levelStats) > 0 {
		for li := range ls0 {
			done := true
			var gen, ran int64
			for _, ws := range levelStats {
				if li < len(ws) {
					if !ws[li].Done {
						done = false
					}
					if ws[li].Generated > gen {
						gen = ws[li].Generated
					}
					ran += ws[li].Ran
				}
			}
			if len(levelStats) < nslots {
				done = false
			}
			if !done {
				allDone = false
			}
			levels = append(levels, map[string]any{"bound": ls0[li].Name, "enumerated": gen, "executed": ran, "completed": done})
		}
	} else {
		allDone = false
	}
	exhaustive := allDone && !total.Capped && !aborted
	wall := time.Since(t0).Seconds()

	var samples []any
	for _, c := range total.Samples {
		samples = append(samples, c)
	}
	if len(samples) == 0 {
		samples = append(samples, "none")
	}
	var kh []string
	for h, n := range knownHit {
		kh = append(kh, fmt.Sprintf("%s x%d", h, n))
	}
	sort.Strings(kh)
	// a run that stopped at its first violations has no worker summaries: report what the workers had executed
	// when they last reported (a lower bound)
	var pe, pn int64
	for sh, e := range partialEvals {
		pe += e
		pn += partialNT[sh]
	}
	if pe > total.Evals {
		total.Evals = pe
		if total.Distinct < pe {
			total.Distinct = pe
		}
	}
	if pn > total.NT {
		total.NT = pn
	}
	cov := map[string]any{
		"evaluations":                 total.Evals,
		"distinct_nontrivial":         total.NT,
		"distinct_cases":              total.Distinct,
		"duplicates_skipped":          total.Dups,
		"rule":                        chk.Rule,
		"samples":                     samples,
		"exhaustive":                  exhaustive,
		"bounds":                      levels,
		"out_of_claim_skips":          total.Skips,
		"distinct_outcomes_at_least":  maxOutcomes,
		"workers":                     nw,
		"race_workers":                nr,
		"worker_restarts_after_death": restarts,
		"worker_recycles":             recycles,
		"unconfirmed_deaths":          unconfirmed,
		"known_findings_hit":          kh,
		"budget_s":                    budget.Seconds(),
		"counters":                    total.Cnt,
	}
	if chk.Category == "model_checking" {
		if total.States == 0 { // run stopped early: count what the reported violations covered
			total.States, total.Trans = violStates, total.Trans+violTrans
		}
		if total.States < 1 { // aborted before any exploration finished (e.g. the free-running pass failed first): the initial state
			total.States = 1
		}
		if total.Trans < 1 {
			total.Trans = 1
		}
		cov["states"] = total.States
		cov["transitions"] = total.Trans
		cov["traces_validated_against_impl"] = total.Traces
	}
	ev := map[string]any{
		"property_id": chk.ID,
		"tier":        tier,
		"seed":        seed,
		"level":       chk.Category,
		"coverage":    cov,
		"assumptions": chk.Assumptions,
		"wall_s":      wall,
		"violations":  violations,
	}
	os.MkdirAll(filepath.Join(Root, "evidence"), 0o755)
	b, _ := json.MarshalIndent(ev, "", " ")
	os.WriteFile(filepath.Join(Root, "evidence", chk.ID+".json"), append(b, '\n'), 0o644)

	fmt.Printf("%s %s: %d cases executed (%d distinct non-trivial, >=%d distinct outcomes), %d known findings, %d violations, exhaustive=%v, %.1fs\n",
		chk.ID, tier, total.Evals, total.NT, maxOutcomes, len(kh), violations, exhaustive, wall)
	for _, l := range levels {
		fmt.Printf("  bound %-40v enumerated=%-9v executed=%-9v completed=%v\n", l["bound"], l["enumerated"], l["executed"], l["completed"])
	}
	if len(total.Skips) > 0 {
		fmt.Printf("  out-of-claim skips: %v\n", total.Skips)
	}
	if violations > 0 {
		return 1
	}
	return 0
}
