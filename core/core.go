// Package core is the common machinery of the bounded-exhaustive checks:
// case/ result types, the sharded supervised-worker runner, known findings,
// replay files and evidence output. See DESIGN.md section 2.
package core

import (
	"crypto/sha256"
	"encoding/hex"
	"encoding/json"
	"fmt"
	"hash/fnv"
	"time"
)

// Case is one enumerated execution: everything needed to re-run it without the explorer.
type Case struct {
	Fam  string            `json:"fam"`            // sub-family (decides how Run interprets the rest)
	Src  string            `json:"src,omitempty"`  // main template source / input string
	Tpls map[string]string `json:"tpls,omitempty"` // loader map
	Ctx  string            `json:"ctx,omitempty"`  // named context / valuation
	Args []string          `json:"args,omitempty"` // further parameters (spelling, fault plan, schedule ...)
	Exp  string            `json:"exp,omitempty"`  // expectation computed by the generator / reference
	N    []int             `json:"n,omitempty"`    // numeric parameters
}

// Key is the canonical form of a case (map keys are sorted by encoding/json).
func (c Case) Key() string {
	b, _ := json.Marshal(c)
	return string(b)
}

// Hash identifies a case in replay files and KNOWN_FINDINGS.txt.
func (c Case) Hash() string {
	s := sha256.Sum256([]byte(c.Key()))
	return hex.EncodeToString(s[:8])
}

func fnv64(s string) uint64 {
	h := fnv.New64a()
	h.Write([]byte(s))
	return h.Sum64()
}

// Verdicts.
const (
	OK   = 0
	Skip = 1
	Viol = 2
)

// Result of running one case against the real code.
type Result struct {
	V   int    `json:"v"`
	Why string `json:"why,omitempty"` // skip reason or violation class
	Msg string `json:"msg,omitempty"` // expected vs observed
	NT  bool   `json:"nt,omitempty"`  // case is non-trivial by the check's rule
	Out string `json:"out,omitempty"` // observable outcome (hashed: distinct outcomes)
	// Sig names a recorded defect when, and only when, the check has verified that this
	// violation is completely explained by it (KNOWN_FINDINGS.txt "sig=" entries).
	Sig string `json:"sig,omitempty"`
	// model-checking counters contributed by this case
	States int64 `json:"states,omitempty"`
	Trans  int64 `json:"trans,omitempty"`
	Traces int64 `json:"traces,omitempty"`
	// Capped: the case stopped at an internal time limit (the run is then not exhaustive)
	Capped bool `json:"capped,omitempty"`
	// additional named counters (summed)
	Cnt map[string]int64 `json:"cnt,omitempty"`
}

func Okay(nt bool, out string) Result { return Result{V: OK, NT: nt, Out: out} }
func Skipped(why string) Result       { return Result{V: Skip, Why: why} }
func Violation(class, msg string) Result {
	if len(msg) > 6000 { // cases with very long inputs: keep both ends (the replay file holds the case itself)
		msg = msg[:3500] + fmt.Sprintf(" ...[%d bytes omitted]... ", len(msg)-5000) + msg[len(msg)-1500:]
	}
	return Result{V: Viol, Why: class, Msg: msg, NT: true}
}

// Level is one bound of the iterated exploration; levels run simplest-first.
type Level struct {
	Name string
	Gen  func(emit func(Case))
	Race bool // run by the workers built with the race detector (free-running pass)
}

// Check describes one property's bounded-exhaustive check.
type Check struct {
	ID          string
	Category    string // evidence "level"
	Rule        string
	Assumptions []string
	Levels      func(tier string) []Level
	Run         func(c Case) Result
	// Budget is the soft wall-clock budget of a tier: when it is used up the run
	// stops with exhaustive:false (exit 0) and reports the bounds completed.
	Budget       func(tier string) time.Duration
	CaseDeadline time.Duration // per-case non-termination deadline (default 10s / 30s)
	MaxWorkers   int           // 0: number of CPUs
	Race         bool          // workers are the -race binary
	NoDedup      bool          // cases are distinct by construction (saves memory)
	Init         func()        // run once in each worker before the first case
	Procs        int           // GOMAXPROCS of the (non-race) workers; default 2
}

var registry = map[string]*Check{}

func Register(c *Check)       { registry[c.ID] = c }
func Lookup(id string) *Check { return registry[id] }
func All() map[string]*Check  { return registry }
