module verif

go 1.23

require github.com/tyler-sommer/stick v0.0.0

require github.com/shopspring/decimal v1.3.1

replace github.com/tyler-sommer/stick => /repo
