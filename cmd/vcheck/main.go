// vcheck: bounded-exhaustive checks of the stick properties (see /verif/DESIGN.md).
//
//	vcheck check <id> [--tier quick|thorough]
//	vcheck replay <replay.json>
//	vcheck worker <json opts>      (internal)
//	vcheck list
package main

import (
	"encoding/json"
	"fmt"
	"os"
	"path/filepath"
	"sort"
	"strconv"

	_ "verif/checks"
	"verif/core"
)

func main() {
	if len(os.Args) < 2 {
		fmt.Println("usage: vcheck check <id> [--tier quick|thorough] | replay <file> | list")
		os.Exit(2)
	}
	if r := os.Getenv("VERIF_ROOT"); r != "" {
		core.Root = r
	}
	if exe, err := os.Executable(); err == nil {
		rb := filepath.Join(filepath.Dir(exe), "vcheck-race")
		if _, err := os.Stat(rb); err == nil {
			core.RaceBin = rb
		}
	}
	switch os.Args[1] {
	case "worker":
		var o core.WorkerOpts
		if err := json.Unmarshal([]byte(os.Args[2]), &o); err != nil {
			fmt.Fprintln(os.Stderr, "bad worker options:", err)
			os.Exit(4)
		}
		core.WorkerMain(o)
	case "list":
		var ids []string
		for id := range core.All() {
			ids = append(ids, id)
		}
		sort.Strings(ids)
		for _, id := range ids {
			fmt.Println(id)
		}
	case "check":
		if len(os.Args) < 3 {
			fmt.Println("usage: vcheck check <id> [--tier quick|thorough]")
			os.Exit(2)
		}
		chk := core.Lookup(os.Args[2])
		if chk == nil {
			fmt.Println("unknown check", os.Args[2])
			os.Exit(2)
		}
		tier := os.Getenv("VERIF_TIER")
		for i := 3; i < len(os.Args); i++ {
			if os.Args[i] == "--tier" && i+1 < len(os.Args) {
				tier = os.Args[i+1]
			}
		}
		if tier != "thorough" {
			tier = "quick"
		}
		seed, _ := strconv.ParseInt(os.Getenv("VERIF_SEED"), 10, 64)
		if seed < 0 {
			seed = -seed
		}
		os.Exit(core.RunCheck(chk, tier, seed))
	case "replay":
		b, err := os.ReadFile(os.Args[2])
		if err != nil {
			fmt.Println(err)
			os.Exit(2)
		}
		var rp core.Replay
		if err := json.Unmarshal(b, &rp); err != nil {
			fmt.Println(err)
			os.Exit(2)
		}
		chk := core.Lookup(rp.Property)
		if chk == nil {
			fmt.Println("unknown check", rp.Property)
			os.Exit(2)
		}
		work := filepath.Join(core.Root, ".work", fmt.Sprintf("replay-%d", os.Getpid()))
		os.MkdirAll(work, 0o755)
		defer os.RemoveAll(work)
		tier := rp.Tier
		if tier == "" {
			tier = "quick"
		}
		res, note := core.RunOne(chk, tier, rp.Case, work, rp.Case.Fam == "race")
		fmt.Printf("case: %s\n", rp.Case.Key())
		if res.V == core.Viol {
			fmt.Printf("VIOLATION property=%s replay=%s\n  class=%s\n  %s\n", rp.Property, os.Args[2], res.Why, res.Msg)
			os.RemoveAll(work)
			os.Exit(1)
		}
		fmt.Printf("no violation (verdict %d %s %s)\n", res.V, res.Why, note)
	default:
		fmt.Println("unknown command", os.Args[1])
		os.Exit(2)
	}
}
