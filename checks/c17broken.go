package checks

// c17Broken: sources that are malformed under any reading of the language (none of them is a Twig form the
// library merely does not support yet); each hits a different error site of the parser, including the ones
// that build their error with errors.New / fmt.Errorf instead of a typed parse error.
var c17Broken = []string{
	"{% for 1 in arr %}{% endfor %}", "{% for k, 2 in arr %}{% endfor %}", "{% for x in arr unless y %}{% endfor %}", "{% for in arr %}{% endfor %}",
	"{{ a is 1 }}", "{{ a is not 'x' }}", "{{ a is }}", "{{ a is not }}",
	"{% if %}y{% endif %}", "{% if a %}y", "{{ $ }}", "{{ a b }}", "{{ (a }}", "{{ [a }}", "{{ {'k': 1 }}", "{{ a. }}", "{{ a| }}", "{{ f(a }}", "{{ f(a,, b) }}", "{{ [1,, 2] }}", "{{ {'k' 1} }}",
	"{{ 'x }}", "{{ \"x#{a\" }}", "{{ a ? b : }}", "{{ a + }}", "{{ * a }}", "{{ a not b }}",
	"{% nosuchtag %}", "{% block %}{% endblock %}", "{% block b %}x", "{% extends %}", "{% extends 'base2' %}{% extends 'mid2' %}", "{% set %}", "{% set x %}y", "{% set x = %}", "{% set 1 = 2 %}",
	"{% include %}", "{% include 'inc' with %}", "{% include 'inc' only only %}", "{% embed 'base2' %}{% if a %}{% endif %}{% endembed %}", "{% embed 'base2' %}", "{% embed %}{% endembed %}",
	"{% macro %}{% endmacro %}", "{% macro m( %}{% endmacro %}", "{% macro m(a) %}x",
	"{% import 'macros' %}", "{% import 'macros' as %}", "{% from 'macros' import m as %}", "{% from 'macros' m %}",
	"{% use %}", "{% use 'base2' with a %}", "{% use 'base2' with a as %}", "{% filter %}x{% endfilter %}", "{% filter up| %}x{% endfilter %}", "{% filter up %}x", "{% do %}", "{% verbatim %}x",
	"{# x", "{% endif %}", "{% endfor %}", "{% else %}", "{% endblock %}", "{{ a }", "{% if a }}x{% endif %}", "{{ a %}", "{% if a %}x{% endfor %}", "{% for v in arr %}x{% endif %}",
	// a misspelt or unknown tag directly inside a body that an end tag closes
	"{% block t %}Hello{% endblok %} world", "{% if a %}a{% else %}b{% endfi %}", "{% macro m() %}M{% endmarco %}x", "{% filter up %}x{% endfilt %}", "{% block t %}x{% nosuch %}{% endblock %}",
	"{% if a %}y{% elseif a %}z{% bogus %}{% endif %}", "{% for i in arr %}{% else %}e{% endfro %}", "{% set c %}x{% endest %}", "{% embed 'base2' %}{% block a %}x{% endblok %}{% endembed %}",
}
