package checks

import (
	"fmt"
	"github.com/tyler-sommer/stick"
	"github.com/tyler-sommer/stick/twig"
	"html"
	"net/url"
	"strings"
	"time"
	"unicode"
	"unicode/utf16"
	"unicode/utf8"

	"github.com/tyler-sommer/stick/twig/escape"

	"verif/core"
)

// C13 — the escapers emit only inert characters and lose no information.
// Oracles are phrased with decoders of the target contexts (DESIGN.md 2.6), not with
// expected escape strings, so any correct escape format is accepted.

type escaper struct {
	name string
	fn   func(string) string
	safe string // documented safe punctuation (besides ASCII letters and digits)
	// alphabet checks that out is well-formed for the context and returns "" or a complaint
	alphabet func(out string) string
	decode   func(out string) (string, bool)
}

func isAlnum(c byte) bool {
	return (c >= '0' && c <= '9') || (c >= 'a' && c <= 'z') || (c >= 'A' && c <= 'Z')
}

func isHex(c byte) bool {
	return (c >= '0' && c <= '9') || (c >= 'a' && c <= 'f') || (c >= 'A' && c <= 'F')
}

func hexVal(s string) (rune, bool) {
	var v rune
	if len(s) == 0 {
		return 0, false
	}
	for i := 0; i < len(s); i++ {
		c := s[i]
		if !isHex(c) {
			return 0, false
		}
		v <<= 4
		switch {
		case c <= '9':
			v |= rune(c - '0')
		case c >= 'a':
			v |= rune(c-'a') + 10
		default:
			v |= rune(c-'A') + 10
		}
		if v > 0x7fffffff>>4 {
			return 0, false
		}
	}
	return v, true
}

var htmlEntities = []string{"&quot;", "&amp;", "&#39;", "&#039;", "&#x27;", "&apos;", "&lt;", "&gt;"}

// htmlAlphabet: none of < > " ' and & only as the start of one of the five entities
// (any standard spelling of the apostrophe entity is accepted).
func htmlAlphabet(out string) string {
	for i := 0; i < len(out); i++ {
		switch out[i] {
		case '<', '>', '"', '\'':
			return fmt.Sprintf("raw %q in output", out[i])
		case '&':
			ok := false
			for _, e := range htmlEntities {
				if strings.HasPrefix(out[i:], e) {
					ok = true
					break
				}
			}
			if !ok {
				return "'&' that does not start one of the five entities"
			}
		}
	}
	return ""
}

// entityAlphabet: ASCII letters, digits, safe punctuation and well-formed character references.
func entityAlphabet(safe string) func(string) string {
	return func(out string) string {
		for i := 0; i < len(out); {
			c := out[i]
			if isAlnum(c) || strings.IndexByte(safe, c) >= 0 {
				i++
				continue
			}
			if c != '&' {
				return fmt.Sprintf("raw %q in output", c)
			}
			j := strings.IndexByte(out[i:], ';')
			if j < 0 {
				return "character reference without ';'"
			}
			ref := out[i+1 : i+j]
			okRef := false
			switch {
			case strings.HasPrefix(ref, "#x") || strings.HasPrefix(ref, "#X"):
				_, okRef = hexVal(ref[2:])
			case strings.HasPrefix(ref, "#"):
				okRef = len(ref) > 1
				for k := 1; k < len(ref); k++ {
					if ref[k] < '0' || ref[k] > '9' {
						okRef = false
					}
				}
			default:
				okRef = ref == "quot" || ref == "amp" || ref == "lt" || ref == "gt" || ref == "apos"
			}
			if !okRef {
				return "malformed character reference &" + ref + ";"
			}
			i += j + 1
		}
		return ""
	}
}

func htmlDecode(out string) (string, bool) { return html.UnescapeString(out), true }

// jsDecode decodes the escapes of an ECMAScript string literal over UTF-16 code units.
func jsDecode(out string) (string, bool) {
	var units []uint16
	for i := 0; i < len(out); {
		c := out[i]
		if c != '\\' {
			r, n := utf8.DecodeRuneInString(out[i:])
			if r == utf8.RuneError && n <= 1 {
				return "", false
			}
			units = append(units, utf16.Encode([]rune{r})...)
			i += n
			continue
		}
		if i+1 >= len(out) {
			return "", false
		}
		e := out[i+1]
		switch e {
		case 'u':
			if i+2 < len(out) && out[i+2] == '{' {
				j := strings.IndexByte(out[i:], '}')
				if j < 0 {
					return "", false
				}
				v, ok := hexVal(out[i+3 : i+j])
				if !ok || v > 0x10ffff {
					return "", false
				}
				units = append(units, utf16.Encode([]rune{v})...)
				i += j + 1
			} else {
				if i+6 > len(out) {
					return "", false
				}
				v, ok := hexVal(out[i+2 : i+6])
				if !ok {
					return "", false
				}
				units = append(units, uint16(v))
				i += 6
			}
		case 'x':
			if i+4 > len(out) {
				return "", false
			}
			v, ok := hexVal(out[i+2 : i+4])
			if !ok {
				return "", false
			}
			units = append(units, uint16(v))
			i += 4
		default:
			m := map[byte]uint16{'b': 8, 'f': 12, 'n': 10, 'r': 13, 't': 9, 'v': 11, '0': 0, '\'': '\'', '"': '"', '\\': '\\', '/': '/'}
			v, ok := m[e]
			if !ok {
				return "", false
			}
			if e == '0' && i+2 < len(out) && out[i+2] >= '0' && out[i+2] <= '9' {
				// ECMAScript: \0 is NUL only when no decimal digit follows; otherwise it is a legacy octal escape
				// (another character) or a syntax error (strict mode, template literals)
				return "", false
			}
			units = append(units, v)
			i += 2
		}
	}
	// unpaired surrogates do not correspond to any input string
	rs := utf16.Decode(units)
	for k, r := range rs {
		if r == unicode.ReplacementChar {
			// either a genuine U+FFFD or an unpaired surrogate
			_ = k
		}
	}
	return string(rs), true
}

func jsAlphabet(out string) string {
	for i := 0; i < len(out); {
		c := out[i]
		if isAlnum(c) || c == ',' || c == '.' || c == '_' {
			i++
			continue
		}
		if c != '\\' {
			return fmt.Sprintf("raw %q in output", c)
		}
		if i+1 >= len(out) {
			return "dangling backslash"
		}
		switch out[i+1] {
		case 'u':
			if i+2 < len(out) && out[i+2] == '{' {
				j := strings.IndexByte(out[i:], '}')
				if j < 0 {
					return "unterminated \\u{"
				}
				if _, ok := hexVal(out[i+3 : i+j]); !ok {
					return "malformed \\u{...}"
				}
				i += j + 1
			} else {
				if i+6 > len(out) {
					return "short \\u escape"
				}
				if _, ok := hexVal(out[i+2 : i+6]); !ok {
					return "malformed \\uXXXX"
				}
				i += 6
			}
		case 'x':
			if i+4 > len(out) {
				return "short \\x escape"
			}
			if _, ok := hexVal(out[i+2 : i+4]); !ok {
				return "malformed \\xHH"
			}
			i += 4
		case 'b', 'f', 'n', 'r', 't', 'v', '0', '\\', '/':
			i += 2
		default:
			return fmt.Sprintf("backslash before %q", out[i+1])
		}
	}
	return ""
}

func isCSSWhite(c byte) bool { return c == ' ' || c == '\t' || c == '\n' || c == '\r' || c == '\f' }

// cssDecode consumes escapes as CSS Syntax Level 3 does: '\' + 1..6 hex digits + one optional whitespace.
func cssDecode(out string) (string, bool) {
	var sb strings.Builder
	for i := 0; i < len(out); {
		c := out[i]
		if c != '\\' {
			sb.WriteByte(c)
			i++
			continue
		}
		i++
		if i >= len(out) {
			return "", false
		}
		if !isHex(out[i]) {
			if out[i] == '\n' {
				return "", false
			}
			r, n := utf8.DecodeRuneInString(out[i:])
			sb.WriteRune(r)
			i += n
			continue
		}
		j := i
		for j < len(out) && j < i+6 && isHex(out[j]) {
			j++
		}
		v, _ := hexVal(out[i:j])
		if v == 0 || v > 0x10ffff || (v >= 0xd800 && v <= 0xdfff) {
			v = 0xfffd
		}
		sb.WriteRune(v)
		i = j
		if i < len(out) && isCSSWhite(out[i]) {
			if out[i] == '\r' && i+1 < len(out) && out[i+1] == '\n' {
				i++
			}
			i++
		}
	}
	return sb.String(), true
}

func cssAlphabet(out string) string {
	for i := 0; i < len(out); {
		c := out[i]
		if isAlnum(c) {
			i++
			continue
		}
		if c != '\\' {
			return fmt.Sprintf("raw %q in output", c)
		}
		i++
		j := i
		for j < len(out) && j < i+6 && isHex(out[j]) {
			j++
		}
		if j == i {
			return "backslash not followed by hex digits"
		}
		i = j
		if i < len(out) && out[i] == ' ' {
			i++
		}
	}
	return ""
}

func urlAlphabet(out string) string {
	for i := 0; i < len(out); {
		c := out[i]
		if isAlnum(c) || c == '-' || c == '.' || c == '_' || c == '~' {
			i++
			continue
		}
		if c != '%' {
			return fmt.Sprintf("raw %q in output", c)
		}
		if i+3 > len(out) || !isHex(out[i+1]) || !isHex(out[i+2]) {
			return "malformed percent escape"
		}
		i += 3
	}
	return ""
}

func urlDecode(out string) (string, bool) {
	s, err := url.QueryUnescape(out)
	return s, err == nil
}

var escapers = []escaper{
	{"html", escape.HTML, "", htmlAlphabet, htmlDecode},
	{"html_attr", escape.HTMLAttribute, ",.-_", entityAlphabet(",.-_"), htmlDecode},
	{"js", escape.JS, ",._", jsAlphabet, jsDecode},
	{"css", escape.CSS, "", cssAlphabet, cssDecode},
	{"url", escape.URLQueryParam, "-._~", urlAlphabet, urlDecode},
}

func safeEscape(fn func(string) string, s string) (out string, pan string) {
	defer func() {
		if p := recover(); p != nil {
			pan = panicInfo(p)
		}
	}()
	return fn(s), ""
}

func c13Ext(strat string) string {
	if strat == "" || strat == "HTML" {
		return "unknownext"
	}
	return strat
}

var c13Boundary = []string{"0", "9", "A", "F", "a", "f", "G", " ", "\t", "\n", "\\", "&", "#", ";", "%", "u", "x", "<", "\"", "'",
	"\u007f", "\u00a0", "\uffff", "\U00010000", "\U0001F600", "-", "+", "}", "/",
	"\x00", "\x01", "\r", "\x1f", "7", "8", "\u2028", "\u00ff", "\u0100", "\b", "\f", "\v", "=", "`"}

var c13Sub = []string{"1", "a", "F", " ", "\\", "&", "\"", "é", "\U0001F600", ";"}

func c13Levels(tier string) []core.Level {
	lv := []core.Level{
		{Name: "every Unicode scalar value U+0000..U+10FFFF as a one-character string", Gen: func(emit func(core.Case)) {
			for cp := 0; cp <= 0x10ffff; cp++ {
				if cp >= 0xd800 && cp <= 0xdfff {
					continue
				}
				emit(core.Case{Fam: "cp", N: []int{cp}})
			}
		}},
		{Name: "every byte 0x80..0xFF alone, after 'a', and every truncated multi-byte prefix", Gen: func(emit func(core.Case)) {
			for b := 0x80; b <= 0xff; b++ {
				emit(core.Case{Fam: "raw", Src: string([]byte{byte(b)})})
				emit(core.Case{Fam: "raw", Src: string([]byte{'a', byte(b), 'b'})})
			}
			for _, s := range []string{"é", "€", "\U0001F600"} {
				for i := 1; i < len(s); i++ {
					emit(core.Case{Fam: "raw", Src: s[:i]})
					emit(core.Case{Fam: "raw", Src: s[:i] + "<"})
				}
			}
		}},
		{Name: "every pair over the 43-character boundary alphabet", Gen: func(emit func(core.Case)) {
			for _, x := range c13Boundary {
				for _, y := range c13Boundary {
					emit(core.Case{Fam: "seq", Args: []string{x, y}})
				}
			}
		}},
		{Name: "every triple over the 10-character sub-alphabet", Gen: func(emit func(core.Case)) {
			for _, x := range c13Sub {
				for _, y := range c13Sub {
					for _, z := range c13Sub {
						emit(core.Case{Fam: "seq", Args: []string{x, y, z}})
					}
				}
			}
		}},
	}
	lv = append(lv, core.Level{Name: "position sweep: every boundary character at every offset 0..272 of a 280-character string of 1-byte, 2-byte and escape-expanding filler; runs of 1..300 copies of every boundary character (block-wise fast paths and fixed-size buffers have position-dependent behaviour)", Gen: func(emit func(core.Case)) {
		for _, fill := range []string{"x", "é", " "} {
			for _, c := range c13Boundary {
				for p := 0; p <= 272; p++ {
					emit(core.Case{Fam: "str", Src: strings.Repeat(fill, p) + c + strings.Repeat(fill, 279-p)})
				}
			}
		}
		for _, c := range c13Boundary {
			for n := 4; n <= 300; n++ {
				emit(core.Case{Fam: "str", Src: strings.Repeat(c, n)})
			}
		}
	}})
	lv = append(lv, core.Level{Name: "history: every escaper on every boundary character after each escaper has produced > 256 KiB / > 1 MiB of output; the twig escape filter on one environment for values that make 'strategy + value' ambiguous (html / html_attr), in both orders and after 5000 other values", Gen: func(emit func(core.Case)) {
		for e := range escapers {
			for k := 0; k < 4; k++ {
				emit(core.Case{Fam: "afterhuge", N: []int{e, k}})
			}
		}
		for i := range c13Boundary {
			for o := 0; o < 3; o++ {
				emit(core.Case{Fam: "twigfilter", N: []int{i, o}})
			}
		}
		for st := 0; st < 6; st++ {
			for other := 0; other < 2; other++ {
				emit(core.Case{Fam: "unknownstrategy", N: []int{st, other}})
			}
		}
		for i := range c13Boundary {
			for b := 0; b < 3; b++ {
				for n := 0; n < 3; n++ {
					for ch := 0; ch < 4; ch++ {
						emit(core.Case{Fam: "filtertag", N: []int{i, b, n, ch}})
					}
				}
			}
		}
	}})
	lv = append(lv, core.Level{Name: "the twig escape filter on long values: a 2- / 3- / 4-byte character or '<' at every offset within 5 bytes of the multiples of 1024 up to 16384 and of 32768, 65536, 131072, x 5 strategies (and through auto-escaping)", Gen: func(emit func(core.Case)) {
		var bases []int
		for b := 1024; b <= 16384; b += 1024 {
			bases = append(bases, b)
		}
		bases = append(bases, 32768, 65536, 131072, 512, 256, 128, 64)
		for _, b := range bases {
			for e := range escapers {
				for ch := 0; ch < 4; ch++ {
					emit(core.Case{Fam: "twiglong", N: []int{b, e, ch, 0}})
					if escapers[e].name == "html" {
						emit(core.Case{Fam: "twiglong", N: []int{b, e, ch, 1}})
					}
				}
			}
		}
	}})
	lv = append(lv, core.Level{Name: "the twig escape filter (on a variable and on the result of an expression) with every strategy on every Unicode scalar value as a value of its own, doubled and between a letter and a digit (256 code points per execution): the escaper's own output, no shortcut for 'harmless' values", Gen: func(emit func(core.Case)) {
		for e := range escapers {
			for b := 0; b <= 0x10ff; b++ {
				emit(core.Case{Fam: "twigcp", N: []int{b, e, b % 2}})
			}
		}
		// ... and on values of 9 Go types other than string that carry a boundary character in their text
		for e := range escapers {
			for b := range c13Boundary {
				for k := 1; k < len(c12Carriers); k++ {
					emit(core.Case{Fam: "carriers", N: []int{e, b, k}})
				}
			}
		}
	}})
	lv = append(lv, core.Level{Name: "re-escaping: every escaper on every escaper's output of every boundary character, alone and embedded in text (a 'do not double-encode' shortcut is lossy)", Gen: func(emit func(core.Case)) {
		for _, e2 := range escapers {
			for _, x := range c13Boundary {
				o, _ := safeEscape(e2.fn, x)
				emit(core.Case{Fam: "str", Src: o})
				emit(core.Case{Fam: "str", Src: "a " + o + " b" + o})
				emit(core.Case{Fam: "str", Src: o + o})
			}
		}
		for _, w := range []string{"&lt;", "&gt;", "&amp;", "&quot;", "&#39;", "&#039;", "&#x27;", "&apos;", "&amp;amp;", "&lt", "&;", "&#;", "\\u003C", "\\x3C", "\\3C ", "%3C", "%253C", "%", "\\", "&#60;", "&#x3C;", "&copy;", "&LT;"} {
			emit(core.Case{Fam: "str", Src: w})
			emit(core.Case{Fam: "str", Src: "x" + w + "y" + w})
		}
	}})
	if thorough(tier) {
		lv = append(lv, core.Level{Name: "every triple over the 43-character boundary alphabet", Gen: func(emit func(core.Case)) {
			for _, x := range c13Boundary {
				for _, y := range c13Boundary {
					for _, z := range c13Boundary {
						emit(core.Case{Fam: "seq", Args: []string{x, y, z}})
					}
				}
			}
		}})
		lv = append(lv, core.Level{Name: "every 4- and 5-tuple over the 10-character sub-alphabet", Gen: func(emit func(core.Case)) {
			var rec func(pre []string, n int)
			rec = func(pre []string, n int) {
				if n == 0 {
					emit(core.Case{Fam: "seq", Args: append([]string{}, pre...)})
					return
				}
				for _, x := range c13Sub {
					rec(append(pre, x), n-1)
				}
			}
			rec(nil, 4)
			rec(nil, 5)
		}})
	}
	return lv
}

// c13Sig is set by c13CheckOne when a css failure is completely explained by the recorded
// defect "escapes are not self-terminating" (each character's escape decodes correctly alone).
func cssOnlyUnterminated(e escaper, s string) bool {
	var sb strings.Builder
	for _, r := range s {
		o, _ := safeEscape(e.fn, string(r))
		d, ok := e.decode(o)
		if !ok {
			return false
		}
		sb.WriteString(d)
	}
	return sb.String() == s
}

func c13CheckOne(e escaper, s string, valid bool) (string, string) {
	out, pan := safeEscape(e.fn, s)
	if pan != "" {
		return "panic", e.name + "(" + q(s) + ") panicked: " + pan
	}
	if msg := e.alphabet(out); msg != "" {
		return "alphabet", fmt.Sprintf("%s(%q) = %q: %s", e.name, s, out, msg)
	}
	if !valid {
		return "", out
	}
	dec, ok := e.decode(out)
	want := s
	if e.name == "html_attr" && strings.IndexFunc(s, unicode.IsControl) >= 0 {
		// control characters (C0, DEL, C1) are deliberately replaced or remapped by HTML:
		// outside the losslessness claim; the alphabet was still checked
		return "", out
	}
	if e.name == "css" && strings.ContainsRune(s, 0) {
		return "", out // U+0000 cannot be represented in CSS at all (an escaped 0 reads as U+FFFD)
	}
	if utf8.RuneCountInString(s) > 1 && e.name != "url" {
		// escaping is a per-character substitution
		parts := ""
		for _, r := range s {
			o, _ := safeEscape(e.fn, string(r))
			parts += o
		}
		if parts != out {
			return "not-per-character", fmt.Sprintf("%s(%q) = %q but the concatenation of its characters' escapes is %q", e.name, s, out, parts)
		}
	}
	if !ok || dec != want {
		if e.name == "css" && utf8.RuneCountInString(s) > 1 && cssOnlyUnterminated(e, s) {
			return "lossy/css-escape-not-self-terminating", fmt.Sprintf("%s(%q) = %q, which the css decoder reads back as %q (each character's escape is correct alone)", e.name, s, out, dec)
		}
		return "lossy", fmt.Sprintf("%s(%q) = %q, which the %s decoder reads back as %q", e.name, s, out, e.name, dec)
	}
	return "", out
}

func stripControls(s string) string {
	return strings.Map(func(r rune) rune {
		if unicode.IsControl(r) {
			return -1
		}
		return r
	}, s)
}

func c13Run(c core.Case) core.Result {
	var sb strings.Builder
	switch c.Fam {
	case "cp":
		s := string(rune(c.N[0]))
		for _, e := range escapers {
			class, out := c13CheckOne(e, s, true)
			if class != "" {
				return core.Violation(class, out)
			}
			sb.WriteString(out)
			sb.WriteByte(0)
		}
		return core.Okay(true, sb.String())
	case "raw":
		for _, e := range escapers {
			class, out := c13CheckOne(e, c.Src, e.name == "url")
			if class != "" {
				return core.Violation(class, out)
			}
			sb.WriteString(out)
		}
		return core.Okay(true, sb.String())
	case "str":
		if !utf8.ValidString(c.Src) {
			return core.Skipped("invalid-utf8")
		}
		for _, e := range escapers {
			class, out := c13CheckOne(e, c.Src, true)
			if class != "" {
				r := core.Violation(class, out)
				if i := strings.Index(class, "/"); i > 0 {
					r.Why, r.Sig = class[:i], class[i+1:]
				}
				return r
			}
			sb.WriteString(out)
		}
		return core.Okay(true, sb.String())
	case "afterhuge":
		// an escaper's result does not depend on what was escaped before: after a call whose output exceeds
		// 256 KiB / 1 MiB (scratch buffers, pools), every escaper still treats every boundary character per character
		e1 := escapers[c.N[0]]
		huge := []string{strings.Repeat("\"", 50000), strings.Repeat("plain text ", 30000), strings.Repeat(" <é>&'", 40000), strings.Repeat("x", 1100000)}[c.N[1]]
		for round := 0; round < 3; round++ {
			if _, pan := safeEscape(e1.fn, huge); pan != "" {
				return core.Violation("panic", fmt.Sprintf("%s on %d bytes panicked: %s", e1.name, len(huge), pan))
			}
			for _, e := range escapers {
				for _, x := range c13Boundary {
					class, out := c13CheckOne(e, "a"+x+"b", true)
					if class != "" && !strings.Contains(class, "/") {
						return core.Violation(class, fmt.Sprintf("after %s had escaped %d bytes: %s", e1.name, len(huge), out))
					}
				}
			}
		}
		return core.Okay(true, "ok")
	case "carriers":
		// the escape filter on values that carry their text through a Go type other than string (named integer, bool and
		// float kinds, a struct, a pointer - all with a String method): what the escaper makes of that text
		e := escapers[c.N[0]]
		c12Carried = "a" + c13Boundary[c.N[1]] + "1<"
		want, _ := safeEscape(e.fn, c12Carried)
		v := c12Carriers[c.N[2]]()
		for _, src := range []string{"{{ v|escape('" + e.name + "')|raw }}", "{{ v|e('" + e.name + "')|raw }}", "{% for w in [v] %}{{ w|escape('" + e.name + "')|raw }}{% endfor %}"} {
			if strings.Contains(src, "|e(") {
				continue // (this library has no alias e)
			}
			out, err, pan := tryExec(twig.New(nil), src, map[string]stick.Value{"v": v})
			if err != nil || pan != "" || out != want {
				return core.Violation("filter-differs", fmt.Sprintf("%s with v = %T whose text is %q renders %q (%v %s), the escaper gives %q", src, v, c12Carried, out, err, pan, want))
			}
		}
		if e.name == "html" {
			for _, src := range []string{"{{ v }}", "{{ v|escape }}", "{{ v|escape|escape }}"} {
				out, err, pan := tryExec(twig.New(nil), src, map[string]stick.Value{"v": v})
				if err != nil || pan != "" || out != want {
					return core.Violation("filter-differs", fmt.Sprintf("%s (an inline template: html) with v = %T whose text is %q renders %q (%v %s), the escaper gives %q", src, v, c12Carried, out, err, pan, want))
				}
			}
		}
		return core.Okay(true, want)
	case "twigcp":
		// the escape filter of a twig environment on values that consist of one character only, once, twice and after
		// a letter - for 256 consecutive code points per execution: each result is the escaper's own
		e := escapers[c.N[1]]
		var vs []stick.Value
		var want strings.Builder
		for cp := c.N[0] * 256; cp < c.N[0]*256+256; cp++ {
			if cp >= 0xd800 && cp <= 0xdfff {
				continue
			}
			for _, v := range []string{string(rune(cp)), string(rune(cp)) + string(rune(cp)), "a" + string(rune(cp)) + "1"} {
				vs = append(vs, v)
				o, _ := safeEscape(e.fn, v)
				want.WriteString(o + "\n")
			}
		}
		if len(vs) == 0 {
			return core.Skipped("surrogate-block")
		}
		src := "{% for v in vs %}{{ v|escape('" + e.name + "')|raw }}\n{% endfor %}"
		if c.N[2] == 1 {
			// ... and on the result of an expression
			src = "{% for v in vs %}{{ (v ~ '')|escape('" + e.name + "')|raw }}\n{% endfor %}"
		}
		out, err, pan := tryExec(twig.New(nil), src, map[string]stick.Value{"vs": vs})
		if err != nil || pan != "" {
			return core.Violation("panic", fmt.Sprintf("%q over the code points of block %#x: %v %s", src, c.N[0]*256, err, pan))
		}
		if out != want.String() {
			gl, wl := strings.Split(out, "\n"), strings.Split(want.String(), "\n")
			for i := range wl {
				if i >= len(gl) || gl[i] != wl[i] {
					g := "<missing>"
					if i < len(gl) {
						g = gl[i]
					}
					return core.Violation("filter-differs", fmt.Sprintf("{{ v|escape('%s') }} with v = %q renders %q, the escaper gives %q", e.name, vs[i], g, wl[i]))
				}
			}
			return core.Violation("filter-differs", fmt.Sprintf("%q over block %#x renders more lines than values", src, c.N[0]*256))
		}
		return core.Okay(true, "ok")
	case "twiglong":
		// the escape filter on long values: a multi-byte character placed at every offset around the multiples of 4096
		// (and of 1024 / 65536), the rest ASCII - block-wise processing must not cut through a character
		e := escapers[c.N[1]]
		base, ch := c.N[0], []string{"é", "€", "\U0001F600", "<"}[c.N[2]]
		var vs []stick.Value
		var want strings.Builder
		for p := base - 5; p <= base+1; p++ {
			if p < 0 {
				continue
			}
			v := strings.Repeat("a", p) + ch + strings.Repeat("b", 9) + ch
			vs = append(vs, v)
			o, _ := safeEscape(e.fn, v)
			want.WriteString(o + "\n")
		}
		src := "{% for v in vs %}{{ v|escape('" + e.name + "')|raw }}\n{% endfor %}"
		if c.N[3] == 1 && e.name == "html" {
			src = "{% for v in vs %}{{ v }}\n{% endfor %}" // auto-escaping of an inline (html) template
		}
		out, err, pan := tryExec(twig.New(nil), src, map[string]stick.Value{"vs": vs})
		if err != nil || pan != "" {
			return core.Violation("panic", fmt.Sprintf("%q over values of about %d bytes: %v %s", src, base, err, pan))
		}
		if out != want.String() {
			gl, wl := strings.Split(out, "\n"), strings.Split(want.String(), "\n")
			for i := range wl {
				if i >= len(gl) || gl[i] != wl[i] {
					g := ""
					if i < len(gl) {
						g = gl[i]
					}
					return core.Violation("filter-differs", fmt.Sprintf("escape('%s') of %d x 'a' + %q + ...: the filter gives ...%q, the escaper ...%q", e.name, base-5+i, ch, tail(g, 60), tail(wl[i], 60)))
				}
			}
		}
		return core.Okay(true, "ok")
	case "filtertag":
		// the escape filter written as a filter section: the section's text (literal text, raw prints, prints in a
		// .txt template) comes out html-escaped, alone and in front of / behind other filters
		v := c13Boundary[c.N[0]] + "<b a='1'>&\"" + c13Boundary[c.N[0]]
		body := []string{"LIT", "{{ v|raw }}", "x{{ v|raw }}y" + "LIT"}[c.N[1]]
		body = strings.ReplaceAll(body, "LIT", "<i>&'lit'</i>")
		name := []string{"t.html", "t.txt", "t"}[c.N[2]]
		chain := []string{"escape", "escape|trim", "trim|escape", "upper|escape"}[c.N[3]]
		env := twig.New(&stick.MemoryLoader{Templates: map[string]string{name: "[{% filter " + chain + " %}" + body + "{% endfilter %}]"}})
		out, err, pan := tryExec(env, name, map[string]stick.Value{"v": v})
		if pan != "" || err != nil {
			return core.Violation("panic", fmt.Sprintf("{%% filter %s %%} in %s: %v %s", chain, name, err, pan))
		}
		mid := strings.TrimSuffix(strings.TrimPrefix(out, "["), "]")
		if msg := htmlAlphabet(mid); msg != "" && name != "t.txt" {
			return core.Violation("alphabet", fmt.Sprintf("{%% filter %s %%}%s{%% endfilter %%} in %s with v = %q renders %q: %s", chain, body, name, v, out, msg))
		}
		if name == "t.txt" && c.N[3] == 0 && c.N[1] == 0 {
			// (what 'escape' means in a .txt template is not pinned here; the literal case in html is)
			return core.Okay(true, "txt")
		}
		return core.Okay(true, "ok")
	case "unknownstrategy":
		// a strategy name that has no escaper falls back to html - the first time and every later time, in one
		// execution and in the next on the same environment; a value already safe for html is left alone every time.
		// Another environment configured with a pass-through escape filter does not change any of it.
		strat := []string{"xml", "svg", "nosuch", "htm", "HTML", ""}[c.N[0]]
		env := twig.New(&stick.MemoryLoader{Templates: map[string]string{
			"t.html":                "{{ v|escape('" + strat + "')|raw }}|{{ v|escape('" + strat + "')|raw }}|{{ s|escape('" + strat + "')|raw }}|{{ s|escape('" + strat + "')|raw }}|{{ v|escape('" + strat + "')|raw }}",
			"feed." + c13Ext(strat): "{{ v }}|{{ s|escape }}|{{ s }}|{{ v|escape }}|{{ v }}",
		}})
		if c.N[1] == 1 {
			mail := twig.New(nil)
			mail.Filters["escape"] = func(ctx stick.Context, v stick.Value, args ...stick.Value) stick.Value { return v }
		}
		v, safe := "<a href='x'>T&J</a>", "T &amp; J"
		ctx := map[string]stick.Value{"v": v, "s": stick.NewSafeValue(safe, "html")}
		hv := escape.HTML(v)
		wants := map[string]string{"t.html": hv + "|" + hv + "|" + safe + "|" + safe + "|" + hv, "feed." + c13Ext(strat): hv + "|" + safe + "|" + safe + "|" + hv + "|" + hv}
		for round := 1; round <= 3; round++ {
			for name, want := range wants {
				out, err, pan := tryExec(env, name, ctx)
				if pan != "" || err != nil {
					return core.Violation("panic", fmt.Sprintf("%s with the strategy %q, execution %d: %v %s", name, strat, round, err, pan))
				}
				if out != want {
					return core.Violation("filter-differs", fmt.Sprintf("%s (strategy / extension %q, no escaper of its own: html), execution %d on one environment, renders %q, want %q", name, strat, round, out, want))
				}
			}
		}
		return core.Okay(true, "ok")
	case "twigfilter":
		// the escape filter of a twig environment, on ONE environment, for values and strategy names chosen so that the
		// concatenation "strategy + value" is ambiguous (html + "_attr..." / html_attr + "..."), in both orders, and
		// after thousands of other values: each result is the escaper's own
		env := twig.New(nil)
		esc := func(strat, v string) (string, string) {
			out, err, pan := tryExec(env, "{{ v|escape('"+strat+"')|raw }}", map[string]stick.Value{"v": v})
			if err != nil {
				return "", "error: " + err.Error()
			}
			return out, pan
		}
		x := c13Boundary[c.N[0]] + " onmouseover=alert(1) <b>"
		pairs := [][2]string{{"html", "_attr" + x}, {"html_attr", x}, {"html", x}, {"html_attr", "_attr" + x}, {"js", "s" + x}, {"css", x}, {"url", x}}
		order := pairs
		if c.N[1] == 1 {
			order = [][2]string{pairs[1], pairs[0], pairs[3], pairs[2], pairs[6], pairs[5], pairs[4]}
		}
		check := func(when string) *core.Result {
			for _, p := range order {
				var want string
				for _, e := range escapers {
					if e.name == p[0] {
						want, _ = safeEscape(e.fn, p[1])
					}
				}
				got, bad := esc(p[0], p[1])
				if bad != "" {
					v := core.Violation("panic", fmt.Sprintf("escape('%s') of %q: %s", p[0], p[1], bad))
					return &v
				}
				if got != want {
					v := core.Violation("filter-differs", fmt.Sprintf("%s: {{ v|escape('%s') }} with v = %q renders %q, the escaper gives %q", when, p[0], p[1], got, want))
					return &v
				}
			}
			return nil
		}
		if v := check("on a fresh environment"); v != nil {
			return *v
		}
		if c.N[1] == 2 {
			for i := 0; i < 5000; i++ {
				esc([]string{"html", "js", "html_attr"}[i%3], "v"+itoa(i))
			}
			if v := check("after 5000 other values"); v != nil {
				return *v
			}
		}
		return core.Okay(true, "ok")
	case "seq":
		s := strings.Join(c.Args, "")
		for _, e := range escapers {
			class, out := c13CheckOne(e, s, true)
			if class != "" {
				r := core.Violation(class, out)
				if i := strings.Index(class, "/"); i > 0 {
					r.Why, r.Sig = class[:i], class[i+1:]
				}
				return r
			}
			// per-character substitution: escape(xyz) == escape(x)+escape(y)+escape(z)
			parts := ""
			for _, a := range c.Args {
				o, _ := safeEscape(e.fn, a)
				parts += o
			}
			if parts != out {
				return core.Violation("not-per-character", fmt.Sprintf("%s(%q) = %q but the concatenation of the parts' escapes is %q", e.name, s, out, parts))
			}
			sb.WriteString(out)
		}
		return core.Okay(true, sb.String())
	}
	return core.Skipped("unknown-family")
}

func init() {
	core.Register(&core.Check{
		ID:       "C13",
		Category: "exploration",
		Rule: "all five escapers on every Unicode scalar value as a one-character string (complete: 1 112 064), every invalid byte / truncated sequence (alphabet only), every boundary character at every offset of a 280-character string (3 fillers) and in runs of up to 300, " +
			"every pair over a 43-character boundary alphabet and every triple over a 10-character sub-alphabet (thorough: all boundary triples, 4- and 5-tuples), and every escaper applied to every escaper's own output vocabulary (entities, \\u / \\X / %XX sequences) alone and embedded in text; " +
			"oracles: output alphabet of the context, decode(escape(s)) == s with a decoder of the target context written from its specification, and escape(xy) == escape(x)+escape(y); " +
			"every case is distinct and non-trivial (each exercises all five escapers)",
		Assumptions: []string{
			"decoders: Go html.UnescapeString (HTML5 references), ECMAScript string-literal escapes over UTF-16 code units, CSS Syntax Level 3 escape consumption, net/url percent decoding",
			"html_attr is compared modulo Unicode control characters (C0 and C1), which it replaces or which HTML remaps",
			"losslessness and inertness of longer strings follow from the per-character-substitution check on the enumerated tuples, not from enumeration",
		},
		Levels:  c13Levels,
		Run:     c13Run,
		NoDedup: true,
		Budget:  budget(3*time.Minute, 15*time.Minute),
	})
}
