package checks

import (
	"fmt"
	"reflect"
	"regexp"
	"strconv"
	"strings"
	"time"

	"github.com/tyler-sommer/stick"
	"github.com/tyler-sommer/stick/parse"
	"github.com/tyler-sommer/stick/twig"

	"verif/core"
)

// C20 — syntax errors are detected, and all reported positions are exact.
// Positions are checked against an independent tokeniser of the same source (spell.go):
// 1-based line counting every preceding newline, 0-based byte column.

func lineCol(src string, off int) (int, int) {
	line, col := 1, 0
	for i := 0; i < off && i < len(src); i++ {
		if src[i] == '\n' {
			line++
			col = 0
		} else {
			col++
		}
	}
	return line, col
}

func offsetOf(src string, line, col int) int {
	l, off := 1, 0
	for off < len(src) && l < line {
		if src[off] == '\n' {
			l++
		}
		off++
	}
	if l != line || col < 0 {
		return -1
	}
	// the column lies within that line (or just behind its last byte): a wrong line with a column that happens to
	// flatten to the right byte is still a wrong position
	if eol := strings.IndexByte(src[off:], '\n'); eol >= 0 && col > eol {
		return -1
	}
	if off+col > len(src) {
		return -1
	}
	return off + col
}

var posRe = regexp.MustCompile(`on line (\d+), column (\d+)`)

// errPos extracts the position an error reports: exported Line/Offset fields, else the message text.
func errPos(err error) (line, col int, ok bool) {
	v := reflect.ValueOf(err)
	for v.Kind() == reflect.Ptr || v.Kind() == reflect.Interface {
		if v.IsNil() {
			break
		}
		v = v.Elem()
	}
	if v.Kind() == reflect.Struct {
		l, o := v.FieldByName("Line"), v.FieldByName("Offset")
		if l.IsValid() && o.IsValid() && l.Kind() == reflect.Int && o.Kind() == reflect.Int {
			return int(l.Int()), int(o.Int()), true
		}
	}
	if m := posRe.FindStringSubmatch(err.Error()); m != nil {
		a, _ := strconv.Atoi(m[1])
		b, _ := strconv.Atoi(m[2])
		return a, b, true
	}
	return 0, 0, false
}

// ---- (a) node positions ----

type c20Expect struct {
	texts   map[int]string // offset -> text run
	prints  map[int]bool   // offsets of "{{"
	tags    map[int]string // offset of tag name -> name
	words   map[int]string // offset -> word token inside delimiters
	quotes  map[int]bool   // offsets of opening quotes
	strs    map[int]string // offset of string content -> content
	verbTag map[int]bool
}

func c20Expectations(src string) c20Expect {
	e := c20Expect{map[int]string{}, map[int]bool{}, map[int]string{}, map[int]string{}, map[int]bool{}, map[int]string{}, map[int]bool{}}
	toks := stokens(src)
	inVerb := false
	for i, t := range toks {
		switch t.kind {
		case kText:
			if !inVerb {
				e.texts[t.off] = t.text
			}
		case kOpen:
			if t.in == "{{" && !inVerb {
				e.prints[t.off] = true
			}
			if t.in == "{%" {
				j := i + 1
				for j < len(toks) && toks[j].kind == kWS {
					j++
				}
				if j < len(toks) && toks[j].kind == kWord {
					if toks[j].text == "endverbatim" {
						inVerb = false
					}
					if !inVerb {
						e.tags[toks[j].off] = toks[j].text
					}
					if toks[j].text == "verbatim" {
						inVerb = true
						e.verbTag[toks[j].off] = true
					}
				}
			}
		case kWord:
			if !inVerb {
				e.words[t.off] = t.text
			}
		case kQOpen:
			e.quotes[t.off] = true
		case kStr:
			e.strs[t.off] = t.text
			// words inside interpolations #{ ... }
			for p := 0; p < len(t.text); p++ {
				if !strings.HasPrefix(t.text[p:], "#{") {
					continue
				}
				end := strings.IndexByte(t.text[p:], '}')
				if end < 0 {
					end = len(t.text) - p
				}
				for q := p + 2; q < p+end; {
					if isWordByte(t.text[q]) {
						r := q
						for r < p+end && isWordByte(t.text[r]) {
							r++
						}
						e.words[t.off+q] = t.text[q:r]
						q = r
					} else {
						q++
					}
				}
				p += end
			}
		}
	}
	return e
}

// c20Synth: the tree went through an environment's node visitors; the arguments of escape filters may have been
// inserted by the auto-escaper (they stand for nothing in the source) and are not checked.
var c20Synth bool

func c20CheckNodes(src string, root parse.Node) string {
	e := c20Expectations(src)
	seenPrint, seenTag := map[int]bool{}, map[int]bool{}
	anchorQuote, anchorContent := 0, 0 // string literals anchored at their opening quote / at their first content byte
	var walk func(n parse.Node) string
	at := func(n parse.Node) (int, string) {
		p := n.Start()
		off := offsetOf(src, p.Line, p.Offset)
		return off, fmt.Sprintf("%d:%d", p.Line, p.Offset)
	}
	tag := func(n parse.Node, names ...string) string {
		off, ps := at(n)
		got, ok := e.tags[off]
		if !ok {
			l, c := 0, 0
			for o, nm := range e.tags {
				for _, w := range names {
					if nm == w && !seenTag[o] {
						l, c = lineCol(src, o)
					}
				}
			}
			return fmt.Sprintf("%T reports %s, which is not the position of a tag name (a %q tag name is at %d:%d)", n, ps, names[0], l, c)
		}
		for _, w := range names {
			if got == w {
				if seenTag[off] {
					return fmt.Sprintf("two nodes report the tag position %s", ps)
				}
				seenTag[off] = true
				return ""
			}
		}
		return fmt.Sprintf("%T reports %s, where the tag name is %q", n, ps, got)
	}
	word := func(n parse.Node, text string) string {
		off, ps := at(n)
		if w, ok := e.words[off]; !ok || w != text {
			return fmt.Sprintf("%T(%s) reports %s, where the source has %q", n, text, ps, snippet(src, off))
		}
		return ""
	}
	walk = func(n parse.Node) string {
		if n == nil || (reflect.ValueOf(n).Kind() == reflect.Ptr && reflect.ValueOf(n).IsNil()) {
			return ""
		}
		msg := ""
		switch x := n.(type) {
		case *parse.CommentNode:
			return ""
		case *parse.TextNode:
			off, ps := at(x)
			if e.verbTag[off] {
				break
			}
			if t, ok := e.texts[off]; !ok || t != x.Data {
				msg = fmt.Sprintf("TextNode(%q) reports %s, where the source has %q", x.Data, ps, snippet(src, off))
			}
		case *parse.PrintNode:
			off, ps := at(x)
			if !e.prints[off] {
				msg = fmt.Sprintf("PrintNode reports %s, which is not the position of an opening '{{' (source there: %q)", ps, snippet(src, off))
			} else if seenPrint[off] {
				msg = "two PrintNodes report " + ps
			}
			seenPrint[off] = true
		case *parse.IfNode:
			msg = tag(x, "if", "elseif", "for") // the inline-if of a for tag has no tag of its own
			if msg != "" {
				// inline "if" of a for loop: anchored at the for tag's close; not claimed
				if _, ok := e.tags[offsetOfNode(src, x)]; !ok {
					msg = ""
				}
			}
		case *parse.ForNode:
			msg = tag(x, "for")
		case *parse.BlockNode:
			msg = tag(x, "block")
		case *parse.ExtendsNode:
			msg = tag(x, "extends")
		case *parse.EmbedNode:
			msg = tag(x, "embed")
		case *parse.IncludeNode:
			msg = tag(x, "include")
		case *parse.UseNode:
			msg = tag(x, "use")
		case *parse.SetNode:
			msg = tag(x, "set")
		case *parse.DoNode:
			msg = tag(x, "do")
		case *parse.FilterNode:
			msg = tag(x, "filter")
		case *parse.MacroNode:
			msg = tag(x, "macro")
		case *parse.ImportNode:
			msg = tag(x, "import")
		case *parse.FromNode:
			msg = tag(x, "from")
		case *parse.NameExpr:
			msg = word(x, x.Name)
		case *parse.NumberExpr:
			msg = word(x, x.Value)
		case *parse.BoolExpr, *parse.NullExpr:
			off, ps := at(x)
			w := strings.ToLower(e.words[off])
			if w != "true" && w != "false" && w != "null" && w != "none" {
				msg = fmt.Sprintf("%T reports %s, where the source has %q", x, ps, snippet(src, off))
			}
		case *parse.StringExpr:
			off, ps := at(x)
			ok := false
			if w, isWord := e.words[off]; isWord && w == x.Text {
				ok = true // attribute name written as a bare word (h.k)
			}
			if e.quotes[off] && strings.HasPrefix(src[off+1:], x.Text) {
				ok = true
				anchorQuote++
			} else if off >= 1 && e.quotes[off-1] {
				anchorContent++
			}
			if off >= 0 && off <= len(src) && strings.HasPrefix(src[off:], x.Text) {
				// first content byte: must lie inside a string literal
				for so, sc := range e.strs {
					if off >= so && off <= so+len(sc) {
						ok = true
					}
				}
			}
			if !ok {
				msg = fmt.Sprintf("StringExpr(%q) reports %s, where the source has %q", x.Text, ps, snippet(src, off))
			}
		case *parse.FilterExpr:
			// anchor not pinned by the statement
			if c20Synth && x.Name == "escape" && len(x.Args) > 0 {
				return walk(x.Args[0])
			}
		case *parse.TestExpr:
			// anchor not pinned by the statement
		case *parse.FuncExpr:
			msg = word(x, x.Name)
		}
		if msg != "" {
			return msg
		}
		for _, c := range n.All() {
			if m := walk(c); m != "" {
				return m
			}
		}
		return ""
	}
	if msg := walk(root); msg != "" {
		return msg
	}
	if anchorQuote > 0 && anchorContent > 0 {
		return fmt.Sprintf("%d string literal(s) report the position of their opening quote and %d that of the first byte after it: one tree, two anchors", anchorQuote, anchorContent)
	}
	return ""
}

func offsetOfNode(src string, n parse.Node) int {
	p := n.Start()
	return offsetOf(src, p.Line, p.Offset)
}

func snippet(src string, off int) string {
	if off < 0 || off > len(src) {
		return "<outside the source>"
	}
	end := off + 12
	if end > len(src) {
		end = len(src)
	}
	return src[off:end]
}

var c20Prefixes = []string{"", "l1\nl2\n", "{# c1\nc2 #}\n", "{{ \"s1\ns2\" }}", "{{ \"s1\n#{a}\ns2\" }}\n", "é\n\n", "{% set q = 'x\ny' %}\n",
	// multi-byte characters after the last newline of a multi-line token, the construct under test on the same line
	"l1\n» é ", "{# c1\n€ #}", "{{ \"s1\né€\" }}", "{% set q = 'x\n»' %}",
	// a byte order mark and other unusual bytes at the very start of the source
	"\ufeff", "\ufeff\n", "\x00\xff ",
	// line breaks between the tokens of an interpolated expression
	// blank lines and indentation at the very start (an inline template is its own name: nothing of it may be cut off)
	"\n\n  ", " \t", "\r\n\r\n",
	"{{ \"s1#{ a\n }s2\" }}", "{{ \"#{ f(1,\n 2) }\" }}\n", "{% set q = \"x#{ a |\n up }»\" %}é ", "{{ \"#{\n[1,\n2]|join\n}\n#{ a\n~\na }\" }}"}

func c20NewlineSites(toks []stok) []site {
	var res []site
	for _, s := range spellSites(toks, true) {
		if s.kind == 0 || s.kind == 1 {
			res = append(res, site{s.kind, s.i, []string{"\n", "\n\n ", "\r\n"}})
		}
	}
	return res
}

func c20Items() []c14Item {
	var items []c14Item
	for _, it := range c14Items() {
		// forms outside the library's language are tokenised differently by it; positions are claimed for
		// what parses
		if !strings.HasPrefix(it.name, "twig:") {
			items = append(items, it)
		}
	}
	items = append(items,
		c14Item{"multiline", "line1\n{% if a %}\n  x {{ a }}\n{% else %}\n  {{ b }}\n{% endif %}\nlast {{ c }}"},
		c14Item{"embedblocks", "{% embed 'base' %}\n{% block b %}e{{ a }}{% endblock %}\n{% endembed %}"},
		c14Item{"commentlines", "a{# one\ntwo\nthree #}b{{ a }}\n{# x #}{{ b }}"},
	)
	return items
}

// ---- (b)(d) truncation ----

// c20Inside reports whether the (truncated) source ends inside a delimiter pair or an open block.
func c20Inside(src string) bool {
	toks := stokens(src)
	depth := 0
	inVerbatim := false
	in := ""
	for i, t := range toks {
		in = t.in
		if t.kind == kClose {
			in = ""
		}
		if t.kind == kOpen && t.in == "{%" {
			j := i + 1
			for j < len(toks) && toks[j].kind == kWS {
				j++
			}
			if j >= len(toks) || toks[j].kind != kWord {
				continue
			}
			name := toks[j].text
			closed, hasEq := false, false
			for k := j + 1; k < len(toks); k++ {
				if toks[k].kind == kClose {
					closed = true
					break
				}
				if toks[k].kind == kPunct && toks[k].text == "=" {
					hasEq = true
				}
			}
			if !closed {
				continue
			}
			if inVerbatim { // a verbatim body is text: only the end tag counts
				if name == "endverbatim" {
					inVerbatim = false
					depth--
				}
				continue
			}
			if name == "verbatim" {
				inVerbatim = true
			}
			switch name {
			case "if", "for", "block", "filter", "macro", "embed", "verbatim":
				depth++
			case "set":
				if !hasEq {
					depth++
				}
			default:
				if strings.HasPrefix(name, "end") {
					depth--
				}
			}
		}
	}
	if len(toks) > 0 && !inVerbatim {
		last := toks[len(toks)-1]
		if last.kind != kClose && last.in != "" {
			return true
		}
	}
	_ = in
	return depth > 0
}

func c20TokenStarts(src string) map[int]bool {
	m := map[int]bool{len(src): true}
	for _, t := range stokens(src) {
		m[t.off] = true
	}
	return m
}

// ---- run ----

func c20Run(c core.Case) core.Result {
	switch c.Fam {
	case "pos":
		items := c20Items()
		it := items[c.N[0]]
		prefix := c20Prefixes[c.N[1]]
		toks := stokens(it.src)
		sites := c20NewlineSites(toks)
		var devs [][2]int
		for k := 2; k+1 < len(c.N); k += 2 {
			devs = append(devs, [2]int{c.N[k], c.N[k+1]})
		}
		src := prefix + applySpelling(toks, sites, devs)
		tree, err, pan := tryParse(src)
		if pan != "" {
			return core.Violation("panic", "parsing "+q(src)+" panicked: "+pan)
		}
		if err != nil {
			// layout sensitivity is C14's business; here only positions of parsed trees are claimed
			return core.Skipped("does-not-parse")
		}
		if msg := c20CheckNodes(src, tree.Root()); msg != "" {
			return core.Violation("node-position", fmt.Sprintf("in %q: %s", src, msg))
		}
		// the same source parsed through environments (Env.Parse runs the registered node visitors over the tree - the
		// Twig environment's auto-escaping wraps every print): the positions are still the source's
		for ei, env := range []*stick.Env{stick.New(&stick.MemoryLoader{Templates: map[string]string{"t.html": src}}), twig.New(&stick.MemoryLoader{Templates: map[string]string{"t.html": src}}), stick.New(nil), twig.New(nil)} {
			ename := "t.html"
			if ei >= 2 {
				ename = src // the default StringLoader: the source is the name
			}
			etree, eerr, epan := tryEnvParse(env, ename)
			if epan != "" {
				return core.Violation("panic", fmt.Sprintf("Env.Parse of %q (environment %d) panicked: %s", src, ei, epan))
			}
			if eerr != nil {
				return core.Violation("node-position", fmt.Sprintf("%q parses with parse.Parse but not through Env.Parse (environment %d): %v", src, ei, eerr))
			}
			c20Synth = true
			msg := c20CheckNodes(src, etree.Root())
			c20Synth = false
			if msg != "" {
				return core.Violation("node-position", fmt.Sprintf("in %q parsed through Env.Parse of %s environment: %s", src, []string{"a core", "a Twig", "a core (inline template)", "a Twig (inline template)"}[ei], msg))
			}
		}
		return core.Okay(strings.Contains(src, "\n"), "ok")
	case "trunc":
		src := c.Src
		_, err, pan := tryParse(src)
		if pan != "" {
			return core.Violation("panic", "parsing "+q(src)+" panicked: "+pan)
		}
		if err == nil {
			return core.Violation("truncation-accepted", fmt.Sprintf("%q is cut off inside a delimiter pair or an open block but parses without error", src))
		}
		if line, col, ok := errPos(err); ok {
			off := offsetOf(src, line, col)
			if (off < 0 || !c20TokenStarts(src)[off]) && !strings.Contains(src, "#{") {
				return core.Violation("error-position", fmt.Sprintf("%q: error %q reports %d:%d, which is not the start of a token nor the end of input", src, err, line, col))
			}
		}
		return core.Okay(true, "err")
	case "inject":
		// N = [offset where the fragment starts, offset of the offending token]; Src = mutated source
		src := c.Src
		_, err, pan := tryParse(src)
		if pan != "" {
			return core.Violation("panic", "parsing "+q(src)+" panicked: "+pan)
		}
		if err == nil {
			return core.Violation("syntax-error-accepted", fmt.Sprintf("%q (%s injected at offset %d) parses without error", src, c.Args[0], c.N[0]))
		}
		line, col, ok := errPos(err)
		wl, wc := lineCol(src, c.N[1])
		if !ok {
			return core.Violation("error-without-position", fmt.Sprintf("%q: error %q carries no position (the offending token is at %d:%d)", src, err, wl, wc))
		}
		if line != wl || col != wc {
			return core.Violation("error-position", fmt.Sprintf("%q: error %q reports %d:%d but the offending token %q is at %d:%d", src, err, line, col, c.Args[1], wl, wc))
		}
		return core.Okay(true, "err")
	case "padded":
		// after n simple prints (three token alignments, optionally on several lines): an unknown tag is reported at its
		// name, a nested valid construct parses and its nodes report their true positions
		n, lead, nl, what := c.N[0], []string{"", "x", "{{ a }}"}[c.N[1]], c.N[2] == 1, c.N[3]
		unit := "{{a}}"
		if nl {
			unit = "{{a}}\n"
		}
		pad := lead + strings.Repeat(unit, n)
		if what == 0 {
			src := pad + "{% if a %}{% bogus %}{% endif %}"
			off := len(pad) + len("{% if a %}{% ")
			_, err, pan := tryParse(src)
			if pan != "" {
				return core.Violation("panic", fmt.Sprintf("parsing %d prints + an unknown tag panicked: %s", n, pan))
			}
			if err == nil {
				return core.Violation("syntax-error-accepted", fmt.Sprintf("%q + {{a}} x %d + an unknown tag inside an if parses without error", lead, n))
			}
			wl, wc := lineCol(src, off)
			line, col, ok := errPos(err)
			if !ok || line != wl || col != wc {
				return core.Violation("error-position", fmt.Sprintf("%q + %q x %d + \"{%% if a %%}{%% bogus %%}{%% endif %%}\": error %q, but the unknown tag's name is at %d:%d", lead, unit, n, err, wl, wc))
			}
			return core.Okay(true, "err")
		}
		src := pad + "{% for v in a %}{% if v %}{{ v }}{% else %}t{% endif %}{% endfor %}{{ b }}"
		tree, err, pan := tryParse(src)
		if pan != "" || err != nil {
			return core.Violation("valid-rejected", fmt.Sprintf("%q + %q x %d + a for / if / else construct does not parse: %v %s", lead, unit, n, err, pan))
		}
		if msg := c20CheckNodes(src, tree.Root()); msg != "" {
			return core.Violation("node-position", fmt.Sprintf("after %q + %q x %d: %s", lead, unit, n, msg))
		}
		return core.Okay(true, "ok")
	case "name":
		// Src = broken template, Args = [name, via]
		name, via := c.Args[0], c.Args[1]
		tpls := map[string]string{name: c.Src}
		entry := name
		switch via {
		case "include":
			tpls["wrapper"] = "w{% include '" + name + "' %}"
			entry = "wrapper"
		case "extends":
			tpls["wrapper"] = "{% extends '" + name + "' %}{% block b %}{% endblock %}"
			entry = "wrapper"
		case "import":
			tpls["wrapper"] = "{% import '" + name + "' as mm %}x"
			entry = "wrapper"
		case "embed":
			tpls["wrapper"] = "{% embed '" + name + "' %}{% endembed %}"
			entry = "wrapper"
		case "use":
			tpls["wrapper"] = "{% extends 'okbase' %}{% use '" + name + "' %}"
			tpls["okbase"] = "{% block b %}{% endblock %}"
			entry = "wrapper"
		}
		env := stick.New(&stick.MemoryLoader{Templates: tpls})
		var err error
		var pan string
		if len(c.N) > 0 && c.N[0] == 1 {
			// history: another template with the same (broken) contents has been loaded on this environment before
			tpls["first-"+name] = c.Src
			tpls["twin.twig"] = c.Src
			tryEnvParse(env, "twin.twig")
			tryExec(env, "first-"+name, nil)
		}
		if via == "parse" {
			_, err, pan = tryEnvParse(env, entry)
		} else {
			_, err, pan = tryExec(env, entry, nil)
		}
		if pan != "" {
			return core.Violation("panic", "panicked: "+pan)
		}
		if err == nil {
			return core.Violation("syntax-error-accepted", fmt.Sprintf("template %q = %q loaded via %s: no error", name, c.Src, via))
		}
		ok := false
		if n, has := err.(interface{ Name() string }); has && n.Name() == name {
			ok = true
		}
		msg := err.Error()
		inMsg := strings.HasSuffix(msg, " "+name) || strings.Contains(msg, "\""+name+"\"") || strings.Contains(msg, "'"+name+"'") || strings.Contains(msg, " "+name+":")
		if inMsg {
			ok = true
		}
		// a message that says "... in <something>" must say the name as it is (a name is not a format string)
		if i := strings.LastIndex(msg, " in "); ok && !inMsg && i >= 0 {
			return core.Violation("template-not-identified", fmt.Sprintf("template %q = %q loaded via %s fails with %q: the message names %q, not the template", name, c.Src, via, msg, msg[i+4:]))
		}
		if !ok {
			return core.Violation("template-not-identified", fmt.Sprintf("template %q = %q loaded via %s fails with %q, which does not identify the template (Name() / message)", name, c.Src, via, msg))
		}
		return core.Okay(true, "named")
	}
	return core.Skipped("unknown-family")
}

func c20Levels(tier string) []core.Level {
	maxDev := 1
	if thorough(tier) {
		maxDev = 2
	}
	items := c20Items()
	lv := []core.Level{
		{Name: fmt.Sprintf("node positions: corpus x 21 prefixes x every newline placement with <= %d deviation(s)", maxDev), Gen: func(emit func(core.Case)) {
			for ii, it := range items {
				sites := c20NewlineSites(stokens(it.src))
				for pi := range c20Prefixes {
					emit(core.Case{Fam: "pos", N: []int{ii, pi}})
					var rec func(start int, cur []int, left int)
					rec = func(start int, cur []int, left int) {
						if len(cur) > 0 {
							emit(core.Case{Fam: "pos", N: append([]int{ii, pi}, cur...)})
						}
						if left == 0 {
							return
						}
						for s := start; s < len(sites); s++ {
							for a := range sites[s].alts {
								rec(s+1, append(append([]int{}, cur...), s, a), left-1)
							}
						}
					}
					rec(0, nil, maxDev)
				}
			}
		}},
		{Name: "every truncation offset that falls inside a delimiter pair or an open block is rejected, at a token position", Gen: func(emit func(core.Case)) {
			for _, it := range items {
				for _, pre := range []string{"", "l1\nl2\n"} {
					src := pre + it.src
					for i := len(pre); i < len(src); i++ {
						if c20Inside(src[:i]) {
							emit(core.Case{Fam: "trunc", Src: src[:i]})
						}
					}
				}
			}
		}},
		{Name: "one injected syntax error (unknown tag, illegal character x20 (7 of them outside ASCII, 6 that Unicode calls white space), surplus literal x2) at every token boundary: rejected and located at that token", Gen: func(emit func(core.Case)) {
			for _, it := range items {
				for _, pre := range []string{"", "t1\nt2 {{ a }}\n"} {
					src := pre + it.src
					toks := stokens(src)
					inVerb := false
					// tokens of an endverbatim tag: the tag is recognised lexically as a whole, junk inside it
					// legitimately turns it into verbatim text (the section is then unclosed)
					endTag := map[int]bool{}
					for i, t := range toks {
						if t.kind == kOpen && t.in == "{%" {
							j := i + 1
							for j < len(toks) && toks[j].kind == kWS {
								j++
							}
							if j < len(toks) && toks[j].text == "endverbatim" {
								for k := i; k < len(toks) && (k == i || toks[k-1].kind != kClose); k++ {
									endTag[k] = true
								}
							}
						}
					}
					for i, t := range toks {
						if t.off < len(pre) || (endTag[i] && t.kind != kOpen) {
							continue
						}
						if t.kind == kWord && t.in == "{%" && (t.text == "verbatim" || t.text == "endverbatim") {
							inVerb = t.text == "verbatim"
						}
						if inVerb && !(t.kind == kWord && t.text == "verbatim") {
							continue
						}
						ins := func(frag string, tokOff int, what string) {
							emit(core.Case{Fam: "inject", Src: src[:t.off] + frag + src[t.off:], Args: []string{what, strings.TrimSpace(frag)}, N: []int{t.off, t.off + tokOff}})
						}
						if t.in == "" || t.kind == kOpen {
							ins("{% bogus %}", 3, "unknown tag")
							continue
						}
						if t.in == "{#" || t.kind == kStr || t.kind == kQClose || t.kind == kWS || t.kind == kIOpen {
							continue
						}
						if t.kind == kWord {
							// the second word of "not in", "is not", "starts with", "ends with": junk in front of it makes the
							// first word an error of its own, which is rightly reported first
							p := i - 1
							for p >= 0 && toks[p].kind == kWS {
								p--
							}
							if p >= 0 && toks[p].kind == kWord && ((t.text == "in" && toks[p].text == "not") || (t.text == "not" && toks[p].text == "is") || (t.text == "with" && (toks[p].text == "starts" || toks[p].text == "ends"))) {
								continue
							}
						}
						_ = i
						for _, ch := range []string{"$", "@", ";", "\\", "!", "^", "&", "\u00e9", "\u4e2d", "\u00a3", "\u00ea", "\u00b5", "\u201c", "\U0001F600",
							// characters Unicode calls white space that are not among the four blanks of the language: illegal like any other,
							// also directly after a blank
							"\f", "\v", "\u0085", "\u00a0", "\u2028", "\u3000"} {
							ins(" "+ch+" ", 1, "illegal character")
						}
						if t.kind == kClose {
							ins(" 99 ", 1, "surplus literal")
							ins(" 'zz' ", 1, "surplus literal")
						}
					}
				}
			}
		}},
		{Name: "size: an unknown tag inside an if, and a for / if / else construct, after n = 0..1500 simple prints (three token alignments, on one line and one per line)", Gen: func(emit func(core.Case)) {
			top := 1500
			if thorough(tier) {
				top = 6000
			}
			for what := 0; what < 2; what++ {
				for lead := 0; lead < 3; lead++ {
					for nl := 0; nl < 2; nl++ {
						for n := 0; n <= top; n++ {
							if (what == 1 || nl == 1) && n%7 != 0 && n < 600 {
								continue
							}
							emit(core.Case{Fam: "padded", N: []int{n, lead, nl, what}})
						}
					}
				}
			}
		}},
		{Name: "errors raised while loading a named template identify it (also when templates of other names with the same broken contents were loaded on the environment before): 7 broken templates (one per kind of parse error, incl. a second extends tag) x 20 names (incl. '%' sequences, spaces, non-ASCII, ' in ', names of 53..260 bytes, names that share a long prefix, a line break, blanks or line breaks at either end) x {direct, parse, include, extends, import, embed, use}", Gen: func(emit func(core.Case)) {
			broken := []string{"x{% if %}", "{{ a", "{% bogus %}", "{{ a $ }}", "t{% for i in x %}", "{% include %}", "{% extends 'p' %}\n{% extends 'q' %}"}
			for _, b := range broken {
				for _, name := range []string{"a", "a.html.twig", "dir/b.twig", "my tpl.twig", "100%.twig", "a%20b.twig", "%s", "report_%d.twig", "{0}.twig", "a\\b.twig", "ü€.twig", "a:b", "x in y.twig",
					// long names (any length is a name), names that agree in their first 40 / 100 bytes, a name with a line break
					"templates/admin/users/partials/address_form.html.twig", "templates/admin/users/partials/address_list.html.twig", strings.Repeat("d/", 60) + "x.twig", strings.Repeat("n", 255) + ".twig",
					strings.Repeat("long-", 40) + "a", strings.Repeat("long-", 40) + "b", "first line\nsecond line.twig",
					// names with blanks or line breaks at either end are names like any other
					"bad.twig\n", "\tdir/bad.twig ", " lead", "trail ", "\n"} {
					for _, via := range []string{"direct", "parse", "include", "extends", "import", "embed", "use"} {
						emit(core.Case{Fam: "name", Src: b, Args: []string{name, via}})
						emit(core.Case{Fam: "name", Src: b, Args: []string{name, via}, N: []int{1}})
					}
				}
			}
		}},
	}
	return lv
}

func init() {
	core.Register(&core.Check{
		ID:       "C20",
		Category: "exploration",
		Rule: "(a) corpus (one template per tag kind / expression form, three hosts, plus multi-line templates) x 18 prefixes (text, comment, string, interpolated string, multi-line tag, multi-byte characters before and after the last newline of a multi-line token, line breaks between the tokens of an interpolated expression) x every placement of a newline at a token boundary inside delimiters (<= 1 deviation, thorough <= 2): every anchored node of the public AST must report the line:column an independent tokeniser computes for its anchor token; " +
			"(b) every truncation offset inside a delimiter pair or open block must be rejected and (d) the reported position must be a token start or end of input; (c) one syntax error of each listed kind injected at every token boundary must be rejected with the error located at the injected token; " +
			"(e) errors from named templates loaded directly / via include, extends, import, embed, use must identify the template. distinct = distinct source; non-trivial = multi-line source or an error case",
		Assumptions: []string{
			"for string literals either the opening quote or the first content byte is accepted as anchor; filter, test, attribute-access, operator and comment nodes have no anchor in the statement and are not checked",
			"the inline 'if' of a for tag has no tag name of its own and is not checked",
		},
		Levels: c20Levels,
		Run:    c20Run,
		Budget: budget(4*time.Minute, 20*time.Minute),
	})
}
