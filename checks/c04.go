package checks

import (
	"fmt"
	"strings"
	"time"

	"github.com/tyler-sommer/stick"
	"github.com/tyler-sommer/stick/parse"
	"github.com/tyler-sommer/stick/twig"

	"verif/core"
)

// C04 — operator precedence and associativity follow the operator table.
// The reference owns its own copy of the documented table (Twig 1.x's, as documented in
// parse/operator.go at the pinned commit) so that a change to the repository's table is
// detected, not followed.

type c04Op struct {
	op    string
	prec  int
	right bool
}

var c04Bin = []c04Op{
	{"+", 30, false}, {"-", 30, false}, {"*", 60, false}, {"/", 60, false}, {"~", 40, false},
	{"==", 20, false}, {"and", 15, false}, {"or", 10, false}, {"**", 200, true},
	{"//", 60, false}, {"%", 60, false}, {"!=", 20, false}, {"<", 20, false}, {"<=", 20, false}, {">", 20, false}, {">=", 20, false},
	{"in", 20, false}, {"not in", 20, false}, {"matches", 20, false}, {"starts with", 20, false}, {"ends with", 20, false}, {"..", 20, false},
	{"b-and", 18, false}, {"b-xor", 17, false}, {"b-or", 16, false},
	{"is", 100, false}, {"is not", 100, false},
}

var c04Unary = map[string]int{"not": 50, "-": 500, "+": 500}

// expression tree of the reference
type c04Node struct {
	kind    string // name, bin, un, test, tern
	op      string
	name    string
	l, r, x *c04Node
	c, t, f *c04Node
}

// token stream of a chain
type c04Tok struct {
	kind string // name, op, unary, test, q, colon
	val  string
}

type c04Parser struct {
	toks []c04Tok
	pos  int
}

func (p *c04Parser) peek() *c04Tok {
	if p.pos < len(p.toks) {
		return &p.toks[p.pos]
	}
	return nil
}

func c04OpInfo(op string) c04Op {
	for _, o := range c04Bin {
		if o.op == op {
			return o
		}
	}
	panic("unknown op " + op)
}

// precedence climbing with the reference table
func (p *c04Parser) expr(min int) *c04Node {
	var left *c04Node
	t := p.peek()
	if t.kind == "unary" {
		p.pos++
		left = &c04Node{kind: "un", op: t.val, x: p.expr(c04Unary[t.val])}
	} else {
		p.pos++
		left = &c04Node{kind: "name", name: t.val}
	}
	for {
		t := p.peek()
		if t == nil || t.kind != "op" {
			return left
		}
		o := c04OpInfo(t.val)
		if o.prec < min {
			return left
		}
		p.pos++
		if o.op == "is" || o.op == "is not" {
			tt := p.peek()
			p.pos++
			left = &c04Node{kind: "test", op: o.op, l: left, name: tt.val}
			continue
		}
		next := o.prec + 1
		if o.right {
			next = o.prec
		}
		right := p.expr(next)
		left = &c04Node{kind: "bin", op: o.op, l: left, r: right}
	}
}

// ternary: loosest, right-nested
func (p *c04Parser) full() *c04Node {
	c := p.expr(0)
	if t := p.peek(); t != nil && t.kind == "q" {
		p.pos++
		tr := p.full()
		p.pos++ // colon
		fl := p.full()
		return &c04Node{kind: "tern", c: c, t: tr, f: fl}
	}
	return c
}

func (n *c04Node) paren() string {
	switch n.kind {
	case "name":
		return n.name
	case "un":
		return "(" + n.op + " " + n.x.paren() + ")"
	case "bin":
		return "(" + n.l.paren() + " " + n.op + " " + n.r.paren() + ")"
	case "test":
		return "(" + n.l.paren() + " " + n.op + " " + n.name + ")"
	case "tern":
		return "(" + n.c.paren() + " ? " + n.t.paren() + " : " + n.f.paren() + ")"
	}
	return "?"
}

func (n *c04Node) shape() string {
	switch n.kind {
	case "name":
		return n.name
	case "un":
		return "U(" + n.op + " " + n.x.shape() + ")"
	case "bin":
		return "B(" + n.l.shape() + " " + n.op + " " + n.r.shape() + ")"
	case "test":
		return "B(" + n.l.shape() + " " + n.op + " T(" + strings.Replace(strings.Replace(n.name, "(", " ", 1), ")", "", 1) + "))"
	case "tern":
		return "Q(" + n.c.shape() + " ? " + n.t.shape() + " : " + n.f.shape() + ")"
	}
	return "?"
}

// astShape prints the public AST with GroupExpr nodes removed.
func astShape(n parse.Node) string {
	switch e := n.(type) {
	case *parse.GroupExpr:
		return astShape(e.X)
	case *parse.NameExpr:
		return e.Name
	case *parse.NumberExpr:
		return e.Value
	case *parse.StringExpr:
		return fmt.Sprintf("%q", e.Text)
	case *parse.UnaryExpr:
		return "U(" + e.Op + " " + astShape(e.X) + ")"
	case *parse.BinaryExpr:
		return "B(" + astShape(e.Left) + " " + e.Op + " " + astShape(e.Right) + ")"
	case *parse.TestExpr:
		s := "T(" + e.Name
		for _, a := range e.Args {
			s += " " + astShape(a)
		}
		return s + ")"
	case *parse.TernaryIfExpr:
		return "Q(" + astShape(e.Cond) + " ? " + astShape(e.TrueX) + " : " + astShape(e.FalseX) + ")"
	case *parse.FuncExpr:
		s := "F(" + e.Name
		for _, a := range e.Args {
			s += " " + astShape(a)
		}
		return s + ")"
	case *parse.FilterExpr:
		s := "|(" + e.Name
		for _, a := range e.Args {
			s += " " + astShape(a)
		}
		return s + ")"
	case *parse.GetAttrExpr:
		return "A(" + astShape(e.Cont) + " " + astShape(e.Attr) + ")"
	case *parse.BoolExpr:
		return fmt.Sprint(e.Value)
	case *parse.NullExpr:
		return "null"
	case *parse.ArrayExpr:
		s := "["
		for _, a := range e.Elements {
			s += astShape(a) + ","
		}
		return s + "]"
	}
	return fmt.Sprintf("%T", n)
}

func printShape(src string) (string, error, string) {
	tree, err, pan := tryParse("{{ " + src + " }}")
	if pan != "" || err != nil {
		return "", err, pan
	}
	for _, n := range tree.Root().All() {
		if p, ok := n.(*parse.PrintNode); ok {
			return astShape(p.X), nil, ""
		}
	}
	return "", fmt.Errorf("no print node"), ""
}

var c04Names = []string{"a", "b", "c", "d", "e", "g", "h"}

// c04Chain builds the token stream of a decorated chain from the case parameters.
// ops: indices into c04Bin; unaryPos/unaryOp: optional prefix on one operand (-1 none);
// deco: 0 none, 1 chain as condition, 2 chain as false branch, 3 nested false branch, 4 chain as true branch
func c04Chain(ops []int, unaryPos, unaryOp, deco int) []c04Tok {
	return c04ChainStyled(0, ops, unaryPos, unaryOp, deco)
}

var c04StrLits = []string{"'3'", "'1'", "'2'", "'5'", "'x'", "''", "'7'"}
var c04NumLits = []string{"3", "1", "2", "5", "4", "0", "7"}

// style: 0 operands are names; 1 string literals; 2 number literals; 3 name, string, number in turn
func c04ChainStyled(style int, ops []int, unaryPos, unaryOp, deco int) []c04Tok {
	var toks []c04Tok
	un := []string{"not", "-", "+"}
	ni := 0
	operand := func(i int) {
		if i == unaryPos {
			toks = append(toks, c04Tok{"unary", un[unaryOp]})
		}
		v := c04Names[ni]
		switch {
		case style == 1 || (style == 3 && ni%3 == 1):
			v = c04StrLits[ni]
		case style == 2 || (style == 3 && ni%3 == 2):
			v = c04NumLits[ni]
		}
		toks = append(toks, c04Tok{"name", v})
		ni++
	}
	switch deco {
	case 2:
		toks = append(toks, c04Tok{"name", "p"}, c04Tok{"q", "?"}, c04Tok{"name", "y"}, c04Tok{"colon", ":"})
	case 3:
		toks = append(toks, c04Tok{"name", "p"}, c04Tok{"q", "?"}, c04Tok{"name", "y"}, c04Tok{"colon", ":"},
			c04Tok{"name", "r"}, c04Tok{"q", "?"}, c04Tok{"name", "z"}, c04Tok{"colon", ":"})
	case 4:
		toks = append(toks, c04Tok{"name", "p"}, c04Tok{"q", "?"})
	}
	operand(0)
	for i, oi := range ops {
		o := c04Bin[oi]
		toks = append(toks, c04Tok{"op", o.op})
		if o.op == "is" || o.op == "is not" {
			tests := []string{"odd", "even", "divisible by(3)"}
			toks = append(toks, c04Tok{"test", tests[i%3]})
			// a test takes no operand: the next operator follows directly
			continue
		}
		operand(i + 1)
	}
	switch deco {
	case 1:
		toks = append(toks, c04Tok{"q", "?"}, c04Tok{"name", "y"}, c04Tok{"colon", ":"}, c04Tok{"name", "z"})
	case 4:
		toks = append(toks, c04Tok{"colon", ":"}, c04Tok{"name", "z"})
	}
	return toks
}

// c04OpGap: what separates the words of a multi-word operator in the bare spelling (the parenthesised one keeps a blank)
var c04OpGap = " "

func c04Bare(toks []c04Tok) string {
	parts := make([]string, len(toks))
	for i, t := range toks {
		parts[i] = t.val
		if t.kind == "op" && c04OpGap != " " {
			parts[i] = strings.ReplaceAll(t.val, " ", c04OpGap)
		}
	}
	return strings.Join(parts, " ")
}

var c04Vals = []map[string]stick.Value{
	{"a": 7, "b": 2, "c": 3, "d": 5, "e": 4, "g": 6, "h": 9, "p": 1, "r": 0, "y": 11, "z": 13},
	{"a": 0, "b": 1, "c": 0, "d": 1, "e": 1, "g": 0, "h": 1, "p": 0, "r": 1, "y": 11, "z": 13},
	{"a": "x", "b": "xy", "c": "", "d": "y", "e": "x", "g": "2", "h": "3", "p": "", "r": "q", "y": "Y", "z": "Z"},
	{"a": 2, "b": []stick.Value{1, 2}, "c": 2, "d": []stick.Value{3}, "e": 1, "g": []stick.Value{}, "h": 2, "p": true, "r": false, "y": 11, "z": 13},
	// Go types other than int / string / float64
	{"a": float32(0.1), "b": float32(2.7), "c": int8(3), "d": uint16(5), "e": float32(0.7), "g": "6", "h": 9.5, "p": int64(1), "r": uint8(0), "y": float32(1.1), "z": 13},
}

func c04Env() *stick.Env {
	env := stick.New(nil)
	addStdCallbacks(env)
	return env
}

// c04Literals: chains of one operator repeated, all operands literal (a pattern written in the source may be prepared
// once per expression - each operator still uses its own): bare and with the restating parentheses they render alike.
func c04Literals(op, a, b, c2, subj int) core.Result {
	lits := []string{"'^a'", "'^1$'", "'^$'", "'1'", "'a'", "''", "'b$'"}
	subjects := []string{"'abc'", "'1'", "''", "'ab'", "s"}
	o := []string{"matches", "starts with", "ends with", "in", "~", "=="}[op]
	bare := subjects[subj] + " " + o + " " + lits[a] + " " + o + " " + lits[b] + " " + o + " " + lits[c2]
	par := "(((" + subjects[subj] + " " + o + " " + lits[a] + ") " + o + " " + lits[b] + ") " + o + " " + lits[c2] + ")"
	env := c04Env()
	ctx := map[string]stick.Value{"s": "a1"}
	o1, e1, p1 := tryExec(env, "{{ "+bare+" }}|{{ "+bare+" ? 'T' : 'F' }}", ctx)
	o2, e2, p2 := tryExec(env, "{{ "+par+" }}|{{ "+par+" ? 'T' : 'F' }}", ctx)
	if p1 != "" || p2 != "" {
		return core.Violation("panic", fmt.Sprintf("{{ %s }}: %s %s", bare, p1, p2))
	}
	if o1 != o2 || (e1 == nil) != (e2 == nil) {
		return core.Violation("rendered", fmt.Sprintf("{{ %s }} renders %q (%v) but {{ %s }} renders %q (%v)", bare, o1, e1, par, o2, e2))
	}
	return core.Okay(true, o1)
}

func c04Run(c core.Case) core.Result {
	if c.Fam == "literals" {
		return c04Literals(c.N[0], c.N[1], c.N[2], c.N[3], c.N[4])
	}
	if c.Fam == "long" {
		return c04Long(c)
	}
	// N = [unaryPos, unaryOp, deco, ops...]
	style := 0
	if c.Fam == "chainlit" { // N = [style, unaryPos, unaryOp, deco, ops...]
		style = c.N[0]
		c.N = c.N[1:]
	}
	if c.Fam == "chaingap" { // N = [gap, unaryPos, unaryOp, deco, ops...]
		c04OpGap = []string{" ", "  ", "\t", "\n", " \n  "}[c.N[0]]
		defer func() { c04OpGap = " " }()
		c.N = c.N[1:]
	}
	unaryPos, unaryOp, deco, ops := c.N[0], c.N[1], c.N[2], c.N[3:]
	toks := c04ChainStyled(style, ops, unaryPos, unaryOp, deco)
	bare := c04Bare(toks)
	p := &c04Parser{toks: toks}
	ref := p.full()
	if p.pos != len(toks) {
		return core.Violation("harness", "reference parser did not consume the chain "+bare)
	}
	par := ref.paren()
	want := strings.ReplaceAll(ref.shape(), "'", "\"") // string literals print as %q in the AST shape

	ps, perr, ppan := printShape(par)
	if ppan != "" {
		return core.Violation("panic", "parsing "+q(par)+" panicked: "+ppan)
	}
	if perr != nil {
		return core.Violation("parenthesised-rejected", fmt.Sprintf("the fully parenthesised form %q does not parse: %v (bare form %q)", par, perr, bare))
	}
	if ps != want {
		return core.Violation("parenthesised-shape", fmt.Sprintf("%q parses as %s, want %s", par, ps, want))
	}
	bs, berr, bpan := printShape(bare)
	if bpan != "" {
		return core.Violation("panic", "parsing "+q(bare)+" panicked: "+bpan)
	}
	if berr != nil {
		return core.Violation("bare-rejected", fmt.Sprintf("%q does not parse (%v) although its parenthesised form %q does", bare, berr, par))
	}
	if bs != want {
		return core.Violation("grouping", fmt.Sprintf("%q is grouped as %s but the operator table gives %s, i.e. %s", bare, bs, want, par))
	}
	// rendered agreement under several valuations
	if len(ops) <= 3 {
		env := c04Env()
		for vi, val := range c04Vals {
			o1, e1, p1 := tryExec(env, "{{ "+bare+" }}", val)
			o2, e2, p2 := tryExec(env, "{{ "+par+" }}", val)
			if p1 != "" || p2 != "" {
				continue // totality is C02's business
			}
			if o1 != o2 || (e1 == nil) != (e2 == nil) {
				return core.Violation("rendered", fmt.Sprintf("valuation %d: {{ %s }} renders %q (%v) but {{ %s }} renders %q (%v)", vi, bare, o1, e1, par, o2, e2))
			}
		}
	}
	// ... and in a Twig environment (whose auto-escaper rewrites the printed expression), with operands that are
	// marked safe, plain markup, or numbers
	if len(ops) <= 2 {
		tenv := twig.New(nil)
		addStdCallbacks(tenv)
		for vi, val := range c04TwigVals {
			o1, e1, p1 := tryExec(tenv, "{{ "+bare+" }}", val)
			o2, e2, p2 := tryExec(tenv, "{{ "+par+" }}", val)
			if p1 != "" || p2 != "" {
				continue
			}
			if o1 != o2 || (e1 == nil) != (e2 == nil) {
				return core.Violation("rendered", fmt.Sprintf("twig environment, valuation %d: {{ %s }} renders %q (%v) but {{ %s }} renders %q (%v)", vi, bare, o1, e1, par, o2, e2))
			}
		}
	}
	return core.Okay(len(ops) >= 2 || unaryPos >= 0 || deco > 0, want)
}

var c04TwigVals = []map[string]stick.Value{
	{"a": stick.NewSafeValue("<a>", "html"), "b": "<b>", "c": stick.NewSafeValue("&c", "html"), "d": "'d'", "e": stick.NewSafeValue("<e>", "js"), "g": 6, "h": "<h>", "p": 1, "r": 0, "y": stick.NewSafeValue("<y>", "html"), "z": "<z>"},
	{"a": "<a>", "b": stick.NewSafeValue("<b>", "html"), "c": "&c", "d": stick.NewSafeValue("\"d\"", "html"), "e": "<e>", "g": stick.NewSafeValue("<g>", "html"), "h": 2, "p": 0, "r": 1, "y": "<y>", "z": stick.NewSafeValue("<z>", "html")},
}

// c04Long: a chain of n operands joined by one operator, and a ladder of n conditionals chained through their else
// branches: the bare spelling and the spelling with the restating parentheses render identically, for every n up to 40
// and several valuations (float sums and products are not associative, so a regrouped chain shows).
func c04Long(c core.Case) core.Result {
	kind, n, vi := c.N[0], c.N[1], c.N[2]
	vals := [][]float64{{0.1, 0.2, 0.3, 0.7, 1.1, 0.1, 2.3, 0.9}, {1e16, 1, -1e16, 3, 1e-3, 7, 1e16, 0.5}, {3, 5, 2, 7, 11, 2, 3, 5}, {0.1, 0.1, 0.1, 0.1, 0.1, 0.1, 0.1, 0.1}, {1e200, 1e200, 1e-200, 1e-200, 1e150, 1e-150, 2, 3}}[vi]
	ctx := map[string]stick.Value{}
	name := func(i int) string { return "x" + itoa(i) }
	for i := 0; i < n+1; i++ {
		ctx[name(i)] = vals[i%len(vals)]
	}
	var bare, par string
	if kind < len(c04LongOps) {
		op := c04LongOps[kind]
		rightAssoc := op == "**"
		bare = name(0)
		par = name(0)
		if rightAssoc {
			// a ** b ** c == a ** (b ** c): build from the right
			par = name(n - 1)
			for i := n - 2; i >= 0; i-- {
				par = "(" + name(i) + " " + op + " " + par + ")"
			}
			for i := 1; i < n; i++ {
				bare += " " + op + " " + name(i)
			}
			for i := 0; i < n; i++ {
				ctx[name(i)] = []float64{2, 1, 1, 2, 1, 1, 1, 2}[i%8]
			}
		} else {
			for i := 1; i < n; i++ {
				bare += " " + op + " " + name(i)
				par = "(" + par + " " + op + " " + name(i) + ")"
			}
		}
	} else {
		// ladder: s == 1 ? 'v1' : s == 2 ? 'v2' : ... : 'else'   ==   (s == 1 ? 'v1' : (s == 2 ? 'v2' : ( ... )))
		ctx["s"] = vi*7 + 1
		if vi == 4 {
			ctx["s"] = 0
		}
		par = "'else'"
		for i := n; i >= 1; i-- {
			par = "(s == " + itoa(i) + " ? 'v" + itoa(i) + "' : " + par + ")"
		}
		bare = ""
		for i := 1; i <= n; i++ {
			bare += "s == " + itoa(i) + " ? 'v" + itoa(i) + "' : "
		}
		bare += "'else'"
	}
	env := c04Env()
	o1, e1, p1 := tryExec(env, "{{ "+bare+" }}", ctx)
	o2, e2, p2 := tryExec(env, "{{ "+par+" }}", ctx)
	if p1 != "" || p2 != "" {
		return core.Violation("panic", fmt.Sprintf("{{ %s }} panicked: %s%s", bare, p1, p2))
	}
	if o1 != o2 || (e1 == nil) != (e2 == nil) {
		return core.Violation("rendered", fmt.Sprintf("{{ %s }} renders %q (%v) but with the restating parentheses, {{ %s }}, %q (%v); values %v", bare, o1, e1, par, o2, e2, vals))
	}
	return core.Okay(true, o1)
}

var c04LongOps = []string{"+", "-", "*", "/", "~", "and", "or", "b-and", "b-or", "b-xor", "**", "//", "%"}

func c04Gen(k int, decorate bool, emit func(core.Case)) {
	n := len(c04Bin)
	idx := make([]int, k)
	for {
		ops := append([]int{}, idx...)
		operands := 1
		for _, oi := range ops {
			if c04Bin[oi].op != "is" && c04Bin[oi].op != "is not" {
				operands++
			}
		}
		emit(core.Case{Fam: "chain", N: append([]int{-1, 0, 0}, ops...)})
		if decorate {
			// unary decoration: every operand position x {not, -, +}; positions index the operand slots of the chain
			for pos := 0; pos <= k; pos++ {
				if pos > 0 && (c04Bin[ops[pos-1]].op == "is" || c04Bin[ops[pos-1]].op == "is not") {
					continue // that slot holds a test name, not an operand
				}
				for u := 0; u < 3; u++ {
					emit(core.Case{Fam: "chain", N: append([]int{pos, u, 0}, ops...)})
				}
			}
			for deco := 1; deco <= 4; deco++ {
				emit(core.Case{Fam: "chain", N: append([]int{-1, 0, deco}, ops...)})
			}
			emit(core.Case{Fam: "chain", N: append([]int{0, 0, 1}, ops...)})
			// a unary operator as the first token of a conditional's branch: p ? y : not a .., p ? y : r ? z : - a .., p ? + a .. : z
			for deco := 2; deco <= 4; deco++ {
				for u := 0; u < 3; u++ {
					emit(core.Case{Fam: "chain", N: append([]int{0, u, deco}, ops...)})
				}
			}
		}
		_ = operands
		j := k - 1
		for j >= 0 {
			idx[j]++
			if idx[j] < n {
				break
			}
			idx[j] = 0
			j--
		}
		if j < 0 {
			return
		}
	}
}

func c04Levels(tier string) []core.Level {
	lv := []core.Level{
		{Name: "chains of 2 operators of which one is written in several words (not in, is not, starts with, ends with), its words separated by two blanks / a tab / a line break / a wrapped line: grouping and value as with one blank", Gen: func(emit func(core.Case)) {
			for a := range c04Bin {
				for b := range c04Bin {
					if !strings.Contains(c04Bin[a].op, " ") && !strings.Contains(c04Bin[b].op, " ") {
						continue
					}
					for gap := 1; gap < 5; gap++ {
						emit(core.Case{Fam: "chaingap", N: []int{gap, -1, 0, 0, a, b}})
						emit(core.Case{Fam: "chaingap", N: []int{gap, -1, 0, 1, a, b}})
					}
				}
			}
		}},
		{Name: "one operator three times in a row over literal operands (matches / starts with / ends with / in / ~ / == x 7^3 literals x 5 subjects): bare = parenthesised", Gen: func(emit func(core.Case)) {
			for op := 0; op < 6; op++ {
				for a := 0; a < 7; a++ {
					for b := 0; b < 7; b++ {
						for c2 := 0; c2 < 7; c2++ {
							for sj := 0; sj < 5; sj++ {
								emit(core.Case{Fam: "literals", N: []int{op, a, b, c2, sj}})
							}
						}
					}
				}
			}
		}},
		{Name: "chains of 1 binary operator (27) x unary/conditional decorations", Gen: func(emit func(core.Case)) { c04Gen(1, true, emit) }},
		{Name: "chains of 2 binary operators (27^2) x decorations", Gen: func(emit func(core.Case)) { c04Gen(2, true, emit) }},
		{Name: "chains of 3 binary operators (27^3) x decorations", Gen: func(emit func(core.Case)) { c04Gen(3, true, emit) }},
	}
	lv = append(lv, core.Level{Name: "length: chains of 2..40 operands joined by one operator (13 operators) and ladders of 1..40 conditionals chained through their else branches, bare vs with the restating parentheses, 5 valuations (decimal fractions, absorbing magnitudes, integers, overflow-prone)", Gen: func(emit func(core.Case)) {
		for kind := 0; kind <= len(c04LongOps); kind++ {
			for n := 2; n <= 40; n++ {
				for vi := 0; vi < 5; vi++ {
					if kind == len(c04LongOps) {
						emit(core.Case{Fam: "long", N: []int{kind, n - 1, vi}})
					}
					emit(core.Case{Fam: "long", N: []int{kind, n, vi}})
				}
			}
		}
	}})
	lv = append(lv, core.Level{Name: "literal operands: chains of <= 2 operators (thorough 3) whose operands are string literals / number literals / name, string, number in turn, x decorations", Gen: func(emit func(core.Case)) {
		maxK := 2
		if thorough(tier) {
			maxK = 3
		}
		for style := 1; style <= 3; style++ {
			for k := 1; k <= maxK; k++ {
				c04Gen(k, true, func(c core.Case) {
					emit(core.Case{Fam: "chainlit", N: append([]int{style}, c.N...)})
				})
			}
		}
	}})
	if thorough(tier) {
		lv = append(lv, core.Level{Name: "chains of 4 binary operators (27^4) x decorations", Gen: func(emit func(core.Case)) { c04Gen(4, true, emit) }})
	}
	return lv
}

func init() {
	core.Register(&core.Check{
		ID:       "C04",
		Category: "exploration",
		Rule: "every chain x0 op1 x1 .. opk xk over all 27 binary operators, k <= 3 (thorough: k <= 4, decorated as well), each bare and with one unary prefix (not, -, +) at every operand position and with the conditional ?: around it in 5 placements; " +
			"the reference groups the chain by precedence climbing with its own copy of the documented table and prints the fully parenthesised source; both sources are parsed by the real parser and the public ASTs must be equal modulo GroupExpr " +
			"(and equal to the reference shape), and for k <= 3 both are executed under 5 valuations (ints, 0/1, strings, lists and booleans, float32 / int8 / uint16 and other Go numeric types) and must render identically. distinct = distinct decorated chain; non-trivial = at least two operators or a decoration",
		Assumptions: []string{
			"the reference table is Twig 1.x's as documented in parse/operator.go at the pinned commit: or 10, and 15, b-or 16, b-xor 17, b-and 18, comparisons/in/matches/starts/ends/.. 20, + - 30, ~ 40, not 50, * / // % 60, is/is not 100, ** 200 (right), unary + - 500, ?: loosest and right-nested",
			"operands are plain names, or (chains of <= 2 / 3 operators) string and number literals; tests are odd / even / divisible by(3)",
		},
		Levels:  c04Levels,
		Run:     c04Run,
		NoDedup: true,
		Budget:  budget(4*time.Minute, 25*time.Minute),
	})
}
