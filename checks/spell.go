package checks

import (
	"strings"
)

// Token-level model of template source, independent of stick's lexer. It is used to
// re-spell templates (C14), to place newlines (C20a) and to choose truncation/injection
// sites (C19, C20). Inside delimiters a token is: a whitespace run, a word (name, number
// incl. "1.5", alphabetic or two-word operator), a multi-character operator, one punctuation
// character, or the three parts of a string literal (quote, content, quote).

const (
	kText    = iota // text outside delimiters
	kOpen           // {{ {% {# (with optional -)
	kClose          // }} %} #} (with optional -)
	kWS             // whitespace inside delimiters
	kWord           // name / number / alphabetic operator
	kOp             // symbolic operator (possibly multi-character)
	kPunct          // , ( ) [ ] { } : | . ? =
	kQOpen          // opening quote
	kStr            // string content
	kQClose         // closing quote
	kComment        // comment content
	kIOpen          // "#{" inside a double-quoted string
	kIClose         // the "}" that ends an interpolation
)

type stok struct {
	text string
	off  int
	kind int
	in   string // "", "{{", "{%", "{#": which delimiter pair the token is inside
}

// the words of "not in", "is not", "starts with", "ends with" are separate tokens: the whitespace between them is
// whitespace between tokens like any other
var spellMultiOps = []string{"**", "//", "<=", ">=", "==", "!=", "..", "b-and", "b-or", "b-xor"}

func stokens(src string) []stok {
	var toks []stok
	add := func(text string, off, kind int, in string) {
		if text != "" || kind == kStr || kind == kComment {
			toks = append(toks, stok{text, off, kind, in})
		}
	}
	i := 0
	in := ""
	closer := ""
	braces := 0 // hashes open inside the current delimiter pair
	for i < len(src) {
		if in == "" {
			j := i
			for j < len(src) && !(strings.HasPrefix(src[j:], "{{") || strings.HasPrefix(src[j:], "{%") || strings.HasPrefix(src[j:], "{#")) {
				j++
			}
			if j > i {
				add(src[i:j], i, kText, "")
				i = j
				continue
			}
			d := src[i : i+2]
			n := 2
			if i+2 < len(src) && src[i+2] == '-' {
				n = 3
			}
			add(src[i:i+n], i, kOpen, d)
			braces = 0
			in = d
			closer = map[string]string{"{{": "}}", "{%": "%}", "{#": "#}"}[d]
			i += n
			continue
		}
		if braces > 0 && src[i] == '}' && in != "{#" {
			// a hash is still open: this brace closes it ("{{ {'a': {'b': 1}}.a }}")
			add("}", i, kPunct, in)
			braces--
			i++
			continue
		}
		if strings.HasPrefix(src[i:], closer) {
			add(closer, i, kClose, in)
			i += 2
			in = ""
			continue
		}
		if strings.HasPrefix(src[i:], "-"+closer) {
			add("-"+closer, i, kClose, in)
			i += 3
			in = ""
			continue
		}
		if in == "{#" {
			j := i
			for j < len(src) && !strings.HasPrefix(src[j:], "#}") && !strings.HasPrefix(src[j:], "-#}") {
				j++
			}
			add(src[i:j], i, kComment, in)
			i = j
			continue
		}
		c := src[i]
		switch {
		case c == ' ' || c == '\t' || c == '\n' || c == '\r':
			j := i
			for j < len(src) && (src[j] == ' ' || src[j] == '\t' || src[j] == '\n' || src[j] == '\r') {
				j++
			}
			add(src[i:j], i, kWS, in)
			i = j
		case c == '"' && dqInterpolated(src[i:]) > 0:
			// a double-quoted string with interpolations: quote, text, "#{", the tokens of the expression, "}", text, ..., quote
			end := i + dqInterpolated(src[i:]) // index of the closing quote
			add(src[i:i+1], i, kQOpen, in)
			j := i + 1
			textStart := j
			for j < end {
				if src[j] == '\\' {
					j += 2
					continue
				}
				if strings.HasPrefix(src[j:], "#{") {
					add(src[textStart:j], textStart, kStr, in)
					add("#{", j, kIOpen, in)
					k := interpEnd(src, j+2, end)
					for _, t := range stokens("{{" + src[j+2:k] + "}}") {
						if t.kind == kOpen || t.kind == kClose {
							continue
						}
						add(t.text, t.off-2+j+2, t.kind, in)
					}
					add("}", k, kIClose, in)
					j = k + 1
					textStart = j
					continue
				}
				j++
			}
			add(src[textStart:end], textStart, kStr, in)
			add(src[end:end+1], end, kQClose, in)
			i = end + 1
		case c == '"' || c == '\'':
			j := strings.IndexByte(src[i+1:], c)
			if j < 0 {
				add(src[i:i+1], i, kQOpen, in)
				add(src[i+1:], i+1, kStr, in)
				i = len(src)
			} else {
				add(src[i:i+1], i, kQOpen, in)
				add(src[i+1:i+1+j], i+1, kStr, in)
				add(src[i+1+j:i+2+j], i+1+j, kQClose, in)
				i = i + 2 + j
			}
		default:
			matched := false
			for _, op := range spellMultiOps {
				if strings.HasPrefix(src[i:], op) {
					end := i + len(op)
					if isWordByte(op[len(op)-1]) && end < len(src) && isWordByte(src[end]) {
						continue // "b-android", "not inside"
					}
					if isWordByte(op[0]) && i > 0 && isWordByte(src[i-1]) {
						continue
					}
					kind := kOp
					if isWordByte(op[0]) {
						kind = kWord
					}
					add(op, i, kind, in)
					i = end
					matched = true
					break
				}
			}
			if matched {
				continue
			}
			if isWordByte(c) {
				j := i
				for j < len(src) && isWordByte(src[j]) {
					j++
				}
				// number with fraction: 1.5
				if isDigits(src[i:j]) && j+1 < len(src) && src[j] == '.' && src[j+1] >= '0' && src[j+1] <= '9' {
					k := j + 1
					for k < len(src) && src[k] >= '0' && src[k] <= '9' {
						k++
					}
					j = k
				}
				add(src[i:j], i, kWord, in)
				i = j
				continue
			}
			kind := kOp
			if strings.IndexByte(",()[]{}:|.?=", c) >= 0 {
				kind = kPunct
			}
			if c == '{' {
				braces++
			} else if c == '}' && braces > 0 {
				braces--
			}
			add(src[i:i+1], i, kind, in)
			i++
		}
	}
	return toks
}

// dqInterpolated: s starts with a double quote. If the string literal is closed and contains an interpolation, the
// offset of its closing quote is returned (interpolations may contain quotes themselves), otherwise 0.
func dqInterpolated(s string) int {
	has := false
	j := 1
	for j < len(s) {
		switch {
		case s[j] == '\\':
			j += 2
			continue
		case s[j] == '"':
			if has {
				return j
			}
			return 0
		case strings.HasPrefix(s[j:], "#{"):
			k := interpEnd(s, j+2, len(s))
			if k >= len(s) {
				return 0
			}
			has = true
			j = k + 1
			continue
		}
		j++
	}
	return 0
}

// interpEnd returns the index of the "}" that closes the interpolation whose expression starts at from
// (brackets and quoted strings inside it are skipped), or limit if there is none.
func interpEnd(s string, from, limit int) int {
	depth := 0
	for j := from; j < limit && j < len(s); j++ {
		switch s[j] {
		case '(', '[', '{':
			depth++
		case ')', ']':
			depth--
		case '}':
			if depth <= 0 {
				return j
			}
			depth--
		case '\'', '"':
			q := s[j]
			j++
			for j < limit && j < len(s) && s[j] != q {
				if s[j] == '\\' {
					j++
				}
				j++
			}
		}
	}
	return limit
}

func isDigits(s string) bool {
	if s == "" {
		return false
	}
	for i := 0; i < len(s); i++ {
		if s[i] < '0' || s[i] > '9' {
			return false
		}
	}
	return true
}

func joinToks(toks []stok) string {
	var sb strings.Builder
	for _, t := range toks {
		sb.WriteString(t.text)
	}
	return sb.String()
}

// glueable reports whether a and b can be written without whitespace between them and
// still be the same two tokens. Conservative whitelist (DESIGN.md 3/C14).
func glueable(a, b stok) bool {
	simpleP := func(t stok) bool {
		return t.kind == kPunct && strings.Contains(",()[]:|", t.text)
	}
	wordish := func(t stok) bool { return t.kind == kWord || t.kind == kQOpen || t.kind == kQClose }
	switch {
	case a.kind == kIOpen:
		return b.kind == kWord || b.kind == kQOpen || (b.kind == kPunct && (b.text == "(" || b.text == "["))
	case b.kind == kIClose:
		return a.kind == kWord || a.kind == kQClose || (a.kind == kPunct && (a.text == ")" || a.text == "]"))
	case a.kind == kIClose || b.kind == kIOpen:
		return false
	case a.kind == kOpen:
		if a.in == "{#" {
			return false
		}
		return b.kind == kWord || b.kind == kQOpen || (b.kind == kPunct && (b.text == "(" || b.text == "["))
	case b.kind == kClose:
		if b.in == "{#" {
			return false
		}
		return a.kind == kWord || a.kind == kQClose || (a.kind == kPunct && (a.text == ")" || a.text == "]" || (a.text == "}" && b.in == "{{")))
	case a.kind == kPunct && b.kind == kPunct && a.text == "}" && (b.text == "}" || b.text == "]" || b.text == ")" || b.text == ","):
		return true // a closing brace cannot merge with what follows, not even with another one ("{'a': {'b': 1}}")
	case simpleP(a) && (wordish(b) || simpleP(b)):
		// two punctuation characters would be lexed as one run by a punctuation-run lexer: keep apart
		// unless one of them is a bracket
		if simpleP(b) && strings.Contains(",:|", a.text) && strings.Contains(",:|", b.text) {
			return false
		}
		return true
	case wordish(a) && simpleP(b):
		return true
	}
	// symbolic operators cannot merge with names, numbers, quotes or brackets ("a+b", "not-z", "and+a", "x~'s'");
	// two symbolic operators are never glued (they might form another operator)
	symOp := func(t stok) bool { return t.kind == kOp && strings.Contains("+-*/%~<>==!=<=>=**//", t.text) }
	closeB := func(t stok) bool { return t.kind == kPunct && (t.text == ")" || t.text == "]") }
	openB := func(t stok) bool { return t.kind == kPunct && (t.text == "(" || t.text == "[") }
	if a.kind == kWord && a.text == "b" && b.text == "-" {
		return false // would start "b-and" / "b-or" / "b-xor"
	}
	if (wordish(a) || closeB(a)) && symOp(b) {
		return true
	}
	if symOp(a) && (wordish(b) || openB(b)) {
		return true
	}
	return false
}

// A site is one place where a spelling may deviate from the canonical one.
type site struct {
	kind int // 0: whitespace token i replaced; 1: whitespace inserted before token i; 2: quote swap of string at i (QOpen index); 3: trailing comma before token i; 4: '-' marker on delimiter i
	i    int
	alts []string
}

var wsAlts = []string{"\t", "\n", "\r\n", "  ", " \n\t ", "\r"}
var wsAltsSmall = []string{"\n"}

// spellSites lists the deviation sites of a token stream. small selects the reduced alphabet W'.
func spellSites(toks []stok, small bool) []site {
	if small {
		return spellSitesMode(toks, 1)
	}
	return spellSitesMode(toks, 0)
}

// wsAltsLong: long gaps (a condition wrapped onto a deeply indented continuation line)
var wsAltsLong = []string{strings.Repeat(" ", 40), "\n" + strings.Repeat("\t", 12) + strings.Repeat(" ", 30), strings.Repeat("\n", 70), strings.Repeat(" ", 300), strings.Repeat(" \n", 2100)}

// spellSitesMode: mode 0 full whitespace alphabet, 1 reduced, 2 long gaps
func spellSitesMode(toks []stok, mode int) []site {
	small := mode == 1
	var sites []site
	inVerbatim := false
	// bracket matching for trailing commas
	type br struct {
		idx     int
		literal bool
		items   int
	}
	var stack []br
	prevSig := func(i int) *stok { // previous non-ws token inside the same delimiter pair
		for j := i - 1; j >= 0; j-- {
			if toks[j].kind == kWS {
				continue
			}
			if toks[j].in == toks[i].in && toks[j].kind != kOpen {
				return &toks[j]
			}
			return nil
		}
		return nil
	}
	for i, t := range toks {
		if t.kind == kWord && t.in == "{%" && i >= 1 {
			// tag name directly after the opener (skipping ws)
			p := i - 1
			for p >= 0 && toks[p].kind == kWS {
				p--
			}
			if p >= 0 && toks[p].kind == kOpen {
				if t.text == "verbatim" {
					inVerbatim = true
				} else if t.text == "endverbatim" {
					inVerbatim = false
				}
			}
		}
		if t.in == "" || t.in == "{#" {
			continue
		}
		if inVerbatim && !(t.kind == kWord && t.text == "verbatim") {
			// inside a verbatim body everything is literal text; only the verbatim tag itself is code
			isTagPart := false
			for p := i; p >= 0; p-- {
				if toks[p].kind == kOpen {
					q := p + 1
					for q < len(toks) && toks[q].kind == kWS {
						q++
					}
					isTagPart = q < len(toks) && (toks[q].text == "verbatim" || toks[q].text == "endverbatim")
					break
				}
			}
			if !isTagPart {
				continue
			}
		}
		switch t.kind {
		case kWS:
			alts := wsAlts
			if small {
				alts = wsAltsSmall
			}
			if mode == 2 {
				alts = wsAltsLong
			}
			var a []string
			for _, w := range alts {
				if w != t.text {
					a = append(a, w)
				}
			}
			if i > 0 && i+1 < len(toks) && glueable(toks[i-1], toks[i+1]) {
				a = append([]string{""}, a...)
			}
			sites = append(sites, site{0, i, a})
		case kQOpen:
			if i+2 < len(toks) && toks[i+2].kind == kQClose {
				c := toks[i+1].text
				// (a backslash inside is fine as long as it does not stand before the closing quote: both quote styles
				// treat it alike)
				if !strings.ContainsAny(c, "'\"") && !strings.HasSuffix(c, "\\") && !strings.Contains(c, "#{") {
					other := "'"
					if t.text == "'" {
						other = "\""
					}
					sites = append(sites, site{2, i, []string{other}})
				}
			}
		case kOpen:
			if i == 0 || (toks[i-1].kind == kText && !endsWithSpace(toks[i-1].text)) || toks[i-1].kind == kClose {
				if !strings.HasSuffix(t.text, "-") {
					sites = append(sites, site{4, i, []string{t.text + "-"}})
				}
			}
		case kClose:
			if i+1 == len(toks) || (toks[i+1].kind == kText && !startsWithSpace(toks[i+1].text)) || toks[i+1].kind == kOpen {
				if !strings.HasPrefix(t.text, "-") {
					sites = append(sites, site{4, i, []string{"-" + t.text}})
				}
			}
		}
		// zero-width boundary before this token (inside delimiters, previous token not whitespace)
		if i > 0 && t.kind != kWS && t.kind != kOpen && toks[i-1].kind != kClose && toks[i-1].kind != kWS && toks[i-1].in == t.in &&
			t.kind != kStr && t.kind != kQClose && toks[i-1].kind != kQOpen && toks[i-1].kind != kStr && t.kind != kIOpen && toks[i-1].kind != kIClose {
			a := []string{" ", "\n"}
			if small {
				a = []string{" "}
			}
			if mode == 2 {
				a = wsAltsLong
			}
			sites = append(sites, site{1, i, a})
		}
		// brackets
		if t.kind == kPunct && (t.text == "[" || t.text == "{") {
			p := prevSig(i)
			literal := p == nil || !(p.kind == kWord && !isOperatorWord(p.text) || p.kind == kQClose || (p.kind == kPunct && (p.text == ")" || p.text == "]" || p.text == "}")))
			stack = append(stack, br{i, literal, 0})
		} else if t.kind == kPunct && t.text == "(" {
			stack = append(stack, br{i, false, 0})
		} else if t.kind == kPunct && (t.text == "]" || t.text == "}" || t.text == ")") && len(stack) > 0 {
			top := stack[len(stack)-1]
			stack = stack[:len(stack)-1]
			p := prevSig(i)
			if top.literal && p != nil && !(p.kind == kPunct && (p.text == "," || p.text == "[" || p.text == "{")) {
				sites = append(sites, site{3, i, []string{","}})
			}
		}
		if t.kind == kClose {
			stack = nil
		}
	}
	return sites
}

func isOperatorWord(w string) bool {
	switch w {
	case "in", "not in", "is", "is not", "and", "or", "not", "matches", "starts with", "ends with", "starts", "ends", "b-and", "b-or", "b-xor", "if", "with", "only", "as", "import", "set", "do", "for", "elseif", "include", "extends", "embed", "use", "from", "filter":
		return true
	}
	return false
}

func endsWithSpace(s string) bool {
	return s != "" && strings.ContainsRune(" \t\n\r", rune(s[len(s)-1]))
}

func startsWithSpace(s string) bool {
	return s != "" && strings.ContainsRune(" \t\n\r", rune(s[0]))
}

// applySpelling rewrites the token stream with the chosen deviations: devs maps site index -> alternative index.
func applySpelling(toks []stok, sites []site, devs [][2]int) string {
	repl := map[int]string{}   // token index -> replacement text
	before := map[int]string{} // token index -> whitespace inserted before it
	comma := map[int]string{}  // token index -> trailing comma inserted before it (and before any inserted whitespace)
	for _, d := range devs {
		s := sites[d[0]]
		alt := s.alts[d[1]]
		switch s.kind {
		case 0:
			repl[s.i] = alt
		case 1:
			before[s.i] += alt
		case 3:
			comma[s.i] += alt
		case 2:
			repl[s.i] = alt
			repl[s.i+2] = alt
		case 4:
			repl[s.i] = alt
		}
	}
	var sb strings.Builder
	for i, t := range toks {
		if c, ok := comma[i]; ok {
			sb.WriteString(c)
		}
		if b, ok := before[i]; ok {
			sb.WriteString(b)
		}
		if r, ok := repl[i]; ok {
			sb.WriteString(r)
		} else {
			sb.WriteString(t.text)
		}
	}
	return sb.String()
}
