package checks

import (
	"fmt"
	"os"
	"path/filepath"
	"sort"
	"strings"
	"time"

	"github.com/tyler-sommer/stick"

	"verif/core"
)

// C10 — include and embed render the target with the right variables, in isolation.
// Full product of call forms x call sites x targets x host states; the reference computes the
// visible variables (call-site variables plus with-hash, or the with-hash only) and the block
// chain of each embed independently.

const c10Obs = "<x={{ x }}|{{ probe('x') }},y={{ y }}|{{ probe('y') }},w={{ w }}|{{ probe('w') }}>"

var c10Tpls = map[string]string{
	"T0":       c10Obs,
	"T1":       "{% set x = 'tx' %}" + c10Obs,
	"T2":       "{% set fresh = 'f' %}<fresh={{ fresh }}>" + c10Obs,
	"tb":       "TB[{% block a %}ba x={{ x }}{% endblock %}|{% block b %}bb{% endblock %}]",
	"T3":       "{% extends 'tb' %}{% block a %}T3a x={{ x }}|{{ probe('x') }}{% endblock %}",
	"T4":       "T4[{% block a %}t4a x={{ x }}{% endblock %}|{% block b %}t4b{% endblock %}]",
	"hostbase": "HB({% block a %}hba{% endblock %}/{% block b %}hbb{% endblock %})",
	"T6":       "T6[{% block a %}t6a{% endblock %}|{% block n %}t6n x={{ x }}{% endblock %}]",
	"T5":       "{% set x = 'tx' %}{% set fresh = 'f' %}T5[{% block a %}t5a x={{ x }}{% endblock %}|{% block b %}t5b{% endblock %}]",
}

type c10Vars map[string]string

func (v c10Vars) obs() string {
	p := func(n string) string {
		if val, ok := v[n]; ok {
			return val + "|D"
		}
		return "|U"
	}
	return "<x=" + p("x") + ",y=" + p("y") + ",w=" + p("w") + ">"
}

func (v c10Vars) get(n string) string { return v[n] }

func (v c10Vars) copy() c10Vars {
	r := c10Vars{}
	for k, x := range v {
		r[k] = x
	}
	return r
}

// stmt kinds: include of T0..T4 (0..4); embed of T3 / T4 / tb with overrides {}, {a}, {a,b} (5..13);
// 14: embed T4 with {a} then embed T4 with {} ; 15: embed tb with {a,b} then include T4;
// 16..18: embed of T5 (assigns x and a fresh name at its root) with overrides {}, {a}, {a,b}
// 19: embed of T6 whose override of a defines a nested block n, which also replaces the target's own n;
// 20: the same with a nested block the target does not have
const c10Stmts = 21

// mode: 0 plain, 1 with, 2 only, 3 with only; hashKind: 0 {x,w}, 1 {w}
func c10Args(mode, hashKind int) string {
	h := "{'x': 'wx', 'w': 'ww'}"
	if hashKind == 1 {
		h = "{'w': 'ww'}"
	}
	if hashKind == 2 {
		h = "hv" // the same hash, held in a host variable (set by the host or supplied as a Go map)
	}
	// the with-hash is an expression: a hash literal that continues (attribute, subscript, conditional, comparison)
	switch hashKind {
	case 3:
		h = "{'h': {'x': 'wx', 'w': 'ww'}}.h"
	case 4:
		h = "{'h': {'w': 'ww'}}['h']"
	case 5:
		h = "{} ? {} : {'x': 'wx', 'w': 'ww'}"
	case 6:
		h = "{'k': 1} == 0 ? {} : {'w': 'ww'}"
	}
	switch mode {
	case 1:
		return " with " + h
	case 2:
		return " only"
	case 3:
		return " with " + h + " only"
	}
	return ""
}

func c10TargetVars(site c10Vars, mode, hashKind int) c10Vars {
	v := c10Vars{}
	if mode == 0 || mode == 1 {
		v = site.copy()
	}
	if mode == 1 || mode == 3 {
		if hashKind == 0 || hashKind == 2 || hashKind == 3 || hashKind == 5 {
			v["x"] = "wx"
		}
		v["w"] = "ww"
	}
	return v
}

func c10Include(t int, v c10Vars) string {
	px := func() string {
		if _, ok := v["x"]; ok {
			return "D"
		}
		return "U"
	}
	switch t {
	case 0:
		return v.obs()
	case 1:
		w := v.copy()
		w["x"] = "tx"
		return w.obs()
	case 2:
		return "<fresh=f>" + v.obs()
	case 3:
		return "TB[T3a x=" + v.get("x") + "|" + px() + "|bb]"
	case 4:
		return "T4[t4a x=" + v.get("x") + "|t4b]"
	}
	return ""
}

func c10Embed(target string, ov int, v c10Vars) string {
	px := "U"
	if _, ok := v["x"]; ok {
		px = "D"
	}
	a, b := "", ""
	switch target {
	case "T3":
		a, b = "T3a x="+v.get("x")+"|"+px, "bb"
	case "T4":
		a, b = "t4a x="+v.get("x"), "t4b"
	case "tb":
		a, b = "ba x="+v.get("x"), "bb"
	case "T5":
		a, b = "t5a x=tx", "t5b"
		v = v.copy()
		v["x"] = "tx"
	}
	if ov >= 1 {
		a = "ova x=" + v.get("x")
	}
	if ov >= 2 {
		b = "ovb"
	}
	pre := map[string]string{"T3": "TB", "T4": "T4", "tb": "TB", "T5": "T5"}[target]
	return pre + "[" + a + "|" + b + "]"
}

// c10EmbedStyle: what stands between the overriding blocks of an embed body (and alone in a body that overrides
// nothing): 0 nothing, 1 line breaks and comments, 2 comments with whitespace control and a comment that mentions tags.
// None of it is content.
var c10EmbedStyle int

func c10Gap(i int) string {
	switch c10EmbedStyle {
	case 1:
		return []string{"\n  {# overrides #}\n  ", "\n\n  {# second block #}\n  ", "\n{# done #}\n"}[i]
	case 2:
		return []string{"{#- a -#}", " {# {% block a %}old{% endblock %} {{ x }} #}\t", "{# é #}{##}"}[i]
	}
	return ""
}

func c10EmbedSrc(target string, ov int, args string) string {
	s := "{% embed '" + target + "'" + args + " %}" + c10Gap(0)
	if ov >= 1 {
		s += "{% block a %}ova x={{ x }}{% endblock %}" + c10Gap(1)
	}
	if ov >= 2 {
		s += "{% block b %}ovb{% endblock %}"
	}
	return s + c10Gap(2) + "{% endembed %}"
}

// c10Stmt returns the source and the expected output of statement kind k at a call site with variables site.
func c10Stmt(k, mode, hashKind int, site c10Vars) (src, out string) {
	args := c10Args(mode, hashKind)
	v := c10TargetVars(site, mode, hashKind)
	embTargets := []string{"T3", "T4", "tb"}
	switch {
	case k < 5:
		return "{% include 'T" + itoa(k) + "'" + args + " %}", c10Include(k, v)
	case k < 14:
		t, ov := embTargets[(k-5)/3], (k-5)%3
		return c10EmbedSrc(t, ov, args), c10Embed(t, ov, v)
	case k == 19:
		return "{% embed 'T6'" + args + " %}{% block a %}ova<{% block n %}ovn x={{ x }}{% endblock %}>{% endblock %}{% endembed %}",
			"T6[ova<ovn x=" + v.get("x") + ">|ovn x=" + v.get("x") + "]"
	case k == 20:
		return "{% embed 'T6'" + args + " %}{% block a %}ova<{% block z %}ovz x={{ x }}{% endblock %}>{% endblock %}{% endembed %}",
			"T6[ova<ovz x=" + v.get("x") + ">|t6n x=" + v.get("x") + "]"
	case k >= 16:
		return c10EmbedSrc("T5", k-16, args), c10Embed("T5", k-16, v)
	case k == 14:
		return c10EmbedSrc("T4", 1, args) + "+" + c10EmbedSrc("T4", 0, args), c10Embed("T4", 1, v) + "+" + c10Embed("T4", 0, v)
	default:
		return c10EmbedSrc("tb", 2, args) + "+{% include 'T4'" + args + " %}", c10Embed("tb", 2, v) + "+" + c10Include(4, v)
	}
}

const c10After = "|after x={{ x }}|{{ probe('x') }} fresh={{ probe('fresh') }} hv={{ hv.x }},{{ hv.w }},{{ hv.fresh }},{{ hv.y }}"

func c10AfterExp(site c10Vars) string {
	p := "U"
	if _, ok := site["x"]; ok {
		p = "D"
	}
	return "|after x=" + site.get("x") + "|" + p + " fresh=U hv=wx,ww,,"
}

// hosts: 0 top, x unset; 1 top, x set; 2 loop with loop variable x; 3 loop with loop variable q, x set before;
// 4 block body of an extending child, x set; 5 the same, x unset; 6 macro body with parameter x;
// 7 loop whose variable x shadows a set outer x, first with null then with a string;
// 8 top level of a template that has already completed blocks named like the target's
func c10Build(host, k, mode, hashKind int) (tpls map[string]string, ctx map[string]stick.Value, want string) {
	tpls = map[string]string{}
	for n, s := range c10Tpls {
		tpls[n] = s
	}
	hv := map[string]stick.Value{"x": "wx", "w": "ww"}
	ctx = map[string]stick.Value{"y": "cy", "hv": hv}
	base := c10Vars{"y": "cy"}
	switch host {
	case 0, 1:
		site := base.copy()
		pre := ""
		if host == 1 {
			pre = "{% set x = 'hx' %}"
			site["x"] = "hx"
		}
		s, o := c10Stmt(k, mode, hashKind, site)
		tpls["main"] = pre + "[" + s + "]" + c10After
		want = "[" + o + "]" + c10AfterExp(site)
	case 2, 3, 7:
		site := base.copy()
		pre, lv := "", "x"
		if host == 3 {
			pre, lv = "{% set x = 'hx' %}", "q"
			site["x"] = "hx"
		}
		els, elsSrc := []string{"l1", "l2"}, "['l1', 'l2']"
		if host == 7 { // the loop variable shadows a set outer variable, first with null
			pre = "{% set x = 'hx' %}"
			site["x"] = "hx"
			els, elsSrc = []string{"", "l2"}, "[null, 'l2']"
		}
		body := ""
		for _, el := range els {
			it := site.copy()
			it[lv] = el
			it["loop"] = "L"
			s, o := c10Stmt(k, mode, hashKind, it)
			body = s
			want += "[" + o + "]" + c10AfterExp(it)
		}
		tpls["main"] = pre + "{% for " + lv + " in " + elsSrc + " %}[" + body + "]" + c10After + "{% endfor %}" + c10After
		want += c10AfterExp(site)
	case 4, 5:
		site := base.copy()
		pre := ""
		if host == 4 {
			pre = "{% set x = 'hx' %}"
			site["x"] = "hx"
		}
		s, o := c10Stmt(k, mode, hashKind, site)
		tpls["main"] = "{% extends 'hostbase' %}{% block a %}" + pre + "[" + s + "]" + c10After + "{% endblock %}{% block b %}hostb{% endblock %}"
		want = "HB([" + o + "]" + c10AfterExp(site) + "/hostb)"
	case 8: // a non-extending host that has already completed blocks named like the target's (and defines more after the call)
		site := base.copy()
		s, o := c10Stmt(k, mode, hashKind, site)
		tpls["main"] = "{% block a %}ha{% endblock %}{% block b %}hb{% endblock %}[" + s + "]" + c10After + "{% block eb %}he{% endblock %}"
		want = "hahb[" + o + "]" + c10AfterExp(site) + "he"
	case 6:
		ctx = map[string]stick.Value{"hv": hv}
		site := c10Vars{"x": "mx"}
		s, o := c10Stmt(k, mode, hashKind, site)
		tpls["main"] = "{% macro m(x) %}[" + s + "]" + c10After + "{% endmacro %}{{ _self.m('mx') }}"
		want = "[" + o + "]" + c10AfterExp(site)
	}
	return
}

const c10Hosts = 9

// Nested calls: the statement under test sits inside a template that is itself included (wrapper 0) or
// inside the override block of an embed (wrapper 1), called with its own mode and with-hash. The inner call
// site's variables are what the outer call made visible.
func c10Nested(host, wrap, m1, hk1, k, m2, hk2 int) (tpls map[string]string, ctx map[string]stick.Value, want string) {
	tpls = map[string]string{}
	for n, s := range c10Tpls {
		tpls[n] = s
	}
	hv := map[string]stick.Value{"x": "wx", "w": "ww"}
	ctx = map[string]stick.Value{"y": "cy", "hv": hv}
	site := c10Vars{"y": "cy"}
	pre := ""
	if host == 1 {
		pre = "{% set x = 'hx' %}"
		site["x"] = "hx"
	}
	mid := c10TargetVars(site, m1, hk1)
	inner, innerOut := c10Stmt(k, m2, hk2, mid)
	// what the middle template prints after the inner call: its own view is unchanged by it
	midAfter := "|mid x={{ x }}|{{ probe('x') }} fresh={{ probe('fresh') }}"
	p := "U"
	if _, ok := mid["x"]; ok {
		p = "D"
	}
	midAfterExp := "|mid x=" + mid.get("x") + "|" + p + " fresh=U"
	var outer, outerOut string
	if wrap == 0 {
		tpls["mid"] = "M[" + inner + "]" + midAfter
		outer = "{% include 'mid'" + c10Args(m1, hk1) + " %}"
		outerOut = "M[" + innerOut + "]" + midAfterExp
	} else {
		outer = "{% embed 'T4'" + c10Args(m1, hk1) + " %}{% block b %}M[" + inner + "]" + midAfter + "{% endblock %}{% endembed %}"
		outerOut = "T4[t4a x=" + mid.get("x") + "|M[" + innerOut + "]" + midAfterExp + "]"
	}
	tpls["main"] = pre + "[" + outer + "]" + c10After
	want = "[" + outerOut + "]" + c10AfterExp(site)
	return
}

// c10Scale: many calls in one execution, the same embed tag executed repeatedly with changing content, inline
// sources that look like paths, an embedded template that itself imports blocks with use.
func c10Scale(kind, n int) core.Result {
	tpls := map[string]string{}
	for k, v := range c10Tpls {
		tpls[k] = v
	}
	env := stick.New(&stick.MemoryLoader{Templates: tpls})
	env.Functions["probe"] = c07Env().Functions["probe"]
	var want strings.Builder
	main := "main"
	switch kind {
	case 0: // n includes in a loop, each seeing the loop variable
		tpls["row"] = "<{{ x }}:{{ loop.index }}>"
		tpls["main"] = "{% for x in 1.." + itoa(n) + " %}{% include 'row' %}{% endfor %}[{{ probe('x') }}]"
		for i := 1; i <= n; i++ {
			want.WriteString("<" + itoa(i) + ":" + itoa(i) + ">")
		}
		want.WriteString("[U]")
	case 1: // n executions of one embed tag whose override prints the loop variable
		tpls["main"] = "{% for x in 1.." + itoa(n) + " %}{% embed 'T4' %}{% block a %}o{{ x }}{% endblock %}{% endembed %}{% endfor %}"
		for i := 1; i <= n; i++ {
			want.WriteString("T4[o" + itoa(i) + "|t4b]")
		}
	case 2: // nested: n includes each embedding
		tpls["cell"] = "{% embed 'T4' with {'x': x * 2} only %}{% block b %}b{{ x }}{% endblock %}{% endembed %}"
		tpls["main"] = "{% for x in 1.." + itoa(n) + " %}{% include 'cell' %};{% endfor %}"
		for i := 1; i <= n; i++ {
			want.WriteString("T4[t4a x=" + itoa(2*i) + "|b" + itoa(2*i) + "];")
		}
	case 3: // inline sources that look like paths or URLs (string loader: the name is the source), n of them
		env = stick.New(nil)
		srcs := []string{"a//b", "./rel/", "x/../y", "http://host//p/?q=1", " lead and trail ", "dir/", "//", "a\\b", "t.html.twig"}
		var sb strings.Builder
		for i := 0; i < n; i++ {
			src := srcs[i%len(srcs)]
			sb.WriteString("{% include '" + src + "' %}|{% embed '" + src + "' %}{% endembed %}|")
			want.WriteString(src + "|" + src + "|")
		}
		main = sb.String()
	case 4: // the embedded template imports blocks with use; the host overrides one of them
		tpls["parts"] = "{% block pa %}PA{{ x }}{% endblock %}{% block pb %}PB{% endblock %}"
		tpls["usr"] = "U[{% use 'parts' %}{{ block('pa') }}|{{ block('pb') }}|{% block own %}own{% endblock %}]"
		tpls["main"] = "{% for x in 1.." + itoa(n) + " %}{% embed 'usr' %}{% block pb %}ov{{ x }}{% endblock %}{% endembed %}{% endfor %}"
		for i := 1; i <= n; i++ {
			want.WriteString("U[PA" + itoa(i) + "|ov" + itoa(i) + "|own]")
		}
	}
	out, err, pan := tryExec(env, main, map[string]stick.Value{})
	if pan != "" || err != nil {
		return core.Violation("error", fmt.Sprintf("kind %d, %d calls: %v %s (main %q)", kind, n, err, pan, tail(tpls["main"], 200)))
	}
	if out != want.String() {
		i := 0
		for i < len(out) && i < want.Len() && out[i] == want.String()[i] {
			i++
		}
		return core.Violation("isolation", fmt.Sprintf("kind %d, %d calls (main ...%q): output differs from the expected one at byte %d: got ...%q, want ...%q", kind, n, tail(tpls["main"], 160), i, tail(out[:min(len(out), i+40)], 80), tail(want.String()[:min(want.Len(), i+40)], 80)))
	}
	return core.Okay(true, itoa(len(out)))
}

// c10History: what an earlier call on the same environment did does not reach the next include / embed.
// kind 0: a partial served by the FilesystemLoader is rewritten (same length and modification time) or removed between
// two executions; kind 1: n includes / embeds whose target fails at run time (at a nesting depth of d), then a good one.
func c10History(kind, a, b int) core.Result {
	if kind == 0 {
		dir := fsFreshDir("c10fresh")
		fsPut(dir, "part.twig", "one {{ x }}")
		fsPut(dir, "base.twig", "B[{% block a %}b1{% endblock %}]")
		fsPut(dir, "main.twig", []string{"<{% include 'part.twig' %}>", "<{% embed 'base.twig' %}{% endembed %}{% include 'part.twig' with {'x': 2} only %}>", "<{% for i in [1, 2] %}{% include 'part.twig' %}{% endfor %}>"}[a])
		env := stick.New(stick.NewFilesystemLoader(dir))
		ctx := map[string]stick.Value{"x": 1}
		o1, e1, p1 := tryExec(env, "main.twig", ctx)
		fsPut(dir, "part.twig", "two {{ x }}")
		fsPut(dir, "base.twig", "B[{% block a %}b2{% endblock %}]")
		if b == 1 {
			os.Remove(filepath.Join(dir, "part.twig"))
		}
		o2, e2, p2 := tryExec(env, "main.twig", ctx)
		if p1 != "" || p2 != "" || e1 != nil {
			return core.Violation("error", fmt.Sprintf("filesystem include: %v %s %s", e1, p1, p2))
		}
		w1 := []string{"<one 1>", "<B[b1]one 2>", "<one 1one 1>"}[a]
		w2 := []string{"<two 1>", "<B[b2]two 2>", "<two 1two 1>"}[a]
		if b == 1 {
			if e2 == nil {
				return core.Violation("isolation", fmt.Sprintf("the included file was removed after the first execution, yet the same environment renders %q without error", o2))
			}
			return core.Okay(true, "removed")
		}
		if o1 != w1 || e2 != nil || o2 != w2 {
			return core.Violation("isolation", fmt.Sprintf("include of a file rewritten between two executions (same length and modification time): %q, then %q (%v), want %q then %q", o1, o2, e2, w1, w2))
		}
		return core.Okay(true, o2)
	}
	if kind == 2 {
		dir := fsFreshDir("c10names")
		fsPut(dir, "partials/row.twig", "row {{ x }}")
		fsPut(dir, "partials/box.twig", "box[{% block a %}a{% endblock %}]")
		ref := []string{"'partials/row.twig'", "'./partials/row.twig'", "'/partials/row.twig'", "'partials/../partials/row.twig'", "'partials//row.twig'", "d ~ '/row.twig'", "d2 ~ 'row.twig'"}[a]
		src := "<{% include " + ref + " %}|{% embed " + strings.Replace(ref, "row.twig", "box.twig", 1) + " %}{% block a %}o{{ x }}{% endblock %}{% endembed %}>"
		fsPut(dir, "main.twig", src)
		out, err, pan := tryExec(stick.New(stick.NewFilesystemLoader(dir)), "main.twig", map[string]stick.Value{"x": 1, "d": "partials", "d2": "partials/"})
		if pan != "" || err != nil || out != "<row 1|box[o1]>" {
			return core.Violation("isolation", fmt.Sprintf("filesystem loader: %q renders %q (%v %s), want %q", src, out, err, pan, "<row 1|box[o1]>"))
		}
		return core.Okay(true, out)
	}
	tpls := map[string]string{"bad": "x{{ nofunc() }}", "good": "G{{ x }}", "base": "B[{% block a %}b{% endblock %}]",
		"failing": []string{"{% include 'bad' %}", "{% embed 'bad' %}{% endembed %}", "{% include 'deep1' %}"}[b%3],
		"ok":      "<{% include 'good' %}|{% embed 'base' %}{% block a %}o{{ x }}{% endblock %}{% endembed %}>"}
	for d := 1; d <= 40; d++ {
		next := "deep" + itoa(d+1)
		if d == 40 {
			next = "bad"
		}
		tpls["deep"+itoa(d)] = "{% include '" + next + "' %}"
	}
	env := stick.New(&stick.MemoryLoader{Templates: tpls})
	ctx := map[string]stick.Value{"x": 7}
	for i := 0; i < a; i++ {
		if _, err, pan := tryExec(env, "failing", ctx); err == nil || pan != "" {
			return core.Violation("error", fmt.Sprintf("%q: err=%v %s", tpls["failing"], err, pan))
		}
	}
	out, err, pan := tryExec(env, "ok", ctx)
	if pan != "" || err != nil || out != "<G7|B[o7]>" {
		return core.Violation("isolation", fmt.Sprintf("after %d executions of %q on the same environment (each fails inside its target), %q renders %q (%v %s), want %q", a, tpls["failing"], tpls["ok"], out, err, pan, "<G7|B[o7]>"))
	}
	return core.Okay(true, out)
}

func c10Run(c core.Case) core.Result {
	if c.Fam == "history" {
		return c10History(c.N[0], c.N[1], c.N[2])
	}
	if c.Fam == "scale" {
		return c10Scale(c.N[0], c.N[1])
	}
	var tpls map[string]string
	var ctx map[string]stick.Value
	var want string
	if c.Fam == "nested" {
		tpls, ctx, want = c10Nested(c.N[0], c.N[1], c.N[2], c.N[3], c.N[4], c.N[5], c.N[6])
	} else {
		host, k, mode, hk := c.N[0], c.N[1], c.N[2], c.N[3]
		c10EmbedStyle = 0
		if len(c.N) > 4 {
			c10EmbedStyle = c.N[4]
		}
		tpls, ctx, want = c10Build(host, k, mode, hk)
		c10EmbedStyle = 0
	}
	env := stick.New(&stick.MemoryLoader{Templates: tpls})
	env.Functions["probe"] = c07Env().Functions["probe"]
	out, err, pan := tryExec(env, "main", ctx)
	var names []string
	for n := range tpls {
		if strings.Contains(tpls["main"], "'"+n+"'") || (n != "main" && strings.Contains(tpls["mid"], "'"+n+"'")) {
			names = append(names, n)
		}
	}
	sort.Strings(names)
	desc := fmt.Sprintf("main=%q", tpls["main"])
	for _, n := range names {
		desc += fmt.Sprintf("\n    %s=%q", n, tpls[n])
	}
	if pan != "" {
		return core.Violation("panic", "panicked: "+pan+"\n    "+desc)
	}
	if err != nil {
		return core.Violation("error", fmt.Sprintf("fails: %v (want %q)\n    %s", err, want, desc))
	}
	if out != want {
		return core.Violation("isolation", fmt.Sprintf("renders\n    %q, want\n    %q\n    %s", out, want, desc))
	}
	return core.Okay(true, out)
}

func c10Levels(tier string) []core.Level {
	return []core.Level{
		{Name: "full product: 9 call sites / host states x 21 include/embed statements x {plain, with, only, with only} x 3 with-hashes (two literals and a host variable holding a Go map, which must be unchanged afterwards; at 3 call sites also 4 hash literals that continue as an expression: attribute, subscript, conditional, comparison); embed bodies with nothing / line breaks and comments / trimmed and tag-mentioning comments between the overriding blocks", Gen: func(emit func(core.Case)) {
			for host := 0; host < c10Hosts; host++ {
				for k := 0; k < c10Stmts; k++ {
					for mode := 0; mode < 4; mode++ {
						for hk := 0; hk < 7; hk++ {
							if (mode == 0 || mode == 2) && hk >= 1 {
								continue
							}
							if hk >= 3 && host > 1 && host != 4 {
								continue // the with-hashes written as longer expressions: at the top level and in a child's block
							}
							emit(core.Case{Fam: "cfg", N: []int{host, k, mode, hk}})
							if k >= 5 && k != 19 && k != 20 {
								// the embed statements again with line breaks and comments between the overriding blocks
								emit(core.Case{Fam: "cfg", N: []int{host, k, mode, hk, 1}})
								emit(core.Case{Fam: "cfg", N: []int{host, k, mode, hk, 2}})
							}
						}
					}
				}
			}
		}},
		{Name: "histories on one environment: an included / embedded file rewritten (same length and modification time) or removed between two executions (FilesystemLoader); 1..130, 250 and 1000 executions whose include / embed fails inside its target (also 40 levels deep), then a good include and embed", Gen: func(emit func(core.Case)) {
			for a := 0; a < 3; a++ {
				for b := 0; b < 2; b++ {
					emit(core.Case{Fam: "history", N: []int{0, a, b}})
				}
			}
			for a := 0; a < 7; a++ {
				emit(core.Case{Fam: "history", N: []int{2, a, 0}}) // (no history: 7 spellings of an included / embedded file's path)
			}
			for _, n := range append(seq(1, 130), 250, 1000) {
				for b := 0; b < 3; b++ {
					if b == 2 && n > 130 {
						continue
					}
					emit(core.Case{Fam: "history", N: []int{1, n, b}})
				}
			}
		}},
		{Name: "scale: 1..40, 99..103, 150, 300 and 1000 includes / executions of one embed tag / nested calls in one execution; inline sources that look like paths; an embedded template importing blocks with use", Gen: func(emit func(core.Case)) {
			ns := []int{99, 100, 101, 102, 103, 150, 300, 1000}
			top := 40
			if thorough(tier) { // every count up to 600 and a few large ones
				top = 600
				ns = append(ns, 1023, 1024, 1025, 2048, 4096, 5000, 10000)
			}
			for n := 1; n <= top; n++ {
				ns = append(ns, n)
			}
			for kind := 0; kind < 5; kind++ {
				for _, n := range ns {
					emit(core.Case{Fam: "scale", N: []int{kind, n}})
				}
			}
		}},
		{Name: "nested calls: {top level with x unset / set} x {inside an included template, inside the override block of an embed} x outer {plain, with, only, with only} x 3 with-hashes x 21 inner statements x inner modes x with-hashes", Gen: func(emit func(core.Case)) {
			modes := func(f func(m, hk int)) {
				for m := 0; m < 4; m++ {
					for hk := 0; hk < 3; hk++ {
						if (m == 0 || m == 2) && hk >= 1 {
							continue
						}
						f(m, hk)
					}
				}
			}
			for host := 0; host < 2; host++ {
				for wrap := 0; wrap < 2; wrap++ {
					modes(func(m1, hk1 int) {
						for k := 0; k < c10Stmts; k++ {
							modes(func(m2, hk2 int) {
								if m1 >= 2 && hk2 == 2 {
									return // the host variable holding the hash is not visible below an "only" call
								}
								emit(core.Case{Fam: "nested", N: []int{host, wrap, m1, hk1, k, m2, hk2}})
							})
						}
					})
				}
			}
		}},
	}
}

func init() {
	core.Register(&core.Check{
		ID:       "C10",
		Category: "exploration",
		Rule: "full product of: call site / host state (top level with x unset or set; loop body with the loop variable named x or another name, or shadowing a set outer x with null; block body of an extending child whose blocks are named like the target's, x set or unset; macro body with parameter x) x statement (include of 5 targets: printing x,y,w with definedness, setting x, setting a fresh name, extending a base, defining blocks named like the host's; embed of 4 targets (one assigning variables at its root) with overrides {}, {a}, {a,b}; embed whose overriding block defines a nested block (present in / absent from the target); the same target embedded twice with different overrides; embed followed by include) x {plain, with, only, with only} x 3 with-hashes (two literals and a host variable holding a Go map, which must be unchanged afterwards); the host prints x and the definedness of the fresh name afterwards. " +
			"A second level nests every statement inside an included template or inside the override block of an embed, each called with its own mode and with-hash (the inner call site sees what the outer call made visible). Reference: visible variables = call-site variables plus with-hash, or with-hash only; no write-back; overrides per embed only; host blocks irrelevant. distinct = distinct configuration; non-trivial = all",
		Assumptions: []string{"inside a macro body only the parameter is at the call site (stick's macro scope also exposes outer variables; not claimed)"},
		Levels:      c10Levels,
		Run:         c10Run,
		NoDedup:     true,
		Budget:      budget(3*time.Minute, 10*time.Minute),
	})
}
