package checks

import (
	"errors"
	"fmt"
	"github.com/tyler-sommer/stick/twig"
	"net"
	"reflect"
	"sort"
	"strings"
	"time"

	"github.com/tyler-sommer/stick"

	"verif/core"
)

// C16 — attribute access and iteration are total and visit what is there.
// The reference is table-driven: the harness knows what it put into each container.

type c16Emb struct{ Emb int }

type c16S struct {
	Field      string
	unexported int
	c16Emb
	PtrNil   *c16Emb // exported fields that exist but hold nil
	PtrSet   *c16Emb
	SliceNil []int
	MapNil   map[string]int
	Iface    interface{}
}

func (s c16S) Method() string           { return "m" }
func (s c16S) Add(a, b float64) float64 { return a + b }
func (s c16S) Greet(n string) string    { return "hi " + n }
func (s c16S) Var(xs ...int) int {
	t := 0
	for _, x := range xs {
		t += x
	}
	return t
}
func (s c16S) Two() (int, error)                       { return 1, nil }
func (s c16S) None()                                   {}
func (s *c16S) PtrMethod() string                      { return "pm" }
func (s c16S) IntArg(i int) int                        { return i * 2 }
func (s c16S) Join(sep string, parts ...string) string { return strings.Join(parts, sep) }

// expectation for one lookup
type c16Exp struct {
	mustErr bool          // an error is required
	errOK   bool          // an error is acceptable
	accept  []stick.Value // acceptable results when no error is returned
	any     bool          // any non-panicking behaviour is acceptable
}

type c16Cont struct {
	name string
	v    stick.Value
	exp  func(key stick.Value, args []stick.Value) c16Exp
}

func isGoInt(v stick.Value) (int, bool) {
	switch x := v.(type) {
	case int:
		return x, true
	case int8:
		return int(x), true
	case int16:
		return int(x), true
	case int32:
		return int(x), true
	case int64:
		return int(x), true
	case uint:
		return int(x), true
	case uint8:
		return int(x), true
	case uint16:
		return int(x), true
	case uint32:
		return int(x), true
	case uint64:
		return int(x), true
	case float64:
		if x == float64(int(x)) {
			return int(x), true
		}
	case float32:
		if float64(x) == float64(int(x)) {
			return int(x), true
		}
	}
	return 0, false
}

func noMethodArgs(args []stick.Value, e c16Exp) c16Exp {
	if len(args) > 0 { // arguments given to something that is not a method: unspecified, must not panic
		e.any = true
	}
	return e
}

// stringMap: map[string]X
func stringMapExp(m map[string]stick.Value) func(stick.Value, []stick.Value) c16Exp {
	return func(key stick.Value, args []stick.Value) c16Exp {
		if ks, ok := key.(string); ok {
			if el, ok := m[ks]; ok {
				return noMethodArgs(args, c16Exp{accept: []stick.Value{el}})
			}
			return noMethodArgs(args, c16Exp{mustErr: true})
		}
		e := c16Exp{errOK: true}
		if el, ok := m[stick.CoerceString(key)]; ok {
			e.accept = []stick.Value{el}
		} else {
			e.mustErr = true
		}
		return noMethodArgs(args, e)
	}
}

func seqExp(els []stick.Value) func(stick.Value, []stick.Value) c16Exp {
	return func(key stick.Value, args []stick.Value) c16Exp {
		if i, ok := isGoInt(key); ok {
			if i >= 0 && i < len(els) {
				return noMethodArgs(args, c16Exp{accept: []stick.Value{els[i]}})
			}
			return noMethodArgs(args, c16Exp{mustErr: true})
		}
		i := int(stick.CoerceNumber(key))
		if i >= 0 && i < len(els) {
			return noMethodArgs(args, c16Exp{errOK: true, accept: []stick.Value{els[i]}})
		}
		return noMethodArgs(args, c16Exp{mustErr: true})
	}
}

func allErr(stick.Value, []stick.Value) c16Exp { return c16Exp{mustErr: true} }

func structExp(ptr bool, self c16S) func(stick.Value, []stick.Value) c16Exp {
	return func(key stick.Value, args []stick.Value) c16Exp {
		name, isStr := key.(string)
		if !isStr {
			return c16Exp{mustErr: true} // no field or method is named by a number, bool or null
		}
		switch name {
		case "Field":
			return noMethodArgs(args, c16Exp{accept: []stick.Value{self.Field}})
		case "Emb":
			return noMethodArgs(args, c16Exp{accept: []stick.Value{self.Emb}})
		case "PtrNil": // the field exists: its (typed nil) value is the element
			return noMethodArgs(args, c16Exp{accept: []stick.Value{(*c16Emb)(nil)}})
		case "PtrSet":
			return noMethodArgs(args, c16Exp{accept: []stick.Value{self.PtrSet}})
		case "SliceNil":
			return noMethodArgs(args, c16Exp{accept: []stick.Value{[]int(nil)}})
		case "MapNil":
			return noMethodArgs(args, c16Exp{accept: []stick.Value{map[string]int(nil)}})
		case "Iface":
			return noMethodArgs(args, c16Exp{accept: []stick.Value{nil}})
		case "c16Emb":
			return c16Exp{any: true} // embedded unexported type name: unspecified
		case "Method":
			if len(args) == 0 {
				return c16Exp{accept: []stick.Value{"m"}}
			}
			return c16Exp{mustErr: true}
		case "PtrMethod":
			if len(args) != 0 {
				return c16Exp{mustErr: true}
			}
			if ptr {
				return c16Exp{accept: []stick.Value{"pm"}}
			}
			return c16Exp{errOK: true, accept: []stick.Value{"pm"}}
		case "Add":
			if len(args) != 2 {
				return c16Exp{mustErr: true}
			}
			a, aok := args[0].(float64)
			b, bok := args[1].(float64)
			if aok && bok {
				return c16Exp{accept: []stick.Value{a + b}}
			}
			return c16Exp{errOK: true, accept: []stick.Value{stick.CoerceNumber(args[0]) + stick.CoerceNumber(args[1])}}
		case "Greet":
			if len(args) != 1 {
				return c16Exp{mustErr: true}
			}
			if s, ok := args[0].(string); ok {
				return c16Exp{accept: []stick.Value{"hi " + s}}
			}
			return c16Exp{errOK: true, accept: []stick.Value{"hi " + stick.CoerceString(args[0])}}
		case "IntArg":
			if len(args) != 1 {
				return c16Exp{mustErr: true}
			}
			if i, ok := args[0].(int); ok {
				return c16Exp{accept: []stick.Value{i * 2}}
			}
			return c16Exp{errOK: true, accept: []stick.Value{int(stick.CoerceNumber(args[0])) * 2}}
		case "Var":
			t := 0
			for _, a := range args {
				t += int(stick.CoerceNumber(a))
			}
			return c16Exp{errOK: true, accept: []stick.Value{t}}
		case "Join":
			if len(args) == 0 {
				return c16Exp{mustErr: true} // the fixed parameter is missing
			}
			var parts []string
			allStr := true
			for _, a := range args {
				if _, ok := a.(string); !ok {
					allStr = false
				}
				parts = append(parts, stick.CoerceString(a))
			}
			e := c16Exp{errOK: true, accept: []stick.Value{strings.Join(parts[1:], parts[0])}}
			_ = allStr
			return e
		case "Two":
			return c16Exp{errOK: true, accept: []stick.Value{1}}
		case "None":
			if len(args) != 0 {
				return c16Exp{mustErr: true}
			}
			return c16Exp{errOK: true, accept: []stick.Value{nil}}
		}
		return c16Exp{mustErr: true} // "missing", "unexported", "", "k", "1" ...
	}
}

// named key types of every kind the lookup converts to
type c16KStr string
type c16KInt int
type c16KI8 int8
type c16KI64 int64
type c16KU64 uint64
type c16KU8 uint8
type c16KF64 float64
type c16KF32 float32
type c16KBool bool

// reflMapExp: expectation for a map of any key type, by reflection: a key of exactly the map's key type is
// looked up as it is; any other key is coerced to the kind of the key type (string / integral number in
// range / number / bool) and either finds that entry or is an error.
func reflMapExp(m interface{}) func(stick.Value, []stick.Value) c16Exp {
	rv := reflect.ValueOf(m)
	kt := rv.Type().Key()
	lookup := func(k reflect.Value) (stick.Value, bool) {
		el := rv.MapIndex(k)
		if !el.IsValid() {
			return nil, false
		}
		return el.Interface(), true
	}
	return func(key stick.Value, args []stick.Value) c16Exp {
		if key != nil && reflect.TypeOf(key) == kt {
			if el, ok := lookup(reflect.ValueOf(key)); ok {
				return noMethodArgs(args, c16Exp{accept: []stick.Value{el}})
			}
			return noMethodArgs(args, c16Exp{mustErr: true})
		}
		e := c16Exp{errOK: true}
		var k reflect.Value
		switch kt.Kind() {
		case reflect.String:
			k = reflect.ValueOf(stick.CoerceString(key)).Convert(kt)
		case reflect.Int, reflect.Int8, reflect.Int16, reflect.Int32, reflect.Int64:
			n := stick.CoerceNumber(key)
			if n == float64(int64(n)) && !reflect.Zero(kt).OverflowInt(int64(n)) {
				k = reflect.ValueOf(int64(n)).Convert(kt)
			}
		case reflect.Uint, reflect.Uint8, reflect.Uint16, reflect.Uint32, reflect.Uint64:
			n := stick.CoerceNumber(key)
			if n >= 0 && n == float64(uint64(n)) && !reflect.Zero(kt).OverflowUint(uint64(n)) {
				k = reflect.ValueOf(uint64(n)).Convert(kt)
			}
		case reflect.Float32, reflect.Float64:
			k = reflect.ValueOf(stick.CoerceNumber(key)).Convert(kt)
		case reflect.Bool:
			k = reflect.ValueOf(stick.CoerceBool(key)).Convert(kt)
		}
		if k.IsValid() {
			if el, ok := lookup(k); ok {
				e.accept = []stick.Value{el}
				return noMethodArgs(args, e)
			}
		}
		e.mustErr = true
		return noMethodArgs(args, e)
	}
}

// a struct that embeds a pointer: the promoted field exists only while the pointer is set
type c16PE struct{ P int }
type c16S2 struct {
	*c16PE
	Own string
}

func c16EmbPtrConts() []c16Cont {
	exp := func(set bool) func(stick.Value, []stick.Value) c16Exp {
		return func(key stick.Value, args []stick.Value) c16Exp {
			name, isStr := key.(string)
			switch {
			case isStr && name == "Own":
				return noMethodArgs(args, c16Exp{accept: []stick.Value{"o"}})
			case isStr && name == "P" && set:
				return noMethodArgs(args, c16Exp{accept: []stick.Value{7}})
			case isStr && name == "c16PE":
				return c16Exp{any: true}
			}
			return c16Exp{mustErr: true}
		}
	}
	return []c16Cont{
		{"struct embedding a nil pointer", c16S2{Own: "o"}, exp(false)},
		{"*struct embedding a nil pointer", &c16S2{Own: "o"}, exp(false)},
		{"struct embedding a set pointer", c16S2{&c16PE{7}, "o"}, exp(true)},
		{"*struct embedding a set pointer", &c16S2{&c16PE{7}, "o"}, exp(true)},
	}
}

func c16NamedKeyMaps() []c16Cont {
	var res []c16Cont
	add := func(name string, m interface{}) {
		res = append(res, c16Cont{name, m, reflMapExp(m)})
		p := reflect.New(reflect.TypeOf(m))
		p.Elem().Set(reflect.ValueOf(m))
		res = append(res, c16Cont{"*" + name, p.Interface(), reflMapExp(m)})
	}
	add("map[named string]string", map[c16KStr]string{"k": "nk", "1": "n1", "": "ne", "true": "nt"})
	add("map[named int]string", map[c16KInt]string{0: "i0", 1: "i1", -1: "im"})
	add("map[named int8]string", map[c16KI8]string{0: "b0", 1: "b1", -1: "bm"})
	add("map[named int64]string", map[c16KI64]string{0: "l0", 1: "l1", 2: "l2"})
	add("map[time.Duration]string", map[time.Duration]string{0: "d0", 1: "d1", time.Second: "ds"})
	add("map[named uint64]string", map[c16KU64]string{0: "u0", 1: "u1", 3: "u3"})
	add("map[named uint8]string", map[c16KU8]string{0: "v0", 2: "v2"})
	add("map[named float64]string", map[c16KF64]string{0: "f0", 1: "f1", 1.5: "f15"})
	add("map[named float32]string", map[c16KF32]string{1: "g1", 1.5: "g15"})
	add("map[named bool]int", map[c16KBool]int{true: 1, false: 2})
	add("map[int64]string", map[int64]string{0: "p0", 1: "p1", -1: "pm"})
	add("map[uint8]string", map[uint8]string{0: "q0", 2: "q2"})
	add("map[float32]string", map[float32]string{1: "r1", 1.5: "r15"})
	add("map[named string]Value(nil)", map[c16KStr]stick.Value(nil))
	return res
}

func c16Containers() []c16Cont {
	msv := map[string]stick.Value{"k": "vk", "1": "one", "": "empty", "true": "T"}
	mss := map[string]string{"k": "v", "1": "uno"}
	msi := map[string]int{"k": 7, "0": 70}
	mis := map[int]string{1: "x", 0: "zero", -1: "neg"}
	mfs := map[float64]string{1.5: "f", 1: "one"}
	mbi := map[bool]int{true: 11}
	mii := map[interface{}]stick.Value{"k": "sk", 1: "int", 1.5: "float"}
	si := []int{10, 20, 30}
	ss := []string{"a", "b"}
	sv := []stick.Value{"x", nil, 3}
	arr := [3]int{7, 8, 9}
	s := c16S{Field: "fv", unexported: 42, c16Emb: c16Emb{5}, PtrSet: &c16Emb{6}}
	ps := &s
	pps := &ps
	toV := func(m interface{}) map[string]stick.Value {
		r := map[string]stick.Value{}
		rv := reflect.ValueOf(m)
		for _, k := range rv.MapKeys() {
			r[k.String()] = rv.MapIndex(k).Interface()
		}
		return r
	}
	vals := func(x interface{}) []stick.Value {
		rv := reflect.ValueOf(x)
		r := make([]stick.Value, rv.Len())
		for i := range r {
			r[i] = rv.Index(i).Interface()
		}
		return r
	}
	base := []c16Cont{
		{"map[string]Value", msv, stringMapExp(msv)},
		{"map[string]string", mss, stringMapExp(toV(mss))},
		{"map[string]int", msi, stringMapExp(toV(msi))},
		{"*map[string]Value", &msv, stringMapExp(msv)},
		{"map[int]string", mis, func(key stick.Value, args []stick.Value) c16Exp {
			if i, ok := key.(int); ok {
				if el, ok := mis[i]; ok {
					return noMethodArgs(args, c16Exp{accept: []stick.Value{el}})
				}
				return noMethodArgs(args, c16Exp{mustErr: true})
			}
			e := c16Exp{errOK: true}
			n := stick.CoerceNumber(key)
			if el, ok := mis[int(n)]; ok && n == float64(int(n)) {
				e.accept = []stick.Value{el}
			} else {
				e.mustErr = true
			}
			return noMethodArgs(args, e)
		}},
		{"map[float64]string", mfs, func(key stick.Value, args []stick.Value) c16Exp {
			if f, ok := key.(float64); ok {
				if el, ok := mfs[f]; ok {
					return noMethodArgs(args, c16Exp{accept: []stick.Value{el}})
				}
				return noMethodArgs(args, c16Exp{mustErr: true})
			}
			e := c16Exp{errOK: true}
			if el, ok := mfs[stick.CoerceNumber(key)]; ok {
				e.accept = []stick.Value{el}
			} else {
				e.mustErr = true
			}
			return noMethodArgs(args, e)
		}},
		{"map[bool]int", mbi, func(key stick.Value, args []stick.Value) c16Exp {
			if b, ok := key.(bool); ok {
				if el, ok := mbi[b]; ok {
					return noMethodArgs(args, c16Exp{accept: []stick.Value{el}})
				}
				return noMethodArgs(args, c16Exp{mustErr: true})
			}
			e := c16Exp{errOK: true}
			if el, ok := mbi[stick.CoerceBool(key)]; ok {
				e.accept = []stick.Value{el}
			} else {
				e.mustErr = true
			}
			return noMethodArgs(args, e)
		}},
		{"map[interface{}]Value", mii, func(key stick.Value, args []stick.Value) c16Exp {
			if key != nil && reflect.TypeOf(key).Comparable() {
				if el, ok := mii[key]; ok {
					return noMethodArgs(args, c16Exp{accept: []stick.Value{el}})
				}
			}
			e := c16Exp{errOK: true}
			for k, el := range mii {
				if stick.CoerceString(k) == stick.CoerceString(key) {
					e.accept = append(e.accept, el)
				}
			}
			if len(e.accept) == 0 {
				e.mustErr = true
			}
			return noMethodArgs(args, e)
		}},
		{"map[string]Value(nil)", map[string]stick.Value(nil), allErr},
		{"map[int]string(nil)", map[int]string(nil), allErr},
		{"[]int", si, seqExp(vals(si))},
		{"[]string", ss, seqExp(vals(ss))},
		{"[]Value", sv, seqExp(sv)},
		{"[3]int", arr, seqExp(vals(arr))},
		{"*[]int", &si, seqExp(vals(si))},
		{"*[3]int", &arr, seqExp(vals(arr))},
		{"[]int(nil)", []int(nil), allErr},
		{"[]int{}", []int{}, allErr},
		{"struct", s, structExp(false, s)},
		{"*struct", ps, structExp(true, s)},
		{"**struct", pps, func(key stick.Value, args []stick.Value) c16Exp {
			e := structExp(true, s)(key, args)
			e.errOK = true // a double pointer need not be dereferenced twice
			if e.mustErr {
				return e
			}
			return e
		}},
		{"(*struct)(nil)", (*c16S)(nil), allErr},
		{"(*[]int)(nil)", (*[]int)(nil), allErr},
		{"nil", nil, allErr},
		{"int", 5, allErr},
		{"string", "str", allErr},
		{"bool", true, allErr},
		{"float64", 2.5, allErr},
	}
	return append(append(base, c16NamedKeyMaps()...), c16EmbPtrConts()...)
}

func c16Keys() []stick.Value {
	return []stick.Value{"k", "missing", "Field", "unexported", "Method", "PtrMethod", "Add", "Greet", "IntArg", "Var", "Join", "Two", "None", "Emb",
		"", 0, 1, 2, -1, 3, 1.0, 1.5, "1", true, false, nil, int8(1), uint(2), "0", "true", []int{1},
		c16KStr("k"), c16KI64(1), time.Duration(1), c16KBool(true), c16KF64(1.5), int64(1), 300, -200.0, uint64(1) << 63,
		"PtrNil", "PtrSet", "SliceNil", "MapNil", "Iface", "P", "Own"}
}

func c16ArgLists() [][]stick.Value {
	atoms := []stick.Value{1.0, "s", nil, 2, []int{}}
	res := [][]stick.Value{{}}
	for _, a := range atoms {
		res = append(res, []stick.Value{a})
	}
	for _, a := range atoms {
		for _, b := range atoms {
			res = append(res, []stick.Value{a, b})
		}
	}
	res = append(res, []stick.Value{1.0, 2.0, 3.0})
	if c16Thorough { // every argument list of length 3 as well
		for _, a := range atoms {
			for _, b := range atoms {
				for _, c := range atoms {
					res = append(res, []stick.Value{a, b, c})
				}
			}
		}
	}
	return res
}

// c16Thorough is set by the level generator (and, in workers, re-derived from the case: argument-list indices beyond
// the quick tier's 32 lists only exist in the thorough tier)
var c16Thorough bool

func tryGetAttr(v, k stick.Value, args []stick.Value) (res stick.Value, err error, pan string) {
	defer func() {
		if p := recover(); p != nil {
			pan = panicInfo(p)
		}
	}()
	res, err = stick.GetAttr(v, k, args...)
	return
}

func c16Attr(ci, ki, ai int) core.Result {
	if ai >= 32 {
		c16Thorough = true
	}
	conts, keys, als := c16Containers(), c16Keys(), c16ArgLists()
	if ci >= len(conts) || ki >= len(keys) || ai >= len(als) {
		return core.Skipped("index")
	}
	c, k, args := conts[ci], keys[ki], als[ai]
	desc := fmt.Sprintf("GetAttr(%s, %#v, args=%#v)", c.name, k, args)
	exp := c.exp(k, args)
	got, err, pan := tryGetAttr(c.v, k, args)
	if pan != "" {
		return core.Violation("panic", desc+" panicked: "+pan)
	}
	out := fmt.Sprintf("%#v/%v", got, err != nil)
	if exp.any {
		return core.Okay(false, out)
	}
	if err != nil {
		if exp.mustErr || exp.errOK {
			return core.Okay(true, out)
		}
		return core.Violation("spurious-error", fmt.Sprintf("%s returned error %q but the element exists: want %#v", desc, err, exp.accept))
	}
	if exp.mustErr {
		return core.Violation("missing-error", fmt.Sprintf("%s returned (%#v, nil); an error is required", desc, got))
	}
	for _, a := range exp.accept {
		if reflect.DeepEqual(a, got) {
			return core.Okay(true, out)
		}
	}
	return core.Violation("wrong-element", fmt.Sprintf("%s returned %#v, want one of %#v", desc, got, exp.accept))
}

// ---- iteration ----

type c16Seq struct {
	name string
	mk   func(n int) (v stick.Value, keys []stick.Value, vals []stick.Value, ordered bool, isMap bool)
	iter bool
	maxN int
}

func c16Seqs() []c16Seq {
	ints := func(n int) []int {
		r := make([]int, n)
		for i := range r {
			r[i] = 100 + i
		}
		return r
	}
	idxKeys := func(n int) []stick.Value {
		r := make([]stick.Value, n)
		for i := range r {
			r[i] = i
		}
		return r
	}
	toVals := func(x []int) []stick.Value {
		r := make([]stick.Value, len(x))
		for i := range r {
			r[i] = x[i]
		}
		return r
	}
	return []c16Seq{
		{"[]int", func(n int) (stick.Value, []stick.Value, []stick.Value, bool, bool) {
			x := ints(n)
			return x, idxKeys(n), toVals(x), true, false
		}, true, 8},
		{"[]string", func(n int) (stick.Value, []stick.Value, []stick.Value, bool, bool) {
			x := make([]string, n)
			v := make([]stick.Value, n)
			for i := range x {
				x[i] = "s" + itoa(i)
				v[i] = x[i]
			}
			return x, idxKeys(n), v, true, false
		}, true, 8},
		{"[]Value", func(n int) (stick.Value, []stick.Value, []stick.Value, bool, bool) {
			v := make([]stick.Value, n)
			for i := range v {
				if i%3 == 1 {
					v[i] = nil
				} else {
					v[i] = "v" + itoa(i)
				}
			}
			return v, idxKeys(n), v, true, false
		}, true, 8},
		{"[N]int", func(n int) (stick.Value, []stick.Value, []stick.Value, bool, bool) {
			x := ints(n)
			a := reflect.New(reflect.ArrayOf(n, reflect.TypeOf(0))).Elem()
			for i := range x {
				a.Index(i).SetInt(int64(x[i]))
			}
			return a.Interface(), idxKeys(n), toVals(x), true, false
		}, true, 8},
		{"*[]int", func(n int) (stick.Value, []stick.Value, []stick.Value, bool, bool) {
			x := ints(n)
			return &x, idxKeys(n), toVals(x), true, false
		}, true, 8},
		{"*[N]int", func(n int) (stick.Value, []stick.Value, []stick.Value, bool, bool) {
			x := ints(n)
			a := reflect.New(reflect.ArrayOf(n, reflect.TypeOf(0)))
			for i := range x {
				a.Elem().Index(i).SetInt(int64(x[i]))
			}
			return a.Interface(), idxKeys(n), toVals(x), true, false
		}, true, 8},
		{"map[string]int", func(n int) (stick.Value, []stick.Value, []stick.Value, bool, bool) {
			m := map[string]int{}
			var ks, vs []stick.Value
			for i := 0; i < n; i++ {
				m["k"+itoa(i)] = 100 + i
				ks = append(ks, "k"+itoa(i))
				vs = append(vs, 100+i)
			}
			return m, ks, vs, false, true
		}, true, 8},
		{"map[int]string", func(n int) (stick.Value, []stick.Value, []stick.Value, bool, bool) {
			m := map[int]string{}
			var ks, vs []stick.Value
			for i := 0; i < n; i++ {
				m[i*7] = "v" + itoa(i)
				ks = append(ks, i*7)
				vs = append(vs, "v"+itoa(i))
			}
			return m, ks, vs, false, true
		}, true, 8},
		{"*map[string]Value", func(n int) (stick.Value, []stick.Value, []stick.Value, bool, bool) {
			m := map[string]stick.Value{}
			var ks, vs []stick.Value
			for i := 0; i < n; i++ {
				m["k"+itoa(i)] = "v" + itoa(i)
				ks = append(ks, "k"+itoa(i))
				vs = append(vs, "v"+itoa(i))
			}
			return &m, ks, vs, false, true
		}, true, 8},
		{"[]int(nil)", func(n int) (stick.Value, []stick.Value, []stick.Value, bool, bool) {
			return []int(nil), nil, nil, true, false
		}, true, 0},
		{"map[string]int(nil)", func(n int) (stick.Value, []stick.Value, []stick.Value, bool, bool) {
			return map[string]int(nil), nil, nil, false, true
		}, true, 0},
		{"nil", func(n int) (stick.Value, []stick.Value, []stick.Value, bool, bool) {
			return nil, nil, nil, true, false
		}, true, 0},
		{"int", func(n int) (stick.Value, []stick.Value, []stick.Value, bool, bool) { return 5, nil, nil, false, false }, false, 0},
		{"string", func(n int) (stick.Value, []stick.Value, []stick.Value, bool, bool) {
			return "abc", nil, nil, false, false
		}, false, 0},
		{"bool", func(n int) (stick.Value, []stick.Value, []stick.Value, bool, bool) {
			return true, nil, nil, false, false
		}, false, 0},
		{"struct", func(n int) (stick.Value, []stick.Value, []stick.Value, bool, bool) {
			return c16S{}, nil, nil, false, false
		}, false, 0},
		{"*struct", func(n int) (stick.Value, []stick.Value, []stick.Value, bool, bool) {
			return &c16S{}, nil, nil, false, false
		}, false, 0},
		{"float64", func(n int) (stick.Value, []stick.Value, []stick.Value, bool, bool) {
			return 1.5, nil, nil, false, false
		}, false, 0},
		// zero values: a container of zeros is not empty, a zero scalar is not iterable
		{"[N]int of zeros", func(n int) (stick.Value, []stick.Value, []stick.Value, bool, bool) {
			a := reflect.New(reflect.ArrayOf(n, reflect.TypeOf(0))).Elem()
			v := make([]stick.Value, n)
			for i := range v {
				v[i] = 0
			}
			return a.Interface(), idxKeys(n), v, true, false
		}, true, 8},
		{"[]string of empty strings", func(n int) (stick.Value, []stick.Value, []stick.Value, bool, bool) {
			x := make([]string, n)
			v := make([]stick.Value, n)
			for i := range v {
				v[i] = ""
			}
			return x, idxKeys(n), v, true, false
		}, true, 8},
		{"int 0", func(n int) (stick.Value, []stick.Value, []stick.Value, bool, bool) { return 0, nil, nil, false, false }, false, 0},
		{"empty string", func(n int) (stick.Value, []stick.Value, []stick.Value, bool, bool) { return "", nil, nil, false, false }, false, 0},
		{"false", func(n int) (stick.Value, []stick.Value, []stick.Value, bool, bool) {
			return false, nil, nil, false, false
		}, false, 0},
		{"zero struct", func(n int) (stick.Value, []stick.Value, []stick.Value, bool, bool) {
			return c16Emb{}, nil, nil, false, false
		}, false, 0},
		// containers whose Go type also has a String method
		{"named []string with String()", func(n int) (stick.Value, []stick.Value, []stick.Value, bool, bool) {
			x := make(c16Tags, n)
			v := make([]stick.Value, n)
			for i := range x {
				x[i] = "tag" + itoa(i)
				v[i] = x[i]
			}
			return x, idxKeys(n), v, true, false
		}, true, 8},
		{"named map[string]int with String()", func(n int) (stick.Value, []stick.Value, []stick.Value, bool, bool) {
			m := c16Counts{}
			var ks, vs []stick.Value
			for i := 0; i < n; i++ {
				m["k"+itoa(i)] = 100 + i
				ks = append(ks, "k"+itoa(i))
				vs = append(vs, 100+i)
			}
			return m, ks, vs, false, true
		}, true, 8},
		{"net.IP", func(n int) (stick.Value, []stick.Value, []stick.Value, bool, bool) {
			ip := make(net.IP, n)
			v := make([]stick.Value, n)
			for i := range ip {
				ip[i] = byte(10 + i)
				v[i] = ip[i]
			}
			return ip, idxKeys(n), v, true, false
		}, true, 8},
		{"pointer to named slice with pointer-receiver String()", func(n int) (stick.Value, []stick.Value, []stick.Value, bool, bool) {
			x := make(c16PTags, n)
			v := make([]stick.Value, n)
			for i := range x {
				x[i] = 7 * i
				v[i] = x[i]
			}
			return &x, idxKeys(n), v, true, false
		}, true, 8},
		// maps with interface-typed keys of different kinds
		{"map[interface{}]interface{} with int, string, float, bool and uint8 keys", func(n int) (stick.Value, []stick.Value, []stick.Value, bool, bool) {
			m := map[interface{}]interface{}{}
			var ks, vs []stick.Value
			for i := 0; i < n; i++ {
				var k interface{}
				switch i % 5 {
				case 0:
					k = i
				case 1:
					k = "k" + itoa(i)
				case 2:
					k = float64(i) + 0.5
				case 3:
					k = i%2 == 1 && i > 5
					if i > 3 {
						k = uint8(i) // a second bool key would collide
					}
				default:
					k = uint8(i)
				}
				m[k] = "v" + itoa(i)
				ks = append(ks, k)
				vs = append(vs, "v"+itoa(i))
			}
			return m, ks, vs, false, true
		}, true, 8},
		{"map[named string]int", func(n int) (stick.Value, []stick.Value, []stick.Value, bool, bool) {
			m := map[c16KStr]int{}
			var ks, vs []stick.Value
			for i := 0; i < n; i++ {
				m[c16KStr("k"+itoa(i))] = i
				ks = append(ks, c16KStr("k"+itoa(i)))
				vs = append(vs, i)
			}
			return m, ks, vs, false, true
		}, true, 8},
		// the types templates and hosts build most often: the hash type itself and the array of values
		{"map[string]Value", func(n int) (stick.Value, []stick.Value, []stick.Value, bool, bool) {
			m := map[string]stick.Value{}
			var ks, vs []stick.Value
			for i := 0; i < n; i++ {
				var val stick.Value = "v" + itoa(i)
				if i%3 == 1 {
					val = i * 11
				}
				m["k"+itoa(i)] = val
				ks = append(ks, "k"+itoa(i))
				vs = append(vs, val)
			}
			return m, ks, vs, false, true
		}, true, 8},
		{"map[string]Value whose values are numeric strings and keys digits", func(n int) (stick.Value, []stick.Value, []stick.Value, bool, bool) {
			m := map[string]stick.Value{}
			var ks, vs []stick.Value
			for i := 0; i < n; i++ {
				m[itoa(i)] = itoa(100 + i)
				ks = append(ks, itoa(i))
				vs = append(vs, itoa(100+i))
			}
			return m, ks, vs, false, true
		}, true, 8},
		{"map[string]string", func(n int) (stick.Value, []stick.Value, []stick.Value, bool, bool) {
			m := map[string]string{}
			var ks, vs []stick.Value
			for i := 0; i < n; i++ {
				m["k"+itoa(i)] = "v" + itoa(i)
				ks = append(ks, "k"+itoa(i))
				vs = append(vs, "v"+itoa(i))
			}
			return m, ks, vs, false, true
		}, true, 8},
		{"map[string]interface{}", func(n int) (stick.Value, []stick.Value, []stick.Value, bool, bool) {
			m := map[string]interface{}{}
			var ks, vs []stick.Value
			for i := 0; i < n; i++ {
				m["k"+itoa(i)] = float64(i) + 0.5
				ks = append(ks, "k"+itoa(i))
				vs = append(vs, float64(i)+0.5)
			}
			return m, ks, vs, false, true
		}, true, 8},
		// typed nil pointers to containers: nothing to traverse, and the predicates say so
		{"(*[]string)(nil)", func(n int) (stick.Value, []stick.Value, []stick.Value, bool, bool) {
			return (*[]string)(nil), nil, nil, false, false
		}, false, 0},
		{"(*map[string]int)(nil)", func(n int) (stick.Value, []stick.Value, []stick.Value, bool, bool) {
			return (*map[string]int)(nil), nil, nil, false, false
		}, false, 0},
		{"(*[2]int)(nil)", func(n int) (stick.Value, []stick.Value, []stick.Value, bool, bool) {
			return (*[2]int)(nil), nil, nil, false, false
		}, false, 0},
		{"(*map[string]Value)(nil)", func(n int) (stick.Value, []stick.Value, []stick.Value, bool, bool) {
			return (*map[string]stick.Value)(nil), nil, nil, false, false
		}, false, 0},
	}
}

type c16Tags []string

func (t c16Tags) String() string { return strings.Join(t, ", ") }

type c16Counts map[string]int

func (c c16Counts) String() string { return fmt.Sprintf("counts(%d entries)", len(c)) }

type c16PTags []int

func (t *c16PTags) String() string { return fmt.Sprint([]int(*t)) }

type c16Step struct {
	k, v stick.Value
	l    stick.Loop
}

// failTogether: the failing callback also asks to stop (as the executor's loop body does)
var failTogether bool

// growDuring, if set, is called by the callback at every step (it inserts new entries into the map being iterated:
// the traversal visits what the map held when it started, as the announced length says)
var growDuring func(step int)

func tryIterate(v stick.Value, brkAt int, failAt int) (steps []c16Step, count int, err error, pan string) {
	defer func() {
		if p := recover(); p != nil {
			pan = panicInfo(p)
		}
	}()
	count, err = stick.Iterate(v, func(k, val stick.Value, l stick.Loop) (bool, error) {
		steps = append(steps, c16Step{k, val, l})
		if growDuring != nil {
			growDuring(len(steps))
		}
		if len(steps)-1 == failAt {
			return failTogether, errors.New("stop")
		}
		return len(steps)-1 == brkAt, nil
	})
	return
}

// brk: -1 none; otherwise break (mode 0) or error (mode 1) at that step
func c16Iter(si, n, brk, mode int) core.Result {
	seqs := c16Seqs()
	if si >= len(seqs) {
		return core.Skipped("index")
	}
	sq := seqs[si]
	v, keys, vals, ordered, isMap := sq.mk(n)
	desc := fmt.Sprintf("%s of length %d", sq.name, n)
	brkAt, failAt := -1, -1
	if brk >= 0 {
		if mode == 0 {
			brkAt = brk
		} else {
			failAt = brk
		}
	}
	failTogether = mode == 2
	growDuring = nil
	if mode == 3 {
		rv := reflect.Indirect(reflect.ValueOf(v))
		if !rv.IsValid() || rv.Kind() != reflect.Map || rv.IsNil() || !isMap {
			return core.Skipped("not-a-growable-map")
		}
		kt, et := rv.Type().Key(), rv.Type().Elem()
		growDuring = func(step int) {
			for j := 0; j < 3; j++ {
				var nk reflect.Value
				switch kt.Kind() {
				case reflect.String:
					nk = reflect.ValueOf(fmt.Sprintf("zz%d_%d", step, j)).Convert(kt)
				case reflect.Int:
					nk = reflect.ValueOf(100000 + step*10 + j).Convert(kt)
				case reflect.Interface:
					nk = reflect.ValueOf(fmt.Sprintf("zz%d_%d", step, j))
				default:
					return
				}
				rv.SetMapIndex(nk, reflect.Zero(et))
			}
		}
		defer func() { growDuring = nil }()
		brkAt, failAt = -1, -1
	}
	steps, count, err, pan := tryIterate(v, brkAt, failAt)
	if pan != "" {
		return core.Violation("panic", "Iterate over "+desc+" panicked: "+pan)
	}
	// predicates
	var preds [4]interface{}
	func() {
		defer func() {
			if p := recover(); p != nil {
				pan = panicInfo(p)
			}
		}()
		l, lerr := stick.Len(v)
		preds = [4]interface{}{stick.IsIterable(v), stick.IsArray(v), stick.IsMap(v), fmt.Sprint(l, lerr != nil)}
	}()
	if pan != "" {
		return core.Violation("panic", "Len/IsIterable/IsArray/IsMap on "+desc+" panicked: "+pan)
	}
	if !sq.iter {
		if err == nil {
			return core.Violation("missing-error", "Iterate over non-iterable "+desc+" returned no error")
		}
		if len(steps) != 0 {
			return core.Violation("visit", "Iterate over non-iterable "+desc+" invoked the callback")
		}
		if preds[0] != false || preds[1] != false || preds[2] != false || preds[3] != "0 true" {
			return core.Violation("predicates", fmt.Sprintf("%s: IsIterable/IsArray/IsMap/Len = %v", desc, preds))
		}
		return core.Okay(true, "non-iterable")
	}
	wantArr := !isMap && v != nil
	wantMap := isMap
	if mode != 3 && (preds[0] != true || preds[1] != wantArr || preds[2] != wantMap || preds[3] != fmt.Sprint(n, false)) {
		return core.Violation("predicates", fmt.Sprintf("%s: IsIterable/IsArray/IsMap/Len = %v, want [true %v %v %d false]", desc, preds, wantArr, wantMap, n))
	}
	wantSteps := n
	if brk >= 0 && brk < n {
		wantSteps = brk + 1
	}
	if failAt >= 0 && failAt < n {
		if err == nil {
			return core.Violation("error-lost", "Iterate over "+desc+" swallowed the callback's error")
		}
	} else if err != nil {
		return core.Violation("spurious-error", "Iterate over "+desc+" returned "+err.Error())
	}
	if len(steps) != wantSteps || count != wantSteps {
		return core.Violation("visit", fmt.Sprintf("Iterate over %s (break/error at %d): callback ran %d times, returned count %d, want %d", desc, brk, len(steps), count, wantSteps))
	}
	seenKeys := map[string]int{}
	for i, st := range steps {
		l := st.l
		if l.Index0 != i || l.Index != i+1 || l.Length != n || l.Revindex0 != n-1-i || l.Revindex != n-i || l.First != (i == 0) || l.Last != (i == n-1) {
			return core.Violation("loop-metadata", fmt.Sprintf("%s step %d: %+v", desc, i, l))
		}
		if ordered {
			if !reflect.DeepEqual(st.k, keys[i]) || !reflect.DeepEqual(st.v, vals[i]) {
				return core.Violation("visit", fmt.Sprintf("%s step %d: got (%#v, %#v), want (%#v, %#v)", desc, i, st.k, st.v, keys[i], vals[i]))
			}
		} else {
			found := false
			for j := range keys {
				if reflect.DeepEqual(st.k, keys[j]) {
					found = true
					if !reflect.DeepEqual(st.v, vals[j]) {
						return core.Violation("visit", fmt.Sprintf("%s: key %#v visited with value %#v, want %#v", desc, st.k, st.v, vals[j]))
					}
				}
			}
			if !found {
				return core.Violation("visit", fmt.Sprintf("%s: visited unknown key %#v", desc, st.k))
			}
			seenKeys[fmt.Sprintf("%#v", st.k)]++
			if seenKeys[fmt.Sprintf("%#v", st.k)] > 1 {
				return core.Violation("visit", fmt.Sprintf("%s: key %#v visited twice", desc, st.k))
			}
		}
	}
	// containment agrees with the traversal
	if brk < 0 {
		for _, el := range vals {
			ok, cerr := stick.Contains(v, el)
			if cerr != nil || !ok {
				return core.Violation("contains", fmt.Sprintf("Contains(%s, %#v) = %v, %v", desc, el, ok, cerr))
			}
		}
		ok, cerr := stick.Contains(v, "absent-element")
		if cerr != nil || ok {
			return core.Violation("contains", fmt.Sprintf("Contains(%s, absent) = %v, %v", desc, ok, cerr))
		}
		// containment is about the elements the traversal visits: a key that equals none of them is not contained
		if isMap && mode != 3 {
			for _, k := range keys {
				isVal := false
				for _, el := range vals {
					if stick.Equal(el, k) {
						isVal = true
					}
				}
				if ok, _ := stick.Contains(v, k); ok && !isVal {
					return core.Violation("contains", fmt.Sprintf("Contains(%s, %#v) is true: that is a key, none of the values %v", desc, k, vals))
				}
			}
		}
		// the keys filter names what the traversal reports as keys (strings as they are, integers in decimal digits),
		// and each of those names looks up an element of the container
		if isMap && mode != 3 && len(keys) == len(vals) {
			simple := true
			var wantKeys []string
			for _, k := range keys {
				switch reflect.ValueOf(k).Kind() {
				case reflect.String, reflect.Int, reflect.Int8, reflect.Int16, reflect.Int32, reflect.Int64, reflect.Uint, reflect.Uint8, reflect.Uint16, reflect.Uint32, reflect.Uint64:
					wantKeys = append(wantKeys, fmt.Sprint(k))
				default:
					simple = false
				}
			}
			if rt := reflect.Indirect(reflect.ValueOf(v)); !rt.IsValid() || rt.Kind() != reflect.Map || rt.Type().Key().Kind() == reflect.Interface {
				simple = false // (a key of an interface-keyed map is not reachable through its spelling)
			}
			if simple {
				sort.Strings(wantKeys)
				src := "{% for k in v|keys %}{{ k }}\x1f{% endfor %}\x1e{% for k in v|keys %}{{ v[k] in vals ? 'Y' : 'N' }}{{ k in v|keys ? 'Y' : 'N' }}{% endfor %}\x1e{{ v|keys|length }}"
				out, err, pan := tryExec(twig.New(nil), src, map[string]stick.Value{"v": v, "vals": vals})
				if pan != "" || err != nil {
					return core.Violation("visit", fmt.Sprintf("the keys of %s and the elements under them: %v %s", desc, err, pan))
				}
				parts := strings.Split(out, "\x1e")
				got := strings.Split(strings.TrimSuffix(parts[0], "\x1f"), "\x1f")
				if len(keys) == 0 {
					got = nil
				}
				sort.Strings(got)
				if !reflect.DeepEqual(got, wantKeys) || parts[1] != strings.Repeat("YY", len(keys)) || parts[2] != itoa(len(keys)) {
					return core.Violation("visit", fmt.Sprintf("v|keys with v = %s lists %q (want %q); looking each up in v and in v|keys gives %q (want all Y); v|keys|length is %s", desc, got, wantKeys, parts[1], parts[2]))
				}
			}
		}
		// ... and so do the template operators 'in' / 'not in': for every element, every key and an absent value as the
		// needle they give what Contains gives (core and twig environments)
		needles := append(append([]stick.Value{}, vals...), "absent-element")
		for _, k := range keys {
			needles = append(needles, k)
		}
		want := ""
		for _, nd := range needles {
			ok, cerr := stick.Contains(v, nd)
			if cerr != nil {
				want = ""
				break
			}
			if ok {
				want += "YN"
			} else {
				want += "NY"
			}
		}
		if want != "" {
			for ei, env := range []*stick.Env{stick.New(nil), twig.New(nil)} {
				out, err, pan := tryExec(env, "{% for e in needles %}{{ e in v ? 'Y' : 'N' }}{{ e not in v ? 'Y' : 'N' }}{% endfor %}", map[string]stick.Value{"v": v, "needles": needles})
				if pan != "" || err != nil {
					return core.Violation("contains", fmt.Sprintf("'e in v' with v = %s (environment %d): %v %s", desc, ei, err, pan))
				}
				if out != want {
					return core.Violation("contains", fmt.Sprintf("'e in v' / 'e not in v' with v = %s over the needles %#v (environment %d) give %q, Contains gives %q", desc, needles, ei, out, want))
				}
			}
			// ... and what the Twig filters derive from the container still holds every element: merged with an empty
			// list it has n elements and contains each of them; reversed, sorted into a list or batched likewise
			tenv := twig.New(nil)
			src := "{{ v|merge([])|length }};{% for e in vals %}{{ e in v|merge([]) ? 'Y' : 'N' }}{% endfor %};{{ v|length }}"
			out, err, pan := tryExec(tenv, src, map[string]stick.Value{"v": v, "vals": vals})
			if pan != "" || err != nil {
				return core.Violation("contains", fmt.Sprintf("%q with v = %s: %v %s", src, desc, err, pan))
			}
			// every built-in filter applied to the container (twice, and to a copy merged from it) leaves it as it was:
			// the traversal afterwards visits what it visited before
			if mode != 3 { // (in mode 3 every traversal grows the map)
				steps, _, _, _ := tryIterate(v, -1, -1) // (the traversal as it is now: a map that grew during the first one has more)
				for _, f := range c02FilterNames() {
					tryExec(tenv, "{% set t = v|"+f+" %}{% set t2 = v|"+f+"|"+f+" %}{% set a = v|merge(['x']) %}{% set b = v|merge(['y']) %}{{ a|join }}", map[string]stick.Value{"v": v})
				}
				// two values derived from one list stay apart (the list itself given spare capacity, as slices built by
				// append have)
				if sl, isList := v.([]stick.Value); isList {
					roomy := append(make([]stick.Value, 0, len(sl)+8), sl...)
					out, err, pan := tryExec(tenv, "{% set a = v|merge(['x']) %}{% set b = v|merge(['y']) %}{% set c = a|merge(['z']) %}{{ a|last }}{{ b|last }}{{ c|last }}{{ a|length }}", map[string]stick.Value{"v": roomy})
					if want := "xyz" + itoa(len(sl)+1); pan != "" || err != nil || out != want {
						return core.Violation("visit", fmt.Sprintf("two lists merged from %s (with spare capacity): %q (%v %s), want %q", desc, out, err, pan, want))
					}
				}
				steps2, _, err2, pan2 := tryIterate(v, -1, -1)
				if pan2 != "" || err2 != nil || len(steps2) != len(steps) {
					return core.Violation("visit", fmt.Sprintf("after the built-in filters were applied to %s, Iterate visits %d elements (%v %s); before, %d", desc, len(steps2), err2, pan2, len(steps)))
				}
				if ordered {
					for i := range steps2 {
						if !reflect.DeepEqual(steps2[i].v, steps[i].v) {
							return core.Violation("visit", fmt.Sprintf("after the built-in filters were applied to %s, element %d is %#v; it was %#v", desc, i, steps2[i].v, steps[i].v))
						}
					}
				}
			}
			ln, _ := stick.Len(v) // (checked against the traversal above; a map that grew during it has more than n)
			if wantM := itoa(ln) + ";" + strings.Repeat("Y", len(vals)) + ";" + itoa(ln); out != wantM && v != nil {
				return core.Violation("contains", fmt.Sprintf("%q with v = %s renders %q, want %q (every element survives a merge with nothing)", src, desc, out, wantM))
			}
		}
	}
	var ks []string
	for k := range seenKeys {
		ks = append(ks, k)
	}
	sort.Strings(ks)
	return core.Okay(true, fmt.Sprint(n, brk, mode, strings.Join(ks, ",")))
}

// c16Tpl drives the same (container, key) pairs through templates: {{ c[k] }} must not panic and,
// when the direct lookup yields an element, must print it.
type c16Calc struct{ Base int }

func (c c16Calc) Add(a, b int) int             { return a + b }
func (c c16Calc) Double(a int) int             { return 2 * a }
func (c c16Calc) Join3(a, b, c2 string) string { return a + "-" + b + "-" + c2 }
func (c c16Calc) Str(a int) string             { return "s" + itoa(a) }

// c16Nested: method calls whose arguments are method calls, in a loop and twice in a row: every call receives its
// own arguments (an argument buffer shared between an outer call and the calls in its arguments would not).
func c16Nested(form int) core.Result {
	if form >= 9 {
		tpls := map[string]string{
			"base":  "{% for v in seq %}{% block row %}-{% endblock %}{% endfor %}|{% for o in [1, 2] %}{% for v in seq %}{% block cell %}.{% endblock %}{% endfor %}{% endfor %}",
			"child": "{% extends 'base' %}{% block row %}{{ v }}:{{ loop.index }}/{{ loop.length }}{{ loop.last ? '!' : ',' }}{% endblock %}{% block cell %}{{ loop.parent.index }}{{ loop.index0 }}{% endblock %}",
			"comp":  "{% block row %}[{{ v }}:{{ loop.index }}/{{ loop.revindex }}]{% endblock %}|{% for v in seq %}{{ block('r' ~ 'ow') }}{% endfor %}",
		}
		name := []string{"child", "comp"}[form-9]
		want := []string{"a:1/3,b:2/3,c:3/3!|101112202122", "[:/]|[a:1/3][b:2/2][c:3/1]"}[form-9]
		out, err, pan := tryExec(stick.New(&stick.MemoryLoader{Templates: tpls}), name, map[string]stick.Value{"seq": []string{"a", "b", "c"}})
		if pan != "" || err != nil || out != want {
			return core.Violation("loop-metadata", fmt.Sprintf("%q renders %q (%v %s), want %q", tpls[name], out, err, pan, want))
		}
		return core.Okay(true, out)
	}
	if form >= 6 {
		// attribute names written as numbers after a dot: the key is the text as written
		m := map[string]stick.Value{"007": "a", "7": "b", "1.50": "c", "1.5": "d", "1": map[string]stick.Value{"0": "e", "50": "f"}, "12345678901234567890": "g", "0": "z"}
		src := []string{"{{ m.007 }}|{{ m.7 }}|{{ m['007'] }}|{{ m.0 }}", "{{ m.12345678901234567890 }}|{{ m['12345678901234567890'] }}", "{{ m.1.50 }}|{{ m.1.0 }}|{{ m['1.50'] }}|{{ m['1.5'] }}"}[form-6]
		want := []string{"a|b|a|z", "g|g", "c||c|d"}[form-6] // (m.1.50 is the key "1.50" as written; "1.0" does not exist)
		out, err, pan := tryExec(stick.New(nil), src, map[string]stick.Value{"m": m})
		if pan != "" || err != nil || out != want {
			return core.Violation("method-args", fmt.Sprintf("%q with m = %v renders %q (%v %s), want %q", src, m, out, err, pan, want))
		}
		return core.Okay(true, out)
	}
	src := []string{
		"{% for i in [1, 2, 3] %}{{ calc.Add(100, calc.Double(i)) }},{% endfor %}",
		"{{ calc.Add(calc.Double(5), calc.Double(2)) }}|{{ calc.Add(calc.Double(5), calc.Double(2)) }}",
		"{{ calc.Join3(calc.Str(1), calc.Join3('a', calc.Str(2), 'b'), calc.Str(3)) }}",
		"{% for i in [1, 2] %}{{ calc.Add(calc.Add(i, 10), calc.Add(calc.Double(i), calc.Add(1, 1))) }};{% endfor %}",
		"{% macro m(a, b) %}<{{ a }}|{{ b }}>{% endmacro %}{% for i in [1, 2] %}{{ _self.m('k', calc.Double(i)) }}{{ _self.m(calc.Add(i, 1), calc.Str(i)) }}{% endfor %}",
		"{{ calc.Add(1, 2) }}{{ calc.Add(3, calc.Add(4, 5)) }}{{ calc.Double(calc.Double(calc.Double(1))) }}",
	}[form]
	want := []string{"102,104,106,", "14|14", "s1-a-s2-b-s3", "15;18;", "<k|2><2|s1><k|4><3|s2>", "3128"}[form]
	out, err, pan := tryExec(stick.New(nil), src, map[string]stick.Value{"calc": c16Calc{}})
	if pan != "" || err != nil || out != want {
		return core.Violation("method-args", fmt.Sprintf("%q renders %q (%v %s), want %q", src, out, err, pan, want))
	}
	return core.Okay(true, out)
}

func c16Tpl(ci, ki int) core.Result {
	conts, keys := c16Containers(), c16Keys()
	if ci >= len(conts) || ki >= len(keys) {
		return core.Skipped("index")
	}
	c, k := conts[ci], keys[ki]
	env := stick.New(nil)
	out, err, pan := tryExec(env, "[{{ c[k] }}]", map[string]stick.Value{"c": c.v, "k": k})
	desc := fmt.Sprintf("{{ c[k] }} with c=%s k=%#v", c.name, k)
	if pan != "" {
		return core.Violation("panic", desc+" panicked: "+pan)
	}
	el, gerr, gpan := tryGetAttr(c.v, k, nil)
	if gpan == "" && gerr == nil && err == nil {
		if want := "[" + stick.CoerceString(el) + "]"; out != want {
			return core.Violation("wrong-output", fmt.Sprintf("%s rendered %q, want %q", desc, out, want))
		}
	}
	return core.Okay(true, out+errStr(err))
}

// c16LenTpl: in a twig environment the length filter agrees with the traversal: {{ c|length }} is the number
// of iterations of {% for v in c %}, which is the carrier's size.
func c16LenTpl(si, n int) core.Result {
	seqs := c16Seqs()
	if si >= len(seqs) || !seqs[si].iter {
		return core.Skipped("index")
	}
	v, _, _, _, _ := seqs[si].mk(n)
	if v == nil {
		return core.Skipped("nil-carrier")
	}
	env := twig.New(nil)
	out, err, pan := tryExec(env, "{{ c|length }}|{% for v in c %}x{% endfor %}|", map[string]stick.Value{"c": v})
	desc := fmt.Sprintf("{{ c|length }} and {%% for v in c %%} with c = %s of length %d", seqs[si].name, n)
	if pan != "" {
		return core.Violation("panic", desc+" panicked: "+pan)
	}
	if err != nil {
		return core.Violation("error", desc+" fail: "+err.Error())
	}
	want := itoa(n) + "|" + strings.Repeat("x", n) + "|"
	if out != want {
		return core.Violation("length-disagrees", fmt.Sprintf("%s render %q, want %q...", desc, out, want))
	}
	return core.Okay(true, out)
}

// two different struct types that print the same ("checks.row"): function-local types of one name
func c16Row1() stick.Value {
	type row struct {
		ID   int
		Name string
	}
	return row{1, "n1"}
}

func c16Row2() stick.Value {
	type row struct {
		Name  string
		Extra int
		ID    int
	}
	return row{"n2", 9, 2}
}

func c16Row3() stick.Value {
	type row struct{ Extra string }
	return &row{"e3"}
}

// c16SameName: attribute lookups on distinct types of the same printed name, in every order, directly and through
// a template: each value answers for its own layout.
func c16SameName(perm int) core.Result {
	vals := []stick.Value{c16Row1(), c16Row2(), c16Row3()}
	want := []map[string]string{{"ID": "1", "Name": "n1", "Extra": "ERR"}, {"ID": "2", "Name": "n2", "Extra": "9"}, {"ID": "ERR", "Name": "ERR", "Extra": "e3"}}
	orders := [][]int{{0, 1, 2}, {0, 2, 1}, {1, 0, 2}, {1, 2, 0}, {2, 0, 1}, {2, 1, 0}}
	attrs := [][]string{{"ID", "Name", "Extra"}, {"Extra", "Name", "ID"}, {"Name", "Extra", "ID"}}
	for round := 0; round < 2; round++ {
		for _, a := range attrs[perm%3] {
			for _, vi := range orders[perm/3%6] {
				got, err, pan := tryGetAttr(vals[vi], a, nil)
				if pan != "" {
					return core.Violation("panic", fmt.Sprintf("GetAttr(%T #%d, %q) panicked: %s", vals[vi], vi+1, a, pan))
				}
				g := "ERR"
				if err == nil {
					g = stick.CoerceString(got)
				}
				if g != want[vi][a] {
					return core.Violation("wrong-element", fmt.Sprintf("GetAttr(%#v, %q) = %q (err %v), want %q; other types of the same printed name %T were looked up before", vals[vi], a, g, err, want[vi][a], vals[vi]))
				}
			}
		}
	}
	out, err, pan := tryExec(stick.New(nil), "{{ a.Name }}/{{ b.Name }}/{{ b.ID }}/{{ a.ID }}/{{ c.Extra }}/{{ b.Extra }}", map[string]stick.Value{"a": vals[0], "b": vals[1], "c": vals[2]})
	if pan != "" || err != nil || out != "n1/n2/2/1/e3/9" {
		return core.Violation("wrong-output", fmt.Sprintf("template over same-named types renders %q (%v %s), want n1/n2/2/1/e3/9", out, err, pan))
	}
	return core.Okay(true, out)
}

func c16Levels(tier string) []core.Level {
	c16Thorough = thorough(tier)
	return []core.Level{
		{Name: "three struct types of the same printed name and different layouts, looked up in every order (a cache keyed by the type's name would confuse them)", Gen: func(emit func(core.Case)) {
			for p := 0; p < 18; p++ {
				emit(core.Case{Fam: "samename", N: []int{p}})
			}
		}},
		{Name: "GetAttr: every container x every key x every argument list of length 0..2 (+ one of length 3; thorough: every list of length 3)", Gen: func(emit func(core.Case)) {
			nc, nk, na := len(c16Containers()), len(c16Keys()), len(c16ArgLists())
			for a := 0; a < na; a++ { // simplest first: no arguments
				for c := 0; c < nc; c++ {
					for k := 0; k < nk; k++ {
						emit(core.Case{Fam: "attr", N: []int{c, k, a}})
					}
				}
			}
		}},
		{Name: "Iterate/Len/Contains/IsIterable/IsArray/IsMap: every carrier x length 0..8 x {no break, break at i, error at i, error and break together at i}", Gen: func(emit func(core.Case)) {
			for si, sq := range c16Seqs() {
				for n := 0; n <= sq.maxN; n++ {
					emit(core.Case{Fam: "iter", N: []int{si, n, -1, 0}})
					for b := 0; b < n; b++ {
						emit(core.Case{Fam: "iter", N: []int{si, n, b, 0}})
						emit(core.Case{Fam: "iter", N: []int{si, n, b, 1}})
						emit(core.Case{Fam: "iter", N: []int{si, n, b, 2}})
					}
					if n > 0 {
						emit(core.Case{Fam: "iter", N: []int{si, n, -1, 3}}) // the callback grows the map while it is being traversed
					}
				}
			}
		}},
		{Name: "twig environment: {{ c|length }} equals the number of iterations of {% for v in c %} for every iterable carrier x length 0..8", Gen: func(emit func(core.Case)) {
			for si, sq := range c16Seqs() {
				for n := 0; n <= sq.maxN; n++ {
					emit(core.Case{Fam: "len", N: []int{si, n}})
				}
			}
		}},
		{Name: "templates: {{ c[k] }} for every container x key; 6 templates whose method calls take method calls as arguments (in loops, repeated, as macro arguments); 9 containers whose elements Go cannot compare with == (slices, maps, functions, structs holding slices): containment is total and finds each element", Gen: func(emit func(core.Case)) {
			for f := 0; f < 11; f++ {
				emit(core.Case{Fam: "nested", N: []int{f}})
			}
			for k := 0; k < 9; k++ {
				emit(core.Case{Fam: "uncomparable", N: []int{k}})
			}
			nc, nk := len(c16Containers()), len(c16Keys())
			for c := 0; c < nc; c++ {
				for k := 0; k < nk; k++ {
					emit(core.Case{Fam: "tpl", N: []int{c, k}})
				}
			}
		}},
	}
}

// c16Uncomparable: containers whose elements are themselves slices, maps, functions or structs holding such (values Go
// cannot compare with ==): containment is total and finds every element the traversal visits, in the API and in templates
type c16Bag struct {
	Tags []string
	N    int
}

func c16Uncomparable(k int) core.Result {
	fn := func() {}
	carriers := []stick.Value{
		[][]string{{"a"}, {"b", "c"}},
		[]map[string]int{{"a": 1}, {"b": 2}},
		[]stick.Value{[]stick.Value{1}, []stick.Value{2}},
		[]stick.Value{map[string]stick.Value{"a": 1}},
		[]c16Bag{{Tags: []string{"x"}, N: 1}, {Tags: nil, N: 2}},
		[]func(){fn},
		map[string][]int{"p": {1, 2}, "q": {3}},
		[]interface{}{[]int{1}, map[int]int{1: 1}, c16Bag{Tags: []string{"y"}}, fn, "s", nil},
		[1][]byte{[]byte("ab")},
	}
	v := carriers[k]
	steps, _, ierr, ipan := tryIterate(v, -1, -1)
	if ipan != "" || ierr != nil {
		return core.Violation("visit", fmt.Sprintf("Iterate over %#v: %v %s", v, ierr, ipan))
	}
	for _, st := range steps {
		var ok bool
		var cerr error
		pan := ""
		func() {
			defer func() {
				if p := recover(); p != nil {
					pan = panicInfo(p)
				}
			}()
			ok, cerr = stick.Contains(v, st.v)
		}()
		if pan != "" || cerr != nil || !ok {
			return core.Violation("contains", fmt.Sprintf("Contains(%T %v, its element %T %v) = %v, %v %s", v, v, st.v, st.v, ok, cerr, pan))
		}
	}
	for ei, env := range []*stick.Env{stick.New(nil), twig.New(nil)} {
		src := "{% for e in v %}{{ e in v ? 'Y' : 'N' }}{{ e not in v ? 'Y' : 'N' }}{% endfor %}|{{ [2] in [[1], [2]] ? 'Y' : 'N' }}{{ {'a': 1} not in [{'a': 1}] ? 'Y' : 'N' }}{{ [] in [[]] ? 'Y' : 'N' }}"
		out, err, pan := tryExec(env, src, map[string]stick.Value{"v": v})
		if want := strings.Repeat("YN", len(steps)) + "|YNY"; pan != "" || err != nil || out != want {
			return core.Violation("contains", fmt.Sprintf("%q with v = %T %v (environment %d) renders %q (%v %s), want %q", src, v, v, ei, out, err, pan, want))
		}
	}
	return core.Okay(true, itoa(len(steps)))
}

func c16Run(c core.Case) core.Result {
	switch c.Fam {
	case "attr":
		return c16Attr(c.N[0], c.N[1], c.N[2])
	case "iter":
		return c16Iter(c.N[0], c.N[1], c.N[2], c.N[3])
	case "nested":
		return c16Nested(c.N[0])
	case "uncomparable":
		return c16Uncomparable(c.N[0])
	case "tpl":
		return c16Tpl(c.N[0], c.N[1])
	case "len":
		return c16LenTpl(c.N[0], c.N[1])
	case "samename":
		return c16SameName(c.N[0])
	}
	return core.Skipped("unknown-family")
}

func init() {
	core.Register(&core.Check{
		ID:       "C16",
		Category: "exploration",
		Rule: "GetAttr on the full product of 57 containers (maps with string/int/float/bool/interface keys, maps whose key type is a named or further unnamed type of every kind - named string, int, int8, int64, time.Duration, uint64, uint8, float64, float32, bool; int64, uint8, float32 - and pointers to them, nil maps, slices, arrays, pointers to them, structs with exported/unexported/embedded fields and value/pointer-receiver methods, nil and typed-nil, scalars) x 40 keys (incl. values of named types and out-of-range numbers) x 32 argument lists; " +
			"Iterate/Len/Contains/Is* on 12 iterable carriers x lengths 0..8 x every break/error position, and 6 non-iterables; the same container/key pairs through '{{ c[k] }}'. " +
			"Oracle: table reference (the harness knows the contents): no panic; same-typed key present => that element; other-typed key => error or the element under the documented coercion of the key; absent/out-of-range/nil/wrong arity => error; loop metadata equations. " +
			"distinct = distinct (container,key,args) or (carrier,length,break); non-trivial = the expectation is not 'unspecified'",
		Assumptions: []string{
			"arguments passed to a non-method attribute and the embedded type's own name are unspecified (only totality is required)",
			"for a wrong-typed but convertible method argument either an error or the call with the coerced argument is accepted",
		},
		Levels:  c16Levels,
		Run:     c16Run,
		NoDedup: true,
		Budget:  budget(3*time.Minute, 10*time.Minute),
	})
}
