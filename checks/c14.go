package checks

import (
	"fmt"
	"os"
	"path/filepath"
	"strings"
	"time"

	"github.com/tyler-sommer/stick"
	"github.com/tyler-sommer/stick/twig"

	"verif/core"
)

// C14 — formatting inside delimiters does not change meaning. Differential oracle: every
// re-spelling that preserves the token sequence must have the same parse verdict and render
// byte-identically to the canonical spelling (whose own correctness is C03-C11's business).

type c14Item struct {
	name string
	src  string
}

func c14Items() []c14Item {
	var items []c14Item
	for _, it := range corpus() {
		items = append(items, c14Item{it.Name, it.Src})
		if hostable(it) {
			items = append(items, c14Item{it.Name + "@for", hostWrap(1, it.Src)}, c14Item{it.Name + "@block", hostWrap(2, it.Src)})
		}
	}
	// forms of the Twig language that this library may reject today: whatever it does with them, every
	// spelling must get the same verdict (and, once they parse, the same output)
	for i, src := range c14TwigForms {
		items = append(items, c14Item{"twig:" + itoa(i), src})
	}
	return items
}

var c14TwigForms = []string{
	"{{ arr.0.k }}", "{{ arr.0.k.j }}", "{{ h.k.0.x }}", "{{ arr.0.1 }}",
	"{{ a ?: b }}", "{{ a ?? b }}", "{{ a ? b }}", "{{ a <=> b }}", "{{ a is same as(b) }}", "{{ a is not defined }}",
	"{{ arr|map(v => v) }}", "{{ [1, ...arr] }}", "{{ a not in arr }}", "{{ arr[1:2] }}", "{{ a has some b }}",
	"{% set a, b = 1, 2 %}{{ a }}", "{% apply up %}x{% endapply %}", "{% with {'a': 1} %}{{ a }}{% endwith %}",
	"{% for i in 1..3 %}{{ i }}{% endfor %}", "{% if a is defined %}y{% endif %}", "{% autoescape 'html' %}{{ a }}{% endautoescape %}",
	"{% spaceless %} <a> </a> {% endspaceless %}", "{% flush %}", "{% include ['inc', 'base'] %}", "{% include 'nosuch' ignore missing %}",
	"{% import _self as m %}", "{% from _self import m %}", "{% block b a %}", "{% macro m(a = 1, b = 'x') %}{{ a }}{% endmacro %}{{ _self.m() }}",
	"{{ f(a = 1, b = 2) }}", "{{ a|wrap(x = 'y') }}", "{{ 1e3 }}", "{{ 0x1F }}", "{{ 1_000 }}", "{{ .5 }}", "{{ 5. }}",
}

var c14Ctx2 = map[string]stick.Value{
	"a": 0, "b": 2, "c": "x", "z": 1, "s": "lo", "arr": []stick.Value{"q"}, "one": []stick.Value{1},
	"h": map[string]stick.Value{"k": 7}, "obj": stdObj{"n2"},
}

type c14Obs struct {
	perr string
	outs []string
}

func c14Observe(src string) (o c14Obs, pan string) {
	env := stdEnv(map[string]string{"main": src})
	_, perr, pp := tryEnvParse(env, "main")
	if pp != "" {
		return o, pp
	}
	if perr != nil {
		o.perr = "parse-error"
		return o, ""
	}
	for _, ctx := range []map[string]stick.Value{stdCtx(), c14Ctx2} {
		out, err, p := tryExec(env, "main", ctx)
		if p != "" {
			return o, p
		}
		e := ""
		if err != nil {
			e = " ERR"
		}
		o.outs = append(o.outs, out+e)
	}
	return o, ""
}

var c14FSDir string

// c14ObserveFS observes src loaded from disk through stick's FilesystemLoader (the auxiliary templates of the corpus
// are written once per worker): what a template means does not depend on the loader that delivers it.
func c14ObserveFS(src string) (o c14Obs, pan string) {
	if c14FSDir == "" {
		c14FSDir = filepath.Join(core.WorkDir, "c14fs")
		if core.WorkDir == "" {
			c14FSDir, _ = os.MkdirTemp("", "c14fs")
		}
		os.MkdirAll(c14FSDir, 0o755)
		for n, t := range corpusTpls {
			os.WriteFile(filepath.Join(c14FSDir, n), []byte(t), 0o644)
		}
	}
	if err := os.WriteFile(filepath.Join(c14FSDir, "main"), []byte(src), 0o644); err != nil {
		return o, ""
	}
	env := stick.New(stick.NewFilesystemLoader(c14FSDir))
	addStdCallbacks(env)
	_, perr, pp := tryEnvParse(env, "main")
	if pp != "" {
		return o, pp
	}
	if perr != nil {
		o.perr = "parse-error"
		return o, ""
	}
	for _, ctx := range []map[string]stick.Value{stdCtx(), c14Ctx2} {
		out, err, p := tryExec(env, "main", ctx)
		if p != "" {
			return o, p
		}
		e := ""
		if err != nil {
			e = " ERR"
		}
		o.outs = append(o.outs, out+e)
	}
	return o, ""
}

// c14ObserveInline observes src as an inline template of a Twig environment (twig.New(nil): the source is its own
// name), followed by text that ends like a file name. Names of other templates are taken for inline sources here, so
// the outputs differ from the other observations; they are only compared between spellings.
func c14ObserveInline(src string) (o c14Obs, pan string) {
	env := twig.New(nil)
	addStdCallbacks(env)
	name := src + " see app.js"
	_, perr, pp := tryEnvParse(env, name)
	if pp != "" {
		return o, pp
	}
	if perr != nil {
		o.perr = "parse-error"
		return o, ""
	}
	for _, ctx := range []map[string]stick.Value{stdCtx(), c14Ctx2} {
		out, err, p := tryExec(env, name, ctx)
		if p != "" {
			return o, p
		}
		e := ""
		if err != nil {
			e = " ERR"
		}
		o.outs = append(o.outs, out+e)
	}
	return o, ""
}

// c14LongPrefix: n simple constructs, the first t of them written without the optional blanks, in front of a tag that is
// nested in a body (for / block / set / filter / macro / else): how the constructs before it are spaced does not
// decide whether the template parses (a parser that keeps a bounded history of tokens would care), nor what it renders.
func c14LongPrefix(n, t, unit, tailIdx int) core.Result {
	spaced := []string{"{{ v }}", "{% if v %}{% endif %}", "{{ v|up }}", "{% set q = v %}"}[unit]
	tight := []string{"{{v}}", "{%if v%}{%endif%}", "{{v|up}}", "{%set q=v%}"}[unit]
	outUnit := []string{"V", "", "V", ""}[unit]
	tails := []struct{ src, out string }{
		{"{% for i in [1] %}{% if v %}x{% endif %}{% endfor %}", "x"},
		{"{% block b %}{% set w = 1 %}{% if w %}y{% endif %}{% endblock %}", "y"},
		{"{% if false %}n{% else %}{% for i in [1, 2] %}{{ i }}{% endfor %}{% endif %}", "12"},
		{"{% filter up %}{% if v %}z{% endif %}{% endfilter %}", "Z"},
		{"{% macro m(a) %}{% if a %}[{{ a }}]{% endif %}{% endmacro %}{{ _self.m(7) }}", "[7]"},
		{"{% set c %}{% for i in [1] %}c{% endfor %}{% endset %}{{ c }}", "c"},
	}
	tl := tails[tailIdx]
	src := strings.Repeat(tight, t) + strings.Repeat(spaced, n-t) + tl.src
	want := strings.Repeat(outUnit, n) + tl.out
	out, err, pan := tryExec(stdEnv(map[string]string{"main": src}), "main", map[string]stick.Value{"v": "V"})
	desc := fmt.Sprintf("%d x %q then %d x %q then %q", t, tight, n-t, spaced, tl.src)
	if pan != "" {
		return core.Violation("panic", desc+" panicked: "+pan)
	}
	if err != nil {
		return core.Violation("parse-verdict", fmt.Sprintf("%s does not render: %v (with every construct spaced alike it does)", desc, err))
	}
	if out != want {
		return core.Violation("output-differs", fmt.Sprintf("%s renders ...%q, want ...%q", desc, tail(out, 40), tail(want, 40)))
	}
	return core.Okay(t > 0, itoa(len(out)))
}

// c14AfterBroken: a malformed source is parsed (it fails, possibly with brackets, hashes, strings or tags still open),
// then every spelling class of a simple print and of the canonical corpus item: what failed before does not decide
// whether the next template parses.
var c14OpenEnded = []string{"{% set h = {a: 1 %}", "{{ {'a': @} }}", "{{ [1, 2 }}", "{{ (a }}", "{{ \"x#{ {'k': 1 }", "{% if a %}{{ {'k': {'j': 1 }}", "{{ f(1, {a: [ }}", "{# open", "{% verbatim %}{{", "{{ 'x"}

func c14AfterBroken(bi, ii int) core.Result {
	var broken string
	if bi < len(c14OpenEnded) {
		broken = c14OpenEnded[bi]
	} else {
		broken = c17Broken[bi-len(c14OpenEnded)]
	}
	for r := 0; r < 3; r++ {
		tryParse(broken)
		tryEnvParse(stdEnv(map[string]string{"main": broken}), "main")
	}
	items := c14Items()
	it := items[ii]
	if strings.HasPrefix(it.name, "twig:") {
		return core.Skipped("form-not-supported-today")
	}
	for _, src := range []string{"{{ a }}", "{{a}}", "{{\ta\r\n}}", "{{ a -}}", "{{- a -}}", "{{ {'k': a}.k }}", it.src} {
		if _, err, pan := tryParse(src); err != nil || pan != "" {
			return core.Violation("parse-verdict", fmt.Sprintf("after %q failed to parse in this process, %q does not parse: %v %s", broken, src, err, pan))
		}
	}
	return core.Okay(true, "after-broken")
}

func c14Run(c core.Case) core.Result {
	if c.Fam == "afterbroken" {
		return c14AfterBroken(c.N[0], c.N[1])
	}
	if c.Fam == "longprefix" {
		return c14LongPrefix(c.N[0], c.N[1], c.N[2], c.N[3])
	}
	items := c14Items()
	if c.N[0] >= len(items) {
		return core.Skipped("index")
	}
	it := items[c.N[0]]
	toks := stokens(it.src)
	sites := spellSitesMode(toks, c.N[1])
	var devs [][2]int
	for k := 2; k+1 < len(c.N); k += 2 {
		if c.N[k] >= len(sites) || c.N[k+1] >= len(sites[c.N[k]].alts) {
			return core.Skipped("index")
		}
		devs = append(devs, [2]int{c.N[k], c.N[k+1]})
	}
	respelled := applySpelling(toks, sites, devs)
	if joinToks(toks) != it.src {
		return core.Violation("harness", "tokeniser does not reproduce the source of "+it.name)
	}
	// the re-spelling must preserve the token sequence (checked with the independent tokeniser)
	if !sameTokenSeq(toks, stokens(respelled)) {
		return core.Skipped("respelling-changes-tokens")
	}
	canon, cpan := c14Observe(it.src)
	if cpan != "" {
		return core.Skipped("canonical-panics")
	}
	if canon.perr != "" && !strings.HasPrefix(it.name, "twig:") {
		return core.Violation("canonical-rejected", fmt.Sprintf("the canonical spelling of %q does not parse: %s", it.name, it.src))
	}
	got, gpan := c14Observe(respelled)
	if gpan != "" {
		return core.Violation("panic", fmt.Sprintf("re-spelling %q of %q panicked: %s", respelled, it.src, gpan))
	}
	if got.perr != canon.perr {
		if canon.perr != "" {
			return core.Violation("parse-verdict", fmt.Sprintf("%q does not parse but its re-spelling %q does", it.src, respelled))
		}
		return core.Violation("parse-verdict", fmt.Sprintf("%q parses but its re-spelling %q does not", it.src, respelled))
	}
	if len(devs) <= 1 {
		fs, fpan := c14ObserveFS(respelled)
		if fpan != "" {
			return core.Violation("panic", fmt.Sprintf("%q loaded through the filesystem loader panicked: %s", respelled, fpan))
		}
		if fs.perr != got.perr || strings.Join(fs.outs, "\x00") != strings.Join(got.outs, "\x00") {
			return core.Violation("loader-dependent", fmt.Sprintf("%q loaded from a file gives %q %q, from memory %q %q", respelled, fs.perr, fs.outs, got.perr, got.outs))
		}
	}
	if c.N[1] == 2 && canon.perr == "" {
		// long gaps: also as an inline template of a Twig environment
		i1, p1 := c14ObserveInline(it.src)
		i2, p2 := c14ObserveInline(respelled)
		if p1 != "" || p2 != "" {
			return core.Violation("panic", fmt.Sprintf("%q / %q as inline templates of a Twig environment panicked: %s %s", it.src, tail(respelled, 80), p1, p2))
		}
		if i1.perr != i2.perr || strings.Join(i1.outs, "\x00") != strings.Join(i2.outs, "\x00") {
			return core.Violation("output-differs", fmt.Sprintf("as inline templates of a Twig environment (followed by ' see app.js'), %q gives %q %q but its re-spelling with a gap of %d bytes gives %q %q", it.src, i1.perr, i1.outs, len(respelled)-len(it.src), i2.perr, i2.outs))
		}
	}
	if canon.perr != "" {
		r := core.Okay(len(devs) > 0, "rejected in every spelling")
		r.Cnt = map[string]int64{"twig_forms_rejected_today": 1}
		return r
	}
	for i := range canon.outs {
		if got.outs[i] != canon.outs[i] {
			return core.Violation("output-differs", fmt.Sprintf("%q renders %q but its re-spelling %q renders %q", it.src, canon.outs[i], respelled, got.outs[i]))
		}
	}
	return core.Okay(len(devs) > 0, canon.outs[0])
}

// sameTokenSeq compares two token streams ignoring whitespace tokens, quote style, trim markers and trailing commas.
func sameTokenSeq(a, b []stok) bool {
	norm := func(ts []stok) []string {
		var r []string
		for i, t := range ts {
			switch t.kind {
			case kWS:
				continue
			case kQOpen, kQClose:
				r = append(r, "Q")
			case kOpen, kClose:
				r = append(r, strings.Trim(t.text, "-"))
			case kPunct:
				if t.text == "," {
					// a comma directly before a closing bracket is a trailing comma
					j := i + 1
					for j < len(ts) && ts[j].kind == kWS {
						j++
					}
					if j < len(ts) && ts[j].kind == kPunct && (ts[j].text == "]" || ts[j].text == "}") {
						continue
					}
				}
				r = append(r, t.text)
			default:
				r = append(r, t.text)
			}
		}
		return r
	}
	x, y := norm(a), norm(b)
	if len(x) != len(y) {
		return false
	}
	for i := range x {
		if x[i] != y[i] {
			return false
		}
	}
	return true
}

func c14Gen(maxDev int, small bool, tagsOnly bool, emit func(core.Case)) {
	sm := 0
	if small {
		sm = 1
	}
	c14GenMode(maxDev, sm, tagsOnly, emit)
}

func c14GenMode(maxDev int, sm int, tagsOnly bool, emit func(core.Case)) {
	items := c14Items()
	for ii, it := range items {
		if tagsOnly && strings.HasPrefix(it.name, "expr") {
			continue
		}
		sites := spellSitesMode(stokens(it.src), sm)
		var rec func(start int, cur []int, left int)
		rec = func(start int, cur []int, left int) {
			if len(cur) > 0 {
				emit(core.Case{Fam: "spell", N: append([]int{ii, sm}, cur...)})
			}
			if left == 0 {
				return
			}
			for s := start; s < len(sites); s++ {
				for a := range sites[s].alts {
					rec(s+1, append(append([]int{}, cur...), s, a), left-1)
				}
			}
		}
		if maxDev == 0 {
			emit(core.Case{Fam: "spell", N: []int{ii, sm}})
			continue
		}
		rec(0, nil, maxDev)
	}
}

func c14Levels(tier string) []core.Level {
	lv := []core.Level{
		{Name: "canonical spellings parse and render (0 deviations)", Gen: func(emit func(core.Case)) { c14Gen(0, false, false, emit) }},
		{Name: "every spelling with 1 deviation (whitespace choice from 7 (tab, newline, CR LF, two blanks, mixed, bare CR; none where the neighbours cannot merge), quote style, trailing comma, '-' marker)", Gen: func(emit func(core.Case)) { c14Gen(1, false, false, emit) }},
		{Name: "every spelling with <= 2 deviations", Gen: func(emit func(core.Case)) { c14Gen(2, false, false, emit) }},
		{Name: "histories: after each of 10 open-ended and 69 otherwise malformed sources failed to parse in the process, the spellings of a simple print and every canonical corpus item still parse", Gen: func(emit func(core.Case)) {
			n := len(c14Items())
			for bi := 0; bi < len(c14OpenEnded)+len(c17Broken); bi++ {
				for ii := bi % 7; ii < n; ii += 7 {
					emit(core.Case{Fam: "afterbroken", N: []int{bi, ii}})
				}
			}
		}},
		{Name: "token counts: 0..60 simple constructs (print, if, filtered print, set), the first 0..4 of them written without the optional blanks, in front of a tag nested in a for / block / else / filter / macro / set body (6 tails): spacing decides neither the parse verdict nor the output", Gen: func(emit func(core.Case)) {
			for unit := 0; unit < 4; unit++ {
				for tl := 0; tl < 6; tl++ {
					for n := 0; n <= 60; n++ {
						for t := 0; t <= 4 && t <= n; t++ {
							emit(core.Case{Fam: "longprefix", N: []int{n, t, unit, tl}})
						}
					}
				}
			}
		}},
		{Name: "long gaps: every whitespace site with 40 blanks / a newline and deep indentation / 70 newlines / 300 blanks / 2100 blank-newline pairs (1 deviation), observed also as an inline template of a Twig environment that ends like a file name", Gen: func(emit func(core.Case)) { c14GenMode(1, 2, false, emit) }},
	}
	if thorough(tier) {
		lv = append(lv, core.Level{Name: "every spelling with <= 3 deviations over the reduced whitespace alphabet {none, newline, blank}", Gen: func(emit func(core.Case)) { c14Gen(3, true, false, emit) }})
		lv = append(lv, core.Level{Name: "tag forms: every spelling with <= 4 deviations over the reduced alphabet", Gen: func(emit func(core.Case)) { c14Gen(4, true, true, emit) }})
	}
	return lv
}

func init() {
	core.Register(&core.Check{
		ID:       "C14",
		Category: "exploration",
		Rule: "corpus of one template per tag kind and expression form, each at top level, inside a for body and inside a block body; starting from the canonical spelling every spelling with <= 2 deviations (thorough: <= 3, tags <= 4, over a reduced alphabet), a deviation being: " +
			"the whitespace at one token boundary inside a delimiter pair replaced by tab / newline / CR LF / two blanks / mixed, or removed where the two tokens cannot merge (conservative whitelist), or inserted where there was none; the quote style of one interpolation-free string swapped; a trailing comma added to one list or hash; a '-' marker added to one delimiter with no adjacent whitespace. " +
			"An independent tokeniser checks that the re-spelling preserves the token sequence. Oracle (differential): same parse verdict and byte-identical output under 2 valuations as the canonical spelling. distinct = distinct spelling; non-trivial = at least one deviation",
		Assumptions: []string{
			"two-word operators (not in, is not, starts with, ends with) and b-and/b-or/b-xor are single tokens: whitespace inside them is not varied",
			"the 'cannot merge' whitelist is conservative: delimiter|name, delimiter|quote, name|, ( ) [ ] : |, quote|punctuation; pairs involving operator characters, '{' '}' next to delimiters and '.' are never glued",
		},
		Levels: c14Levels,
		Run:    c14Run,
		Budget: budget(5*time.Minute, 25*time.Minute),
	})
}
