package checks

import (
	"fmt"
	"strings"
	"time"

	"github.com/tyler-sommer/stick"
	"github.com/tyler-sommer/stick/twig"
	"github.com/tyler-sommer/stick/twig/escape"

	"verif/core"
)

// C08 — captured output goes only to its target; the main output resumes in order.
// A program is a nesting of capture constructs around unique text markers; its output is
// known by construction.

// constructs: index into c08Constructs
type c08Construct struct {
	name string
	// build wraps the inner (src, out) and returns the construct's (src, out); id makes names unique
	build func(b *c08Builder, inner c08SO, id int) c08SO
}

type c08SO struct{ src, out string }

type c08Builder struct {
	macros  strings.Builder // macro definitions hoisted to the top of the template
	inherit bool
}

func c08Up(s string) string { return strings.ToUpper(s) }
func c08Rev(s string) string {
	r := []rune(s)
	for i, j := 0, len(r)-1; i < j; i, j = i+1, j-1 {
		r[i], r[j] = r[j], r[i]
	}
	return string(r)
}
func c08Wrap(s string) string { return "[" + s + "]" }

var c08FilterFns = map[string]func(string) string{"up": c08Up, "rev": c08Rev, "wrap": c08Wrap}

var c08FilterChains = [][]string{
	{"wrap"}, {"up"}, {"rev"},
	{"wrap", "up"}, {"up", "wrap"}, {"wrap", "rev"}, {"rev", "wrap"}, {"up", "rev"}, {"rev", "up"},
	{"wrap", "rev", "up"}, {"rev", "wrap", "wrap"},
}

func c08Constructs() []c08Construct {
	var cs []c08Construct
	for k := 0; k <= 2; k++ {
		k := k
		cs = append(cs, c08Construct{fmt.Sprintf("set-capture printed %d times", k), func(b *c08Builder, in c08SO, id int) c08SO {
			n := "c" + itoa(id)
			so := c08SO{"{% set " + n + " %}" + in.src + "{% endset %}", ""}
			for i := 0; i < k; i++ {
				so.src += "." + "{{ " + n + " }}"
				so.out += "." + in.out
			}
			return so
		}})
	}
	for _, ch := range c08FilterChains {
		ch := ch
		cs = append(cs, c08Construct{"filter " + strings.Join(ch, "|"), func(b *c08Builder, in c08SO, id int) c08SO {
			out := in.out
			for _, f := range ch {
				out = c08FilterFns[f](out)
			}
			return c08SO{"{% filter " + strings.Join(ch, "|") + " %}" + in.src + "{% endfilter %}", out}
		}})
	}
	cs = append(cs, c08Construct{"macro call", func(b *c08Builder, in c08SO, id int) c08SO {
		n := "m" + itoa(id)
		b.macros.WriteString("{% macro " + n + "() %}" + in.src + "{% endmacro %}")
		return c08SO{"{{ _self." + n + "() }}", in.out}
	}})
	cs = append(cs, c08Construct{"block + block()", func(b *c08Builder, in c08SO, id int) c08SO {
		n := "b" + itoa(id)
		return c08SO{"{% block " + n + " %}" + in.src + "{% endblock %}|{{ block('" + n + "') }}", in.out + "|" + in.out}
	}})
	cs = append(cs, c08Construct{"loop of 2", func(b *c08Builder, in c08SO, id int) c08SO {
		return c08SO{"{% for i in [1, 2] %}" + in.src + "{% endfor %}", in.out + in.out}
	}})
	cs = append(cs, c08Construct{"set-capture into one shared variable name, printed once", func(b *c08Builder, in c08SO, id int) c08SO {
		// nested captures into the SAME name: the value is printed right after each endset, so the expectation is as for unique names
		return c08SO{"{% set shared %}" + in.src + "{% endset %}.{{ shared }}", "." + in.out}
	}})
	cs = append(cs, c08Construct{"set-capture assigned through a filter expression", func(b *c08Builder, in c08SO, id int) c08SO {
		n := "c" + itoa(id)
		return c08SO{"{% set " + n + " %}" + in.src + "{% endset %}{{ " + n + "|wrap }}", c08Wrap(in.out)}
	}})
	// filter sections whose filters look at the type of what they are given: every filter of a section receives
	// the text produced so far (a string), whatever the previous filter returned
	for _, ch := range [][]string{{"kind"}, {"cnt", "kind"}, {"up", "cnt", "kind", "rev"}} {
		ch := ch
		cs = append(cs, c08Construct{"filter " + strings.Join(ch, "|") + " (type-sensitive)", func(b *c08Builder, in c08SO, id int) c08SO {
			out := in.out
			for _, f := range ch {
				switch f {
				case "kind":
					out = "<string:" + out + ">"
				case "cnt":
					out = itoa(len([]rune(out)))
				default:
					out = c08FilterFns[f](out)
				}
			}
			return c08SO{"{% filter " + strings.Join(ch, "|") + " %}" + in.src + "{% endfilter %}", out}
		}})
	}
	// an embed whose override block holds the inner content: inside loops, captures and macros the same embed tag runs
	// several times under different writers
	cs = append(cs, c08Construct{"embed with an overriding block", func(b *c08Builder, in c08SO, id int) c08SO {
		return c08SO{"{% embed 'c08emb' %}{% block eb %}" + in.src + "{% endblock %}{% endembed %}", "<e>" + in.out + "</e>"}
	}})
	// bodies that begin and end with line breaks: captured text is taken as it is
	cs = append(cs, c08Construct{"set-capture whose body begins and ends with a line break", func(b *c08Builder, in c08SO, id int) c08SO {
		n := "c" + itoa(id)
		return c08SO{"{% set " + n + " %}\n" + in.src + "\r\n{% endset %}<{{ " + n + " }}>", "<\n" + in.out + "\r\n>"}
	}})
	cs = append(cs, c08Construct{"filter section whose body begins with a line break", func(b *c08Builder, in c08SO, id int) c08SO {
		return c08SO{"{% filter wrap %}\n" + in.src + "\n{% endfilter %}", "[\n" + in.out + "\n]"}
	}})
	return cs
}

const c08MacroIdx = 14
const c08EmbedIdx = 22

var c08Leaves = []c08SO{{"t", "t"}, {"{{ v }}", "V"}, {"{{ parent() }}", "M[BVP]"},
	// a capture whose body is exactly one print: the variable holds the printed text (a string), not the value
	{"{% set q %}{{ v }}{% endset %}{{ kind(q) }}", "<string:V>"},
	{"{% set q %}{{ n }}{% endset %}{{ kind(q) }}{{ q|kind }}{% set q2 %}{{ nil }}{% endset %}{{ kind(q2) }}", "<string:0><string:0><string:>"},
}

const c08Emb = "<e>{% block eb %}d{% endblock %}</e>"

const c08Base = "<<{% block main %}B{{ v }}{% filter up %}p{% endfilter %}{% endblock %}>>"

func c08Env(tpls map[string]string) *stick.Env {
	env := stick.New(&stick.MemoryLoader{Templates: tpls})
	env.Filters["up"] = func(ctx stick.Context, val stick.Value, args ...stick.Value) stick.Value {
		return c08Up(stick.CoerceString(val))
	}
	env.Filters["rev"] = func(ctx stick.Context, val stick.Value, args ...stick.Value) stick.Value {
		return c08Rev(stick.CoerceString(val))
	}
	env.Filters["wrap"] = func(ctx stick.Context, val stick.Value, args ...stick.Value) stick.Value {
		return c08Wrap(stick.CoerceString(val))
	}
	kind := func(val stick.Value) stick.Value { return fmt.Sprintf("<%T:%s>", val, stick.CoerceString(val)) }
	env.Filters["kind"] = func(ctx stick.Context, val stick.Value, args ...stick.Value) stick.Value { return kind(val) }
	env.Functions["kind"] = func(ctx stick.Context, args ...stick.Value) stick.Value { return kind(args[0]) }
	env.Filters["cnt"] = func(ctx stick.Context, val stick.Value, args ...stick.Value) stick.Value {
		return len([]rune(stick.CoerceString(val))) // an int, not a string
	}
	return env
}

// c08Build: chain = construct indices from outermost to innermost; leaf index; sibling = second chain placed after the first at top level (or nil)
func c08Build(inherit bool, chains [][]int, leaves []int) (tpls map[string]string, want string, ok bool) {
	cs := c08Constructs()
	b := &c08Builder{inherit: inherit}
	id := 0
	var body c08SO
	for ci, chain := range chains {
		leaf := c08Leaves[leaves[ci]]
		if leaves[ci] == 2 && !inherit {
			return nil, "", false
		}
		so := leaf
		for i, ci := range chain {
			if ci == c08EmbedIdx {
				for _, inner := range chain[i+1:] {
					if inner == c08MacroIdx {
						return nil, "", false // _self inside an embed's override is not the host template: not claimed
					}
				}
			}
			if ci == c08EmbedIdx && leaf.src == "{{ parent() }}" {
				return nil, "", false // parent() inside an embed's override refers to the embedded template's block
			}
			if ci == c08MacroIdx+1 && leaf.src == "{{ parent() }}" {
				return nil, "", false // parent() inside a nested block refers to that block, which has no parent
			}
		}
		for l := len(chain) - 1; l >= 0; l-- {
			if chain[l] == c08MacroIdx {
				if inherit {
					return nil, "", false // macros defined in an extending child are not claimed
				}
				if strings.Contains(so.src, "{{ v }}") || strings.Contains(so.src, "{{ n }}") || strings.Contains(so.src, "{% block") {
					return nil, "", false // macro bodies touch no outer variable and define no block
				}
			}
			id++
			lv := itoa(l) + string(rune('a'+ci))
			inner := c08SO{"a" + lv + so.src + "z" + lv, "a" + lv + so.out + "z" + lv}
			so = cs[chain[l]].build(b, inner, id)
		}
		body.src += "(" + so.src + ")"
		body.out += "(" + so.out + ")"
	}
	body.src += "END"
	body.out += "END"
	if inherit {
		return map[string]string{
			"c08emb":  c08Emb,
			"c08base": c08Base,
			"c08mid":  "{% extends 'c08base' %}{% block main %}M[{{ parent() }}]{% endblock %}", // its parent() runs inside the child's parent()
			"main":    "{% extends 'c08mid' %}ignored{% block main %}" + body.src + "{% endblock %}ignored too",
		}, "<<" + body.out + ">>", true
	}
	return map[string]string{"main": b.macros.String() + body.src, "c08emb": c08Emb}, body.out, true
}

// c08SamePos: two constant constructs of the same kind at the same line and column of two different templates that
// take part in one execution (importer and macro file, layout and child): each yields its own content.
func c08SamePos(kind, rel int) core.Result {
	mk := func(body string) string {
		switch kind {
		case 0:
			return "{% filter up %}" + body + "{% endfilter %}"
		case 1:
			return "{% set c %}" + body + "{% endset %}{{ c }}"
		case 2:
			return "{% filter wrap %}{# note #}" + body + "{% endfilter %}"
		default:
			return "{% for i in [1] %}" + body + "{% endfor %}"
		}
	}
	res := func(body string) string {
		switch kind {
		case 0:
			return strings.ToUpper(body)
		case 2:
			return "[" + body + "]"
		}
		return body
	}
	var tpls map[string]string
	var want string
	switch rel {
	case 0: // importer and macro file: "{% import 'mf' as q %}" and "{% macro mmmmmmmm() %}" are both 22 bytes long
		tpls = map[string]string{"main": "{% import 'mf' as q %}" + mk("name") + "|{{ q.mmmmmmmm() }}|" + mk("again"),
			"mf": "{% macro mmmmmmmm() %}" + mk("intro") + "{% endmacro %}"}
		want = res("name") + "|" + res("intro") + "|" + res("again")
	case 1: // layout and child: "{% extends 'lay' %}{% block b %}" vs 32 bytes of text in the layout
		pre := "{% extends 'lay' %}{% block b %}"
		tpls = map[string]string{"main": pre + mk("child") + "{% endblock %}",
			"lay": strings.Repeat("x", len(pre)) + mk("layout") + "<{% block b %}{% endblock %}>"}
		want = strings.Repeat("x", len(pre)) + res("layout") + "<" + res("child") + ">"
	default: // including and included template, the same offsets
		tpls = map[string]string{"main": "ab" + mk("outer") + "{% include 'inc' %}" + mk("tail"), "inc": "cd" + mk("inner")}
		want = "ab" + res("outer") + "cd" + res("inner") + res("tail")
	}
	out, err, pan := tryExec(c08Env(tpls), "main", map[string]stick.Value{"v": "V"})
	if pan != "" || err != nil {
		return core.Violation("error", fmt.Sprintf("%v: %v %s", tpls, err, pan))
	}
	if out != want {
		return core.Violation("routing", fmt.Sprintf("%v renders\n    %q, want\n    %q", tpls, out, want))
	}
	return core.Okay(true, out)
}

// c08Repeat: a capturing construct evaluated n times in one execution, its input changing from one evaluation to the
// next through a loop variable (no set in between): every evaluation captures what it produces then.
func c08Repeat(kind, n, nest int) core.Result {
	var els []string
	for i := 1; i <= n; i++ {
		els = append(els, itoa(i))
	}
	list := "[" + strings.Join(els, ", ") + "]"
	unit := func(v string) string { return "" }
	head, use := "", ""
	tpls := map[string]string{}
	switch kind {
	case 0: // block() of a block that prints the loop variable
		head = "{% block row %}<{{ v }}>{% endblock %}|"
		use = "{{ block('row') }}"
		unit = func(v string) string { return "<" + v + ">" }
	case 1: // the same, twice per iteration and through a filter
		head = "{% block row %}<{{ v }}>{% endblock %}|"
		use = "{{ block('row') }}{{ block('row')|rev }}"
		unit = func(v string) string { return "<" + v + ">" + c08Rev("<"+v+">") }
	case 2: // a macro called with the loop variable
		head = "{% macro m(a) %}[{{ a }}]{% endmacro %}|"
		use = "{{ _self.m(v) }}"
		unit = func(v string) string { return "[" + v + "]" }
	case 3: // a set-capture printed
		head = "|"
		use = "{% set c %}({{ v }}){% endset %}{{ c }}"
		unit = func(v string) string { return "(" + v + ")" }
	case 4: // a filter section
		head = "|"
		use = "{% filter rev %}a{{ v }}{% endfilter %}"
		unit = func(v string) string { return c08Rev("a" + v) }
	case 5: // parent() inside an overriding block
		tpls["host"] = "{% block row %}P{{ v }};{% endblock %}"
		head = "{% extends 'host' %}{% block row %}|"
		use = "{{ parent() }}"
		unit = func(v string) string { return "P" + v + ";" }
	case 6: // block() assigned, then printed after the next evaluation has happened
		head = "{% block row %}<{{ v }}>{% endblock %}|"
		use = "{% if loop.first %}{% endif %}{{ [block('row'), block('row')]|join('+') }}"
		unit = func(v string) string { return "<" + v + ">+<" + v + ">" }
	}
	body := "{% for v in " + list + " %}" + use + "{% endfor %}"
	want := ""
	for _, v := range els {
		want += unit(v)
	}
	if nest == 1 { // inside an outer loop of 2: the inner evaluations repeat with the same inputs
		body = "{% for o in ['x', 'y'] %}{{ o }}:" + body + "{% endfor %}"
		want = "x:" + want + "y:" + want
	}
	inPlace := ""
	if kind == 0 || kind == 1 || kind == 6 {
		inPlace = "<>"
	}
	main := head + body
	if kind == 5 {
		main += "{% endblock %}"
	}
	tpls["main"] = main
	env := c08Env(tpls)
	env.Filters["join"] = func(ctx stick.Context, val stick.Value, args ...stick.Value) stick.Value {
		var parts []string
		stick.Iterate(val, func(k, v stick.Value, l stick.Loop) (bool, error) {
			parts = append(parts, stick.CoerceString(v))
			return false, nil
		})
		return strings.Join(parts, stick.CoerceString(args[0]))
	}
	out, err, pan := tryExec(env, "main", nil)
	if pan != "" || err != nil {
		return core.Violation("error", fmt.Sprintf("%q: %v %s", main, err, pan))
	}
	if out != inPlace+"|"+want {
		return core.Violation("routing", fmt.Sprintf("%q renders\n    %q, want\n    %q", main, out, inPlace+"|"+want))
	}
	return core.Okay(n > 1, out)
}

var c08SecFilters = []string{"up", "rev", "para", "escape"}

// c08Sections: a filter section with a list of filters applies them in the order named - exactly like the same
// filters written as nested single-filter sections, innermost first. env: 0 core (no escape filter), 1 twig with a
// .txt template, 2 twig with a .html template. For a body of literal text the result is also known by construction.
func c08Sections(envKind int, fs []int, bodyKind int) core.Result {
	var names []string
	for _, f := range fs {
		if envKind == 0 && c08SecFilters[f] == "escape" {
			return core.Skipped("no-escape-filter-in-the-core-environment")
		}
		names = append(names, c08SecFilters[f])
	}
	// (bodies 3..6 render nothing: the filters still apply, to the empty text)
	body := []string{"a < b & 'c'", "x{{ v }}y", "{% for i in [1, 2] %}<{{ i }}>{% endfor %}", "", "{% if false %}n{% endif %}", "{{ '' }}", "{% set inner %}captured{% endset %}"}[bodyKind]
	list := "{% filter " + strings.Join(names, "|") + " %}" + body + "{% endfilter %}"
	nested := body
	for _, n := range names {
		nested = "{% filter " + n + " %}" + nested + "{% endfilter %}"
	}
	name := []string{"m", "m.txt", "m.html"}[envKind]
	tpls := map[string]string{name: "[" + list + "]", "n" + name: "[" + nested + "]"}
	var env *stick.Env
	if envKind == 0 {
		env = c08Env(tpls)
	} else {
		env = twig.New(&stick.MemoryLoader{Templates: tpls})
		core8 := c08Env(nil)
		for k, f := range core8.Filters {
			env.Filters[k] = f
		}
	}
	env.Filters["para"] = func(ctx stick.Context, val stick.Value, args ...stick.Value) stick.Value {
		return "<p>" + stick.CoerceString(val) + "</p>"
	}
	ctx := map[string]stick.Value{"v": "<V>"}
	o1, e1, p1 := tryExec(env, name, ctx)
	o2, e2, p2 := tryExec(env, "n"+name, ctx)
	if p1 != "" || p2 != "" || e1 != nil || e2 != nil {
		return core.Violation("error", fmt.Sprintf("%q / %q: %v %v %s %s", list, nested, e1, e2, p1, p2))
	}
	if o1 != o2 {
		return core.Violation("routing", fmt.Sprintf("%q renders %q, the same filters as nested sections %q render %q", list, o1, nested, o2))
	}
	if bodyKind == 0 || bodyKind >= 3 {
		want := body
		if bodyKind >= 3 {
			want = ""
		}
		for _, n := range names {
			switch n {
			case "up":
				want = c08Up(want)
			case "rev":
				want = c08Rev(want)
			case "para":
				want = "<p>" + want + "</p>"
			case "escape":
				if envKind == 2 {
					want = escape.HTML(want)
				} else {
					return core.Okay(true, o1) // the strategy 'escape' picks in a .txt template is not claimed here
				}
			}
		}
		if o1 != "["+want+"]" {
			return core.Violation("routing", fmt.Sprintf("%q renders %q, want %q (the filters in the order named)", list, o1, "["+want+"]"))
		}
	}
	return core.Okay(true, o1)
}

// c08TwigCapture (Twig environment): what a capturing construct captures is exactly what its body renders when it is
// not captured - prints included, escaped for the template's content type. The captured text is observed raw, through
// a host function that records its argument, and through an identity filter section.
func c08TwigCapture(form, ext, bodyKind int) core.Result {
	name := []string{"m.html", "m.js", "m.css", "m"}[ext]
	body := []string{"x{{ v }}y", "{% for i in [1, 2] %}{{ v }}{{ i }}{% endfor %}", "{% if v %}{{ v ~ '<' }}{% endif %}", "{{ v }}{{ w }}"}[bodyKind]
	var seen []string
	mk := func(src string) (string, error, string) {
		env := twig.New(&stick.MemoryLoader{Templates: map[string]string{name: src}})
		env.Functions["probe"] = func(ctx stick.Context, args ...stick.Value) stick.Value {
			seen = append(seen, stick.CoerceString(args[0]))
			return ""
		}
		env.Filters["idf"] = func(ctx stick.Context, val stick.Value, args ...stick.Value) stick.Value { return val }
		return tryExec(env, name, map[string]stick.Value{"v": "<&'\">\\/", "w": stick.NewSafeValue("<safe>", "html", "js", "css")})
	}
	direct, err, pan := mk("|" + body + "|")
	if err != nil || pan != "" {
		return core.Violation("error", fmt.Sprintf("%q in %s: %v %s", body, name, err, pan))
	}
	direct = strings.Trim(direct, "|")
	src := ""
	switch form {
	case 0:
		src = "{% set c %}" + body + "{% endset %}|{{ c|raw }}|"
	case 1:
		src = "{% set c %}" + body + "{% endset %}{{ probe(c) }}||"
	case 2:
		src = "|{% filter idf|raw %}" + body + "{% endfilter %}|"
	case 3:
		src = "{% macro m(v, w) %}" + body + "{% endmacro %}|{{ _self.m(v, w)|raw }}|"
	case 4:
		src = "{% block b %}{% endblock %}{% set c %}{% set d %}" + body + "{% endset %}{{ d|raw }}{% endset %}|{{ c|raw }}|"
	case 5:
		src = "{% for q in [1] %}{% set c %}" + body + "{% endset %}{% endfor %}|{% set c2 %}" + body + "{% endset %}{{ c2|raw }}|"
	}
	seen = nil
	out, err, pan := mk(src)
	if err != nil || pan != "" {
		return core.Violation("error", fmt.Sprintf("%q in %s: %v %s", src, name, err, pan))
	}
	got := strings.Trim(out, "|")
	if form == 1 {
		if len(seen) != 1 {
			return core.Violation("routing", fmt.Sprintf("%q in %s: the function was called %d times", src, name, len(seen)))
		}
		got = seen[0]
	}
	if got != direct {
		return core.Violation("routing", fmt.Sprintf("in %s, %q captures %q, but its body renders %q when it is not captured", name, src, got, direct))
	}
	return core.Okay(true, got)
}

// c08Undeclared: a filter section naming a filter that does not exist fails, whatever its body renders.
func c08Undeclared(b int) core.Result {
	body := []string{"x", "", "{% if false %}n{% endif %}", "{{ '' }}"}[b]
	src := "a{% filter nosuchfilter %}" + body + "{% endfilter %}b"
	_, err, pan := tryExec(c08Env(map[string]string{"main": src}), "main", nil)
	if pan != "" {
		return core.Violation("panic", fmt.Sprintf("%q panicked: %s", src, pan))
	}
	if err == nil {
		return core.Violation("routing", fmt.Sprintf("%q names a filter that is not declared but renders without error", src))
	}
	return core.Okay(true, "err")
}

func c08Run(c core.Case) core.Result {
	if c.Fam == "twigcapture" {
		return c08TwigCapture(c.N[0], c.N[1], c.N[2])
	}
	if c.Fam == "undeclared" {
		return c08Undeclared(c.N[0])
	}
	if c.Fam == "repeat" {
		return c08Repeat(c.N[0], c.N[1], c.N[2])
	}
	if c.Fam == "sections" {
		return c08Sections(c.N[0], c.N[2:], c.N[1])
	}
	if c.Fam == "samepos" {
		return c08SamePos(c.N[0], c.N[1])
	}
	// N = [inherit, nchains, (len, constructs..., leaf)...]
	inherit := c.N[0] == 1
	var chains [][]int
	var leaves []int
	p := 2
	for i := 0; i < c.N[1]; i++ {
		l := c.N[p]
		chains = append(chains, c.N[p+1:p+1+l])
		leaves = append(leaves, c.N[p+1+l])
		p += l + 2
	}
	tpls, want, ok := c08Build(inherit, chains, leaves)
	if !ok {
		return core.Skipped("not-claimed-combination")
	}
	out, err, pan := tryExec(c08Env(tpls), "main", map[string]stick.Value{"v": "V", "n": 0})
	if pan != "" {
		return core.Violation("panic", fmt.Sprintf("%q panicked: %s", tpls["main"], pan))
	}
	if err != nil {
		return core.Violation("error", fmt.Sprintf("%q does not render: %v (want %q)", tpls["main"], err, want))
	}
	if out != want {
		return core.Violation("routing", fmt.Sprintf("%q renders\n    %q, want\n    %q", tpls["main"], out, want))
	}
	return core.Okay(true, out)
}

func c08GenChains(depth int, inherit int, emit func(core.Case)) {
	n := len(c08Constructs())
	for d := 1; d <= depth; d++ {
		idx := make([]int, d)
		for {
			for leaf := 0; leaf < len(c08Leaves); leaf++ {
				if leaf == 2 && inherit == 0 {
					continue
				}
				if leaf >= 3 && d > 3 {
					continue // the capture-of-one-print leaves: chains of depth <= 3
				}
				emit(core.Case{Fam: "chain", N: append(append([]int{inherit, 1, d}, idx...), leaf)})
			}
			j := d - 1
			for j >= 0 {
				idx[j]++
				if idx[j] < n {
					break
				}
				idx[j] = 0
				j--
			}
			if j < 0 {
				break
			}
		}
	}
}

func c08Levels(tier string) []core.Level {
	depth := 4
	if thorough(tier) {
		depth = 5
	}
	n := len(c08Constructs())
	lv := []core.Level{
		{Name: fmt.Sprintf("plain template: every nesting chain of depth <= %d over %d constructs x 4 leaves (text, print, a capture of exactly one print observed through a type-revealing callback x 2; the last two to depth 3), unique markers at every level, trailing marker", depth, n), Gen: func(emit func(core.Case)) { c08GenChains(depth, 0, emit) }},
		{Name: fmt.Sprintf("inside an overriding block of a three-level inheritance host (parent() as a leaf, the middle level calling parent() itself): every chain of depth <= %d", depth), Gen: func(emit func(core.Case)) { c08GenChains(depth, 1, emit) }},
		{Name: "siblings: every pair of depth <= 2 chains side by side (a capture that does not restore the writer shows in the second)", Gen: func(emit func(core.Case)) {
			var chains [][]int
			for a := 0; a < n; a++ {
				chains = append(chains, []int{a})
				for b := 0; b < n; b += 3 {
					chains = append(chains, []int{a, b})
				}
			}
			for inherit := 0; inherit < 2; inherit++ {
				for _, c1 := range chains {
					for _, c2 := range chains {
						l1, l2 := 0, 1
						if inherit == 1 {
							l2 = 2
						}
						N := []int{inherit, 2, len(c1)}
						N = append(append(N, c1...), l1, len(c2))
						N = append(append(N, c2...), l2)
						emit(core.Case{Fam: "pair", N: N})
					}
				}
			}
		}},
	}
	lv = append(lv, core.Level{Name: "repetition: 7 capturing constructs (block() once / twice and filtered / collected in a list, a macro call, a set-capture, a filter section, parent()) evaluated 0..6, 99..102, 150, 257 and 1000 times in a loop - alone and inside an outer loop of 2 - with the loop variable as their input: every evaluation captures what it produces then", Gen: func(emit func(core.Case)) {
		for kind := 0; kind < 7; kind++ {
			for _, n := range []int{0, 1, 2, 3, 4, 5, 6, 99, 100, 101, 102, 150, 257, 1000} {
				for nest := 0; nest < 2; nest++ {
					emit(core.Case{Fam: "repeat", N: []int{kind, n, nest}})
				}
			}
		}
	}})
	lv = append(lv, core.Level{Name: "filter sections with a list of 2..3 filters over {up, rev, para, escape} x 7 bodies (text, a print, a loop, and four that render nothing) in the core environment and in .txt / .html templates of the twig environment: the filters apply in the order named, exactly like nested single-filter sections", Gen: func(emit func(core.Case)) {
		nf := len(c08SecFilters)
		for b := 0; b < 4; b++ {
			emit(core.Case{Fam: "undeclared", N: []int{b}})
		}
		for envKind := 0; envKind < 3; envKind++ {
			for b := 0; b < 7; b++ {
				for f1 := 0; f1 < nf; f1++ {
					for f2 := 0; f2 < nf; f2++ {
						emit(core.Case{Fam: "sections", N: []int{envKind, b, f1, f2}})
						for f3 := 0; f3 < nf; f3++ {
							emit(core.Case{Fam: "sections", N: []int{envKind, b, f1, f2, f3}})
						}
					}
				}
			}
		}
	}})
	lv = append(lv, core.Level{Name: "Twig environment: 6 capturing forms (set-capture printed raw / handed to a host function / nested / in a loop, identity filter section, macro) x 4 bodies with prints of markup and of a safe value x .html / .js / .css / extension-less templates: the captured text is what the body renders uncaptured", Gen: func(emit func(core.Case)) {
		for form := 0; form < 6; form++ {
			for ext := 0; ext < 4; ext++ {
				for b := 0; b < 4; b++ {
					emit(core.Case{Fam: "twigcapture", N: []int{form, ext, b}})
				}
			}
		}
	}})
	lv = append(lv, core.Level{Name: "two constant constructs (filter section, capture, filter section with a comment, loop) at the same line and column of two templates of one execution (importer / macro file, layout / child, including / included)", Gen: func(emit func(core.Case)) {
		for kind := 0; kind < 4; kind++ {
			for rel := 0; rel < 3; rel++ {
				emit(core.Case{Fam: "samepos", N: []int{kind, rel}})
			}
		}
	}})
	return lv
}

func init() {
	core.Register(&core.Check{
		ID:       "C08",
		Category: "exploration",
		Rule: "every nesting chain of depth <= 4 (thorough 5) over 19 capture constructs (set-capture printed 0/1/2 times, into one shared variable name, or through a filter expression, filter sections with 11 chains of 1-3 non-commuting filters, macro call, block + block(), loop of 2) around a text marker, a print or parent(); unique markers before/after the nested construct at every level and a trailing marker; the same inside an overriding block of an inheritance host; and every pair of depth <= 2 chains side by side. " +
			"The output is known by construction. distinct = distinct program; non-trivial = all",
		Assumptions: []string{
			"macro bodies print no outer variable and define no block; macros in an extending child are not claimed",
		},
		Levels:  c08Levels,
		Run:     c08Run,
		NoDedup: true,
		Budget:  budget(4*time.Minute, 20*time.Minute),
	})
}
