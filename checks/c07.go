package checks

import (
	"fmt"
	"strings"
	"time"

	"github.com/tyler-sommer/stick"
	"github.com/tyler-sommer/stick/twig"

	"verif/core"
)

// C07 — variable scoping. Programs over the names x, y, z are enumerated exhaustively up to a
// size; a small reference implements exactly the statement and marks everything the statement
// excludes or leaves open as unspecified (assignment to a currently shadowed name; a variable
// first set inside a loop body read again in a later iteration before it is set).

type c07St struct {
	kind string // setx sety obs for if call
	// for
	v, k string
	filt int // inline condition: 0 none, 1 rejects the last element, 2 rejects the first, 3 rejects all
	// if
	cond bool
	// call
	macro string
	args  []string
	body  []*c07St
}

const c07Obs = "[{{ x }}|{{ probe('x') }},{{ y }}|{{ probe('y') }},{{ z }}|{{ probe('z') }},{{ probe('loop') }}]"

const c07Macros = "{% macro m1(x) %}(x={{ x }}|{{ probe('x') }}){% endmacro %}" +
	"{% macro m2(y, x) %}(y={{ y }},x={{ x }}){% set x = 99 %}<{{ x }}>{% endmacro %}"

type c07Printer struct {
	sb  strings.Builder
	lit int
}

func (p *c07Printer) print(sts []*c07St) {
	for _, s := range sts {
		switch s.kind {
		case "setx", "sety":
			p.lit++
			p.sb.WriteString("{% set " + s.kind[3:] + " = " + itoa(p.lit) + " %}")
		case "obs":
			p.sb.WriteString(c07Obs)
		case "for":
			cond := []string{"", " if " + s.v + " < 12", " if " + s.v + " > 11", " if " + s.v + " > 12"}[s.filt]
			if s.k != "" {
				p.sb.WriteString("{% for " + s.k + ", " + s.v + " in [11, 12]" + cond + " %}")
			} else {
				p.sb.WriteString("{% for " + s.v + " in [11, 12]" + cond + " %}")
			}
			p.print(s.body)
			p.sb.WriteString("{% endfor %}")
		case "if":
			if s.cond {
				p.sb.WriteString("{% if true %}")
			} else {
				p.sb.WriteString("{% if false %}")
			}
			p.print(s.body)
			p.sb.WriteString("{% endif %}")
		case "call":
			p.sb.WriteString("{{ _self." + s.macro + "(" + strings.Join(s.args, ", ") + ") }}")
		}
	}
}

// reference
type c07Val struct {
	s       string
	defined bool
}

type c07Ref struct {
	scopes []map[string]string
	ghosts []map[string]bool // per open loop: names first set inside an earlier iteration
	out    strings.Builder
	lit    int
	unspec string
}

func (r *c07Ref) get(n string) (string, bool) {
	for i := len(r.scopes) - 1; i >= 0; i-- {
		if v, ok := r.scopes[i][n]; ok {
			return v, true
		}
	}
	for _, g := range r.ghosts {
		if g[n] {
			r.unspec = "loop-carried-variable"
		}
	}
	return "", false
}

func (r *c07Ref) count(n string) int {
	c := 0
	for _, s := range r.scopes {
		if _, ok := s[n]; ok {
			c++
		}
	}
	return c
}

func (r *c07Ref) set(n, v string) {
	if r.count(n) > 1 {
		r.unspec = "assign-to-shadowed-name"
		return
	}
	for i := len(r.scopes) - 1; i >= 0; i-- {
		if _, ok := r.scopes[i][n]; ok {
			r.scopes[i][n] = v
			return
		}
	}
	r.scopes[len(r.scopes)-1][n] = v
}

func (r *c07Ref) probe(n string) string {
	if _, ok := r.get(n); ok {
		return "D"
	}
	return "U"
}

func (r *c07Ref) run(sts []*c07St) {
	for _, s := range sts {
		switch s.kind {
		case "setx", "sety":
			r.lit++
			r.set(s.kind[3:], itoa(r.lit))
		case "obs":
			x, _ := r.get("x")
			y, _ := r.get("y")
			z, _ := r.get("z")
			r.out.WriteString("[" + x + "|" + r.probe("x") + "," + y + "|" + r.probe("y") + "," + z + "|" + r.probe("z") + "," + r.probe("loop") + "]")
		case "for":
			r.ghosts = append(r.ghosts, map[string]bool{})
			litStart := r.lit
			for i, el := range []string{"11", "12"} {
				r.lit = litStart // literals are static in the source: each iteration assigns the same ones
				if (s.filt == 1 && i == 1) || (s.filt == 2 && i == 0) || s.filt == 3 {
					r.skipLits(s.body) // element rejected by the inline condition: the body does not run
					continue
				}
				sc := map[string]string{s.v: el, "loop": "L"}
				if s.k != "" {
					sc[s.k] = itoa(i)
				}
				r.scopes = append(r.scopes, sc)
				r.run(s.body)
				top := r.scopes[len(r.scopes)-1]
				for n := range top {
					if n != s.v && n != s.k && n != "loop" {
						r.ghosts[len(r.ghosts)-1][n] = true
					}
				}
				r.scopes = r.scopes[:len(r.scopes)-1]
			}
			r.ghosts = r.ghosts[:len(r.ghosts)-1]
		case "if":
			if s.cond {
				r.run(s.body)
			} else {
				r.skipLits(s.body)
			}
		case "call":
			var vals []string
			for _, a := range s.args {
				if a == "x" || a == "y" || a == "z" {
					v, _ := r.get(a)
					vals = append(vals, v)
				} else {
					vals = append(vals, a)
				}
			}
			arg := func(i int) string {
				if i < len(vals) {
					return vals[i]
				}
				return ""
			}
			if s.macro == "m1" {
				// parameter x shadows any outer x inside the call; nothing is assigned
				r.out.WriteString("(x=" + arg(0) + "|D)")
			} else {
				// m2(y, x) assigns to its parameter x: excluded when an outer x exists (shadowed name)
				if r.count("x") > 0 {
					r.unspec = "assign-to-shadowed-name"
				}
				r.out.WriteString("(y=" + arg(0) + ",x=" + arg(1) + ")<99>")
			}
		}
	}
}

// skipLits advances the literal counter over statements that are printed but not executed.
func (r *c07Ref) skipLits(sts []*c07St) {
	for _, s := range sts {
		switch s.kind {
		case "setx", "sety":
			r.lit++
		case "for", "if":
			r.skipLits(s.body)
		}
	}
}

func c07Leaves() []*c07St {
	return []*c07St{{kind: "setx"}, {kind: "sety"}, {kind: "obs"}}
}

func c07Calls() []*c07St {
	return []*c07St{
		{kind: "call", macro: "m1", args: []string{"7"}},
		{kind: "call", macro: "m1", args: []string{"x"}},
		{kind: "call", macro: "m1", args: []string{"y"}},
		{kind: "call", macro: "m1", args: nil},
		{kind: "call", macro: "m2", args: []string{"1", "2"}},
		{kind: "call", macro: "m2", args: []string{"x"}},
		{kind: "call", macro: "m2", args: []string{"y", "x", "3"}},
	}
}

// bodies: every sequence of 1..maxLen statements from the alphabet
func c07Seqs(alpha []*c07St, maxLen int) [][]*c07St {
	var res [][]*c07St
	var rec func(cur []*c07St)
	rec = func(cur []*c07St) {
		if len(cur) > 0 {
			res = append(res, append([]*c07St{}, cur...))
		}
		if len(cur) == maxLen {
			return
		}
		for _, a := range alpha {
			rec(append(cur, a))
		}
	}
	rec(nil)
	return res
}

func c07Compounds(bodies [][]*c07St) []*c07St {
	var res []*c07St
	forms := [][2]string{{"x", ""}, {"y", ""}, {"z", ""}, {"x", "y"}, {"z", "x"}, {"y", "z"}}
	for _, b := range bodies {
		for _, f := range forms {
			res = append(res, &c07St{kind: "for", v: f[0], k: f[1], body: b})
		}
		// loops with an inline condition: the last / the first / every element is rejected
		res = append(res, &c07St{kind: "for", v: "x", filt: 1, body: b}, &c07St{kind: "for", v: "y", k: "x", filt: 1, body: b},
			&c07St{kind: "for", v: "z", filt: 2, body: b}, &c07St{kind: "for", v: "x", filt: 3, body: b})
		res = append(res, &c07St{kind: "if", cond: true, body: b}, &c07St{kind: "if", cond: false, body: b})
	}
	return res
}

// the alphabet is deterministic, so a program is identified by indices into it
func c07Alphabet(level int) []*c07St {
	leaves := append(c07Leaves(), c07Calls()...)
	if level == 0 {
		return leaves
	}
	inner := c07Seqs(leaves, 2)
	a1 := append(append([]*c07St{}, leaves...), c07Compounds(inner)...)
	if level == 1 {
		return a1
	}
	// level 2: compounds whose bodies hold one level-1 compound between leaves
	var bodies [][]*c07St
	for _, c := range c07Compounds(c07Seqs(c07Leaves(), 1)) {
		for _, l := range c07Leaves() {
			bodies = append(bodies, []*c07St{l, c}, []*c07St{c, l})
		}
		bodies = append(bodies, []*c07St{c})
	}
	return append(a1, c07Compounds(bodies)...)
}

func c07Env() *stick.Env {
	env := stick.New(nil)
	env.Functions["probe"] = func(ctx stick.Context, args ...stick.Value) stick.Value {
		if len(args) == 0 {
			return "?"
		}
		if _, ok := ctx.Scope().Get(stick.CoerceString(args[0])); ok {
			return "D"
		}
		return "U"
	}
	return env
}

var c07Alphas = map[int][]*c07St{}

// c07Deep: k nested loops; loop j binds x (the others bind their own names), the context defines x as well; the
// innermost body sees loop j's x, a macro called there sees its parameter, and afterwards x is the context's again.
func c07Deep(k, j int) core.Result {
	var sb strings.Builder
	for i := 1; i <= k; i++ {
		v := "q" + itoa(i)
		if i == j {
			v = "x"
		}
		sb.WriteString("{% for " + v + " in ['L" + itoa(i) + "'] %}")
	}
	sb.WriteString("<{{ x }}|{{ q1 }}|{{ _self.m1('P') }}|{{ x }}>")
	for i := 1; i <= k; i++ {
		sb.WriteString("{% endfor %}")
	}
	sb.WriteString("[{{ x }}|{{ probe('q1') }}|{{ probe('loop') }}]")
	wantX := "cx"
	if j >= 1 {
		wantX = "L" + itoa(j)
	}
	q1 := "L1"
	if j == 1 {
		q1 = ""
	}
	want := "<" + wantX + "|" + q1 + "|(x=P|D)|" + wantX + ">[cx|U|U]"
	src := c07Macros + sb.String()
	out, err, pan := tryExec(c07Env(), src, map[string]stick.Value{"x": "cx"})
	if pan != "" || err != nil {
		return core.Violation("error", fmt.Sprintf("%q: %v %s", src, err, pan))
	}
	if out != want {
		return core.Violation("scoping", fmt.Sprintf("%d nested loops, loop %d binding x: %s renders\n    %q, want\n    %q", k, j, sb.String(), out, want))
	}
	return core.Okay(true, out)
}

// c07Recursive: a macro that calls itself b times per level to depth n and prints its own parameters after the nested
// calls: every call still sees its own arguments when the nested calls have returned.
func c07Recursive(n, b int) core.Result {
	calls := ""
	for i := 0; i < b; i++ {
		calls += "{{ _self.f(n - 1, tag ~ '" + string(rune('a'+i)) + "') }}"
	}
	src := "{% macro f(n, tag) %}({{ tag }}{{ n }}{% if n > 0 %}" + calls + "{% endif %}{% for i in [1] %}{{ tag }}{% endfor %}{{ n }}){% endmacro %}{{ _self.f(" + itoa(n) + ", 't') }}[{{ probe('n') }}{{ probe('tag') }}]"
	var ref func(n int, tag string) string
	ref = func(n int, tag string) string {
		r := "(" + tag + itoa(n)
		if n > 0 {
			for i := 0; i < b; i++ {
				r += ref(n-1, tag+string(rune('a'+i)))
			}
		}
		return r + tag + itoa(n) + ")"
	}
	want := ref(n, "t") + "[UU]"
	out, err, pan := tryExec(c07Env(), src, nil)
	if pan != "" || err != nil {
		return core.Violation("error", fmt.Sprintf("%q: %v %s", src, err, pan))
	}
	if out != want {
		return core.Violation("scoping", fmt.Sprintf("%q renders\n    %q, want\n    %q", src, out, want))
	}
	return core.Okay(true, out)
}

// c07Args: the arguments of a macro call are evaluated in the caller's scope, before any parameter is bound: a call
// p(b, a) from a scope that has its own a and b swaps them, and the caller's a and b are what they were afterwards.
// form: 0 _self, 1 import alias, 2 from-import; wrap: 0 top level (a, b, c from the context), 1 a and b set by the
// template, 2 inside a loop whose variable is a, 3 inside another macro whose parameters are a, b, c.
func c07Args(form, wrap int, args []int) core.Result {
	exprs := []string{"a", "b", "c", "'L'", "a ~ b", "b ~ a", "c ~ a"}
	vals := map[string]string{"a": "A", "b": "B", "c": "C"}
	if wrap == 2 {
		vals["a"] = "I"
	}
	if wrap == 3 {
		vals = map[string]string{"a": "1", "b": "2", "c": "3"}
	}
	ev := func(i int) string {
		switch exprs[i] {
		case "'L'":
			return "L"
		case "a ~ b":
			return vals["a"] + vals["b"]
		case "b ~ a":
			return vals["b"] + vals["a"]
		case "c ~ a":
			return vals["c"] + vals["a"]
		}
		return vals[exprs[i]]
	}
	names := []string{"a", "b", "c"}[:len(args)]
	body := ""
	for _, n := range names {
		body += "{{ " + n + " }},"
	}
	mac := "{% macro p(" + strings.Join(names, ", ") + ") %}(" + body + "){% endmacro %}"
	var as, ws []string
	for _, i := range args {
		as = append(as, exprs[i])
		ws = append(ws, ev(i))
	}
	call := "_self.p(" + strings.Join(as, ", ") + ")"
	head := ""
	switch form {
	case 1:
		head = "{% import 'mac' as mm %}"
		call = "mm.p(" + strings.Join(as, ", ") + ")"
	case 2:
		head = "{% from 'mac' import p %}"
		call = "p(" + strings.Join(as, ", ") + ")"
	}
	obs := "[{{ a }}{{ b }}{{ c }}]"
	site := "{{ " + call + " }}" + obs
	want := "(" + strings.Join(ws, ",") + ",)[" + vals["a"] + vals["b"] + vals["c"] + "]"
	src := ""
	switch wrap {
	case 0:
		src = mac + head + site
	case 1:
		src = mac + head + "{% set a = 'A' %}{% set b = 'B' %}" + site
	case 2:
		src = mac + head + "{% for a in ['I'] %}" + site + "{% endfor %}" + obs
		want += "[ABC]"
	case 3:
		// the macro scope does not see the template's imports: the outer macro imports for itself
		src = mac + "{% macro outer(a, b, c) %}" + head + site + "{% endmacro %}" + head + "{{ _self.outer('1', '2', '3') }}" + obs
		want += "[ABC]"
	}
	env := c07Env()
	env.Loader = &stick.MemoryLoader{Templates: map[string]string{"main": src, "mac": mac}}
	out, err, pan := tryExec(env, "main", map[string]stick.Value{"a": "A", "b": "B", "c": "C"})
	if pan != "" || err != nil {
		return core.Violation("error", fmt.Sprintf("%q: %v %s", src, err, pan))
	}
	if out != want {
		return core.Violation("scoping", fmt.Sprintf("%q (context a=A b=B c=C) renders\n    %q, want\n    %q", src, out, want))
	}
	return core.Okay(true, out)
}

var c07AliasArgs = []string{"", "(['y'])", "(1)", "(1, 2)", "(',')", "({'k': 'y'})", "(['y', 'z', 'w'])", "(0, 1)"}

// c07Alias (twig environment): a body that assigns only to fresh local names leaves the outer variables exactly as they
// were - also when it derives its values from them with a built-in filter. base is a list of n elements (origin 0:
// accumulated with merge in a loop, 1: a context slice with spare capacity, 2: a literal); a = base|merge(['x']); the
// body applies filter f to base and to a, in a loop / if / macro / at the top level; a and base read the same afterwards.
func c07Alias(fi, ai, n, origin, wrap int) core.Result {
	f := c02FilterNames()[fi] + c07AliasArgs[ai]
	ctx := map[string]stick.Value{}
	var els []string
	for i := 1; i <= n; i++ {
		els = append(els, itoa(i))
	}
	build := ""
	switch origin {
	case 0:
		build = "{% set base = [] %}{% for i in [" + strings.Join(els, ", ") + "] %}{% set base = base|merge([i]) %}{% endfor %}"
	case 1:
		sl := make([]stick.Value, n, n+6)
		for i := range sl {
			sl[i] = i + 1
		}
		ctx["base"] = sl
	case 2:
		build = "{% set base = [" + strings.Join(els, ", ") + "] %}"
	case 3, 4: // a hash: written as a literal / passed in the context
		var ents []string
		m := map[string]stick.Value{}
		for i := 1; i <= n; i++ {
			ents = append(ents, "'k"+itoa(i)+"': "+itoa(i))
			m["k"+itoa(i)] = i
		}
		if origin == 3 {
			build = "{% set base = {" + strings.Join(ents, ", ") + "} %}"
		} else {
			ctx["base"] = m
		}
	}
	obs := "{{ a|join(',') }};{{ base|join(',') }};{{ a|length }};{{ base|length }}"
	use := "{% set tmp = base|" + f + " %}{% set tmp2 = a|" + f + " %}{% set tmp3 = base|merge(['q'])|" + f + " %}"
	mergeX := "['x']"
	if origin >= 3 {
		obs = "{{ a|json_encode|raw }};{{ base|json_encode|raw }};{{ a|length }};{{ base|length }}"
		use = "{% set tmp = base|" + f + " %}{% set tmp2 = a|" + f + " %}{% set tmp3 = base|merge({'q': 'q'})|" + f + " %}"
		mergeX = "{'x': 'x'}"
	}
	body := use
	switch wrap {
	case 1:
		body = "{% for j in [1] %}" + use + "{% endfor %}"
	case 2:
		body = "{% if true %}" + use + "{% endif %}"
	case 3:
		body = "{% macro m(base, a) %}" + use + "{% endmacro %}{{ _self.m(base, a) }}"
	}
	pre := build + "{% set a = base|merge(" + mergeX + ") %}"
	env := twig.New(nil)
	before, err, pan := tryExec(env, pre+obs, ctx)
	if pan != "" || err != nil {
		return core.Violation("error", fmt.Sprintf("%q: %v %s", pre+obs, err, pan))
	}
	want := strings.Join(append(append([]string{}, els...), "x"), ",") + ";" + strings.Join(els, ",") + ";" + itoa(n+1) + ";" + itoa(n)
	if origin >= 3 {
		var ents []string
		for i := 1; i <= n; i++ {
			ents = append(ents, "\"k"+itoa(i)+"\":"+itoa(i))
		}
		want = "{" + strings.Join(append(append([]string{}, ents...), "\"x\":\"x\""), ",") + "};{" + strings.Join(ents, ",") + "};" + itoa(n+1) + ";" + itoa(n)
	}
	if before != want {
		return core.Violation("scoping", fmt.Sprintf("%q renders %q, want %q", pre+obs, before, want))
	}
	src := pre + body + obs
	after, err, pan := tryExec(env, src, ctx)
	if pan != "" {
		return core.Violation("panic", fmt.Sprintf("%q panicked: %s", src, pan))
	}
	if err != nil {
		r := core.Okay(false, "filter-refuses-the-operands")
		r.Cnt = map[string]int64{"alias: filter refused the operands": 1}
		return r
	}
	if after != want {
		return core.Violation("scoping", fmt.Sprintf("%q renders %q: a and base read %q before the body, which assigns only to fresh names", src, after, want))
	}
	r := core.Okay(true, "alias-ok "+f)
	r.Cnt = map[string]int64{"alias: filter applied": 1}
	return r
}

// c07Snapshot: consumers of the whole scope - an include without 'only', a block rendered through block(), a host
// function reading Context.Scope().All() / Get - see, inside a loop body or a macro body, the innermost binding of a
// name (the loop's key, value and metadata, the macro's parameter), not an outer one. The loop variables are not
// mentioned by the body's own text. tw: the twig environment (template named *.txt: nothing is escaped).
func c07Snapshot(construct, reader, outer int, tw bool) core.Result {
	readX := []string{"{% include 'showx' %}", "{{ allget('x') }};", "{{ scopeget('x') }};", "{{ block('bx') }}"}[reader]
	readK := []string{"{% include 'showk' %}", "{{ allget('k') }}={{ allget('x') }};", "{{ scopeget('k') }}={{ scopeget('x') }};", "{{ block('bk') }}"}[reader]
	readL := []string{"{% include 'showl' %}", "{{ allget('loop').index }}/{{ allget('loop').length }};", "{{ scopeget('loop').index }}/{{ scopeget('loop').length }};", "{{ block('bl') }}"}[reader]
	defs := "{% block bx %}{{ x }};{% endblock %}{% block bk %}{{ k }}={{ x }};{% endblock %}{% block bl %}{{ loop.index }}/{{ loop.length }};{% endblock %}"
	ctx := map[string]stick.Value{}
	ox, ok := "", ""
	if outer >= 1 {
		ctx["x"], ctx["k"] = "OX", "OK"
		ox, ok = "OX", "OK"
	}
	pre := ""
	if outer == 2 {
		pre = "{% set x = 'SX' %}{% set k = 'SK' %}"
		ox, ok = "SX", "SK"
	}
	// the blocks render once in place, with the outer bindings (loop is undefined there)
	want := ox + ";" + ok + "=" + ox + ";/;|"
	src := ""
	switch construct {
	case 0: // loop over a list: the value
		src = "{% for x in ['a', 'b'] %}" + readX + "{% endfor %}"
		want += "a;b;"
	case 1: // key and value of a list
		src = "{% for k, x in ['a', 'b'] %}" + readK + "{% endfor %}"
		want += "0=a;1=b;"
	case 2: // key and value of a hash with one entry
		src = "{% for k, x in {'h': 'v'} %}" + readK + "{% endfor %}"
		want += "h=v;"
	case 3: // the metadata of the inner of two loops
		src = "{% for o in [1, 2] %}{% for i in [1, 2, 3] %}" + readL + "{% endfor %}{% endfor %}"
		want += "1/3;2/3;3/3;1/3;2/3;3/3;"
	case 4: // a macro parameter
		if reader == 3 {
			return core.Skipped("block-inside-macro") // block() from a macro body is not claimed
		}
		src = "{% macro m(x) %}" + readX + "{% endmacro %}{{ _self.m('P') }}"
		want += "P;"
		if reader == 0 {
			defs = "{% macro m(x) %}{% include 'showx' %}{% endmacro %}" + defs
			src = "{{ _self.m('P') }}"
		}
	case 5: // a loop inside a loop, both binding x
		src = "{% for x in ['a', 'b'] %}{% for x in ['c'] %}" + readX + "{% endfor %}" + readX + "{% endfor %}"
		want += "c;a;c;b;"
	}
	want += "|" + ox + ";" + ok
	main := defs + "|" + pre2(pre, src) + "|{{ x }};{{ k }}"
	if outer == 2 {
		// the sets stand before the blocks so that the in-place rendering sees them
		main = pre + defs + "|" + src + "|{{ x }};{{ k }}"
	}
	tpls := map[string]string{"main.txt": main, "showx": "{{ x }};", "showk": "{{ k }}={{ x }};", "showl": "{{ loop.index }}/{{ loop.length }};"}
	var env *stick.Env
	if tw {
		env = twig.New(&stick.MemoryLoader{Templates: tpls})
	} else {
		env = stick.New(&stick.MemoryLoader{Templates: tpls})
	}
	env.Functions["allget"] = func(c stick.Context, args ...stick.Value) stick.Value {
		return c.Scope().All()[stick.CoerceString(args[0])]
	}
	env.Functions["scopeget"] = func(c stick.Context, args ...stick.Value) stick.Value {
		v, _ := c.Scope().Get(stick.CoerceString(args[0]))
		return v
	}
	out, err, pan := tryExec(env, "main.txt", ctx)
	if pan != "" || err != nil {
		return core.Violation("error", fmt.Sprintf("%q (twig=%v, context %v): %v %s", main, tw, ctx, err, pan))
	}
	if out != want {
		return core.Violation("scoping", fmt.Sprintf("%q (twig=%v, context %v) renders\n    %q, want\n    %q", main, tw, ctx, out, want))
	}
	return core.Okay(true, out)
}

func pre2(pre, src string) string { return pre + src }

// c07HostLoop: the host passes a context entry named like the loop's own variable ("loop"): it is an ordinary outer
// variable - visible before the loop, shadowed by the loop's metadata inside (where it is loop.parent), exactly as it
// was afterwards, and visible to included templates and host functions outside the loop.
func c07HostLoop(form int, tw bool) core.Result {
	src := []string{
		"{{ loop }}|{% for i in [1, 2] %}{{ i }}:{{ loop.index }}/{{ loop.parent }};{% endfor %}|{{ loop }}",
		"{{ loop }}|{% for i in [1, 2] %}{% for j in [7] %}{{ loop.parent.parent }}{{ loop.parent.index }};{% endfor %}{% endfor %}|{{ loop }}",
		"{% include 'showouter' %}|{% for i in [1] %}{{ loop.length }}{% endfor %}|{% include 'showouter' %}{{ scopeget('loop') }}",
		"{% if loop %}T{% endif %}{{ loop ~ '!' }}|{% for k, v in {'a': 1} %}{{ k }}{{ loop.first }}{% endfor %}|{{ loop|length }}",
		"{% macro m(loop) %}<{{ loop }}>{% endmacro %}{{ _self.m('P') }}|{{ loop }}",
	}[form]
	want := []string{"outer|1:1/outer;2:2/outer;|outer", "outer|outer1;outer2;|outer", "outer;|1|outer;outer", "Touter!|a1|5", "<P>|outer"}[form]
	tpls := map[string]string{"main.txt": src, "showouter": "{{ loop }};"}
	var env *stick.Env
	if tw {
		env = twig.New(&stick.MemoryLoader{Templates: tpls})
	} else {
		env = stick.New(&stick.MemoryLoader{Templates: tpls})
		env.Filters["length"] = func(ctx stick.Context, val stick.Value, args ...stick.Value) stick.Value {
			return len(stick.CoerceString(val))
		}
	}
	env.Functions["scopeget"] = func(c stick.Context, args ...stick.Value) stick.Value {
		v, _ := c.Scope().Get(stick.CoerceString(args[0]))
		return v
	}
	for _, safe := range []bool{false, true} {
		var buf strings.Builder
		var err error
		pan := ""
		func() {
			defer func() {
				if p := recover(); p != nil {
					pan = panicInfo(p)
				}
			}()
			ctx := map[string]stick.Value{"loop": "outer"}
			if safe {
				err = env.ExecuteSafe("main.txt", &buf, ctx)
			} else {
				err = env.Execute("main.txt", &buf, ctx)
			}
		}()
		if pan != "" || err != nil {
			return core.Violation("error", fmt.Sprintf("%q with the context {loop: 'outer'} (twig=%v, safe=%v): %v %s", src, tw, safe, err, pan))
		}
		if buf.String() != want {
			return core.Violation("scoping", fmt.Sprintf("%q with the context {loop: 'outer'} (twig=%v, safe=%v) renders\n    %q, want\n    %q", src, tw, safe, buf.String(), want))
		}
	}
	return core.Okay(true, want)
}

func c07Run(c core.Case) core.Result {
	if c.Fam == "corner" {
		cs := []struct{ src, want string }{
			// the else branch of a loop over nothing is not the loop body: names that collide with the loop's targets are the outer ones there
			{"{% set item = 'outer' %}{% for item in [] %}B{% else %}none:{{ item }}{% endfor %}|{{ item }}", "none:outer|outer"},
			{"{% set k = 'K' %}{% set v = 'V' %}{% for k, v in {} %}B{% else %}[{{ k }}{{ v }}{{ probe('loop') }}]{% endfor %}|{{ k }}{{ v }}", "[KVU]|KV"},
			{"{% set n = 1 %}{% for x in [] %}{% else %}{% set n = n + 1 %}{% endfor %}{{ n }}|{% for x in [] %}{% else %}{% set n = n + 1 %}{% endfor %}{{ n }}", "2|3"},
			{"{% for x in nothing %}B{% else %}{{ x }}{{ cx }}{% endfor %}|{{ x }}", "CXcx|CX"},
			// names that only look like keywords are ordinary variables: set, macro parameter, loop target, context entry
			{"{% set None = 'n' %}{% set True = 't' %}[{{ None }}][{{ True }}][{{ Null }}]", "[n][t][ctx]"},
			{"{% macro m(False, Null) %}<{{ False }}{{ Null }}>{% endmacro %}{{ _self.m('a', 'b') }}[{{ Null }}]", "<ab>[ctx]"},
			{"{% for False in [1, 2] %}{{ False }}{% endfor %}{% for None, v in ['x'] %}{{ None }}{{ v }}{% endfor %}[{{ probe('False') }}{{ probe('None') }}]", "120x[UU]"},
			{"{% if true %}{% set Null = 'changed' %}{% endif %}{{ Null }}", "changed"},
		}[c.N[0]]
		out, err, pan := tryExec(c07Env(), cs.src, map[string]stick.Value{"x": "CX", "cx": "cx", "Null": "ctx"})
		if pan != "" || err != nil || out != cs.want {
			return core.Violation("scoping", fmt.Sprintf("%q renders %q (%v %s), want %q", cs.src, out, err, pan, cs.want))
		}
		return core.Okay(true, out)
	}
	if c.Fam == "macrolocals" {
		// a name first set inside a macro body is local to that call, whatever the macro's parameter list: N = arity 0..3, body 0..3, call site 0..2, via 0..2
		ar, body, site, via := c.N[0], c.N[1], c.N[2], c.N[3]
		params := []string{"pa", "pb", "pc"}[:ar]
		args := []string{"'1'", "'2'", "'3'"}[:ar]
		b, inside := "", "<in>"
		switch body {
		case 0:
			b = "{% set tmp = 'in' %}<{{ tmp }}>"
		case 1:
			b = "{% set tmp %}in{% endset %}<{{ tmp }}>"
		case 2:
			b, inside = "{% for q in [1] %}{% set tmp = 'in' %}{% endfor %}<{{ probe('tmp') }}>", "<U>"
		case 3:
			b = "{% if true %}{% set tmp = 'in' %}{% endif %}<{{ tmp }}>"
		}
		head, call := "", "_self.m("
		switch via {
		case 1:
			head, call = "{% import 'main.txt' as mm %}", "mm.m("
		case 2:
			head, call = "{% from 'main.txt' import m as mloc %}", "mloc("
		}
		call = "{{ " + call + strings.Join(args, ", ") + ") }}"
		switch site {
		case 1:
			call = "{% for z in [1] %}" + call + "{% endfor %}"
		case 2:
			call = "{% if true %}" + call + call + "{% endif %}"
			inside += inside
		}
		src := "{% macro m(" + strings.Join(params, ", ") + ") %}" + b + "{% endmacro %}" + head + call + "[{{ probe('tmp') }}{{ tmp }}]" +
			"{% for i in [1, 2] %}{% set tmp = tmp ~ i %}{% endfor %}[{{ probe('tmp') }}{{ tmp }}]" + call + "[{{ probe('tmp') }}]"
		want := inside + "[U][U]" + inside + "[U]"
		for tw := 0; tw < 2; tw++ {
			env := c07Env()
			if tw == 1 {
				env = twig.New(nil)
				env.Functions["probe"] = c07Env().Functions["probe"]
			}
			env.Loader = &stick.MemoryLoader{Templates: map[string]string{"main.txt": src}}
			out, err, pan := tryExec(env, "main.txt", nil)
			if pan != "" || err != nil || out != want {
				return core.Violation("scoping", fmt.Sprintf("%q (twig=%v) renders %q (%v %s), want %q", src, tw == 1, out, err, pan, want))
			}
		}
		return core.Okay(true, want)
	}
	if c.Fam == "macrotwice" {
		// a macro called repeatedly with equal arguments: its parameters are bound and its body is run for each call
		// (a counting callback inside the body shows it), and the parameter is undefined again after each
		n := c.N[0]
		calls := 0
		env := c07Env()
		env.Functions["count"] = func(ctx stick.Context, args ...stick.Value) stick.Value { calls++; return calls }
		src := "{% macro m(x) %}<{{ x }}:{{ count() }}:{{ probe('x') }}>{% endmacro %}{% for i in 1.." + itoa(n) + " %}{{ _self.m('k') }}{{ probe('x') }}{% endfor %}|{{ _self.m('k') }}{{ _self.m('k') }}"
		want := ""
		for i := 1; i <= n; i++ {
			want += "<k:" + itoa(i) + ":D>U"
		}
		want += "|<k:" + itoa(n+1) + ":D><k:" + itoa(n+2) + ":D>"
		out, err, pan := tryExec(env, src, nil)
		if pan != "" || err != nil || out != want {
			return core.Violation("scoping", fmt.Sprintf("%q renders ...%q (%v %s), want ...%q", src, tail(out, 60), err, pan, tail(want, 60)))
		}
		return core.Okay(true, itoa(n))
	}
	if c.Fam == "hostloop" {
		return c07HostLoop(c.N[0], c.N[1] == 1)
	}
	if c.Fam == "snapshot" {
		return c07Snapshot(c.N[0], c.N[1], c.N[2], c.N[3] == 1)
	}
	if c.Fam == "alias" {
		return c07Alias(c.N[0], c.N[1], c.N[2], c.N[3], c.N[4])
	}
	if c.Fam == "args" {
		return c07Args(c.N[0], c.N[1], c.N[2:])
	}
	if c.Fam == "deep" {
		return c07Deep(c.N[0], c.N[1])
	}
	if c.Fam == "rec" {
		return c07Recursive(c.N[0], c.N[1])
	}
	level := c.N[0]
	alpha, ok := c07Alphas[level]
	if !ok {
		alpha = c07Alphabet(level)
		c07Alphas[level] = alpha
	}
	var prog []*c07St
	// N[1]: initial context (0: empty, 1: x defined, 2: x and y defined, 3: x and y defined as null)
	for _, i := range c.N[2:] {
		if i >= len(alpha) {
			return core.Skipped("index")
		}
		prog = append(prog, alpha[i])
	}
	prog = append(prog, &c07St{kind: "obs"})
	p := &c07Printer{}
	p.print(prog)
	src := c07Macros + p.sb.String()
	ctx := map[string]stick.Value{}
	ref := &c07Ref{scopes: []map[string]string{{}}}
	if c.N[1] >= 1 {
		ctx["x"] = "cx"
		ref.scopes[0]["x"] = "cx"
	}
	if c.N[1] == 2 {
		ctx["y"] = "cy"
		ref.scopes[0]["y"] = "cy"
	}
	if c.N[1] == 3 { // x and y exist but hold null
		ctx["x"], ctx["y"] = nil, nil
		ref.scopes[0]["x"], ref.scopes[0]["y"] = "", ""
	}
	ref.run(prog)
	if ref.unspec != "" {
		return core.Skipped(ref.unspec)
	}
	out, err, pan := tryExec(c07Env(), src, ctx)
	if pan != "" {
		return core.Violation("panic", fmt.Sprintf("%q panicked: %s", src, pan))
	}
	if err != nil {
		return core.Violation("error", fmt.Sprintf("%q does not render: %v", src, err))
	}
	if want := ref.out.String(); out != want {
		return core.Violation("scoping", fmt.Sprintf("%s (context %v) renders\n    %q, want\n    %q", p.sb.String(), ctx, out, want))
	}
	if c.N[1] == 0 && (level == 0 || len(c.N) == 3) {
		// (flat programs and single compound statements:) the empty context also as a nil map, executed twice on one environment: whatever the first execution
		// assigned is gone in the second
		env := c07Env()
		for round := 1; round <= 2; round++ {
			out, err, pan := tryExec(env, src, nil)
			if pan != "" || err != nil {
				return core.Violation("error", fmt.Sprintf("%q with a nil context (execution %d): %v %s", src, round, err, pan))
			}
			if want := ref.out.String(); out != want {
				return core.Violation("scoping", fmt.Sprintf("%s with a nil context, execution %d on the same environment, renders\n    %q, want\n    %q", p.sb.String(), round, out, want))
			}
		}
	}
	return core.Okay(len(prog) > 1, out)
}

func c07Gen(level, maxLen int, ctxs []int, emit func(core.Case)) {
	n := len(c07Alphabet(level))
	for _, cx := range ctxs {
		for l := 1; l <= maxLen; l++ {
			idx := make([]int, l)
			for {
				emit(core.Case{Fam: "prog", N: append([]int{level, cx}, idx...)})
				j := l - 1
				for j >= 0 {
					idx[j]++
					if idx[j] < n {
						break
					}
					idx[j] = 0
					j--
				}
				if j < 0 {
					break
				}
			}
		}
	}
}

func c07Levels(tier string) []core.Level {
	lv := []core.Level{
		{Name: "depth: 1..20 nested loops with x bound by the context and by each single loop level (or none); a macro calling itself 1..3 times per level to depth 0..5 and reading its parameters after the nested calls", Gen: func(emit func(core.Case)) {
			for k := 1; k <= 20; k++ {
				for j := 0; j <= k; j++ {
					emit(core.Case{Fam: "deep", N: []int{k, j}})
				}
			}
			for b := 1; b <= 3; b++ {
				for n := 0; n <= 5; n++ {
					emit(core.Case{Fam: "rec", N: []int{n, b}})
				}
			}
		}},
		{Name: "macro arguments named like the parameters: p(a, b) and p(a, b, c) called with every argument list over {a, b, c, 'L', a ~ b, b ~ a, c ~ a} (49 + 343) through _self / an import alias / a from-import, from the top level, after sets, inside a loop over a, and inside another macro with parameters a, b, c: each parameter is the argument's value in the caller's scope, and the caller's variables are unchanged afterwards", Gen: func(emit func(core.Case)) {
			for form := 0; form < 3; form++ {
				for wrap := 0; wrap < 4; wrap++ {
					for i := 0; i < 7; i++ {
						for j := 0; j < 7; j++ {
							emit(core.Case{Fam: "args", N: []int{form, wrap, i, j}})
							for k := 0; k < 7; k++ {
								emit(core.Case{Fam: "args", N: []int{form, wrap, i, j, k}})
							}
						}
					}
				}
			}
		}},
		{Name: fmt.Sprintf("twig environment, no aliasing between variables: a body (top level / loop / if / macro) that assigns the result of every built-in filter (%d) x %d argument lists applied to a list variable and to a value derived from it only to fresh names; lists of 0..9 elements accumulated with merge, passed as a context slice with spare capacity, or written as a literal, and hashes of 0..9 entries written as a literal or passed in the context: the outer variables read exactly as before", len(c02FilterNames()), len(c07AliasArgs)), Gen: func(emit func(core.Case)) {
			for fi := range c02FilterNames() {
				for ai := range c07AliasArgs {
					for n := 0; n <= 9; n++ {
						for origin := 0; origin < 5; origin++ {
							for wrap := 0; wrap < 4; wrap++ {
								emit(core.Case{Fam: "alias", N: []int{fi, ai, n, origin, wrap}})
							}
						}
					}
				}
			}
		}},
		{Name: "readers of the whole scope (include without only, Scope().All(), Scope().Get(), block()) inside 6 binding constructs (loop value / key+value over a list and a hash / inner loop metadata / macro parameter / loop in loop) whose own text does not mention the variable x 3 outer states x core and twig environments: the innermost binding is what they see, the outer one again afterwards; a host context entry named loop is an ordinary outer variable (5 templates x core / twig x Execute / ExecuteSafe)", Gen: func(emit func(core.Case)) {
			for construct := 0; construct < 6; construct++ {
				for reader := 0; reader < 4; reader++ {
					for outer := 0; outer < 3; outer++ {
						for tw := 0; tw < 2; tw++ {
							emit(core.Case{Fam: "snapshot", N: []int{construct, reader, outer, tw}})
						}
					}
				}
			}
			for _, n := range []int{1, 2, 3, 5, 100, 101, 150} {
				emit(core.Case{Fam: "macrotwice", N: []int{n}})
			}
			for k := 0; k < 8; k++ {
				emit(core.Case{Fam: "corner", N: []int{k}})
			}
			for ar := 0; ar <= 3; ar++ {
				for body := 0; body < 4; body++ {
					for site := 0; site < 3; site++ {
						for via := 0; via < 3; via++ {
							emit(core.Case{Fam: "macrolocals", N: []int{ar, body, site, via}})
						}
					}
				}
			}
			// a context entry of the host named "loop": 5 templates x core / twig x Execute / ExecuteSafe
			for form := 0; form < 5; form++ {
				for tw := 0; tw < 2; tw++ {
					emit(core.Case{Fam: "hostloop", N: []int{form, tw}})
				}
			}
		}},
		{Name: "flat programs: every sequence of <= 4 statements (set x, set y, observe, 7 macro calls) x 4 initial contexts", Gen: func(emit func(core.Case)) { c07Gen(0, 4, []int{0, 1, 2, 3}, emit) }},
		{Name: fmt.Sprintf("depth 1: every sequence of <= 2 statements over %d (leaves + for/if around every body of <= 2 leaves, 6 loop-variable forms) x 3 contexts (empty, x and y defined, x and y null)", len(c07Alphabet(1))), Gen: func(emit func(core.Case)) { c07Gen(1, 2, []int{0, 2, 3}, emit) }},
		{Name: "depth 2: every single statement and every pair with a leaf, compounds nested in compounds", Gen: func(emit func(core.Case)) {
			n1, n2 := len(c07Alphabet(1)), len(c07Alphabet(2))
			for _, cx := range []int{0, 1, 2, 3} {
				for i := n1; i < n2; i++ {
					emit(core.Case{Fam: "prog", N: []int{2, cx, i}})
					for l := 0; l < 3; l++ {
						emit(core.Case{Fam: "prog", N: []int{2, cx, l, i}})
						emit(core.Case{Fam: "prog", N: []int{2, cx, i, l}})
					}
				}
			}
		}},
	}
	if thorough(tier) {
		lv = append(lv, core.Level{Name: "depth 1: every sequence of 3 statements, empty context", Gen: func(emit func(core.Case)) {
			n := len(c07Alphabet(1))
			for a := 0; a < n; a++ {
				for b := 0; b < n; b++ {
					for c := 0; c < n; c += 1 {
						if c >= 10 && c%29 != (a+b)%29 { // the third statement ranges over all leaves/calls and a residue class of the compounds
							continue
						}
						emit(core.Case{Fam: "prog", N: []int{1, 0, a, b, c}})
					}
				}
			}
		}})
	}
	return lv
}

func init() {
	core.Register(&core.Check{
		ID:       "C07",
		Category: "exploration",
		Rule: "every program of the stated size over: set x / set y (each with its own literal), an observation printing x, y, z and their definedness (through Context.Scope().Get) and that of 'loop', 7 macro calls (parameter x; parameters y,x with an assignment to the parameter; missing / surplus arguments; variable arguments), for loops over 2 elements in 6 variable forms (value x/y/z, key/value pairs colliding with outer names) and 4 forms with an inline condition that rejects the last / the first / every element, and if true/false, nested to depth 2, from 4 initial contexts (empty, x defined, x and y defined, x and y defined as null); each program ends with an observation. " +
			"Reference: exactly the statement (locals shadow and vanish, outer variables untouched unless assigned, top-level and in-branch set persists, set to an existing unshadowed outer variable updates it, first-set-in-loop does not survive). distinct = distinct program x context; non-trivial = more than the final observation",
		Assumptions: []string{
			"unspecified and skipped (counted): assignment to a currently shadowed name; reading, in a later iteration, a variable first set in an earlier iteration of the same loop (Twig keeps it, stick does not; the statement is silent)",
			"macro bodies touch only their parameters (stick's macro scope differs from Twig's for outer variables)",
		},
		Levels:  c07Levels,
		Run:     c07Run,
		NoDedup: true,
		Budget:  budget(5*time.Minute, 45*time.Minute),
	})
}
