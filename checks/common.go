// Package checks holds one bounded-exhaustive check per property (C01..C20).
package checks

import (
	"bytes"
	"fmt"
	"os"
	"path/filepath"
	"runtime/debug"
	"strings"
	"time"

	"github.com/tyler-sommer/stick"
	"github.com/tyler-sommer/stick/parse"
	"github.com/tyler-sommer/stick/twig"

	"verif/core"
)

func budget(quick, thorough time.Duration) func(string) time.Duration {
	return func(tier string) time.Duration {
		if tier == "thorough" {
			return thorough
		}
		return quick
	}
}

func thorough(tier string) bool { return tier == "thorough" }

// panicInfo describes a recovered panic briefly: value and innermost stick frame.
func panicInfo(p interface{}) string {
	st := string(debug.Stack())
	frame := ""
	lines := strings.Split(st, "\n")
	for i, ln := range lines {
		if strings.Contains(ln, "tyler-sommer/stick") && !strings.HasPrefix(ln, "\t") {
			frame = strings.TrimSpace(ln)
			if i+1 < len(lines) {
				frame += " @ " + strings.TrimSpace(lines[i+1])
			}
			break
		}
	}
	return fmt.Sprintf("%v [%s]", p, frame)
}

// tryParse calls parse.Parse, recovering panics on the calling goroutine.
func tryParse(src string) (tree *parse.Tree, err error, pan string) {
	defer func() {
		if p := recover(); p != nil {
			pan = panicInfo(p)
		}
	}()
	tree, err = parse.Parse(src)
	return
}

// tryEnvParse calls env.Parse(name), recovering panics.
func tryEnvParse(env *stick.Env, name string) (tree *parse.Tree, err error, pan string) {
	defer func() {
		if p := recover(); p != nil {
			pan = panicInfo(p)
		}
	}()
	tree, err = env.Parse(name)
	return
}

// tryExec calls env.Execute, recovering panics.
func tryExec(env *stick.Env, name string, ctx map[string]stick.Value) (out string, err error, pan string) {
	var buf bytes.Buffer
	defer func() {
		out = buf.String()
		if p := recover(); p != nil {
			pan = panicInfo(p)
		}
	}()
	err = env.Execute(name, &buf, ctx)
	return
}

func memEnv(tpls map[string]string) *stick.Env {
	return stick.New(&stick.MemoryLoader{Templates: tpls})
}

func twigMemEnv(tpls map[string]string) *stick.Env {
	return twig.New(&stick.MemoryLoader{Templates: tpls})
}

func errStr(err error) string {
	if err == nil {
		return "<nil>"
	}
	return err.Error()
}

func q(s string) string { return fmt.Sprintf("%q", s) }

var _ = core.OK

// fsPut writes a template file below dir and pins its modification time (a loader that trusts size and whole-second
// timestamps cannot tell two such versions apart).
func fsPut(dir, name, content string) error {
	p := filepath.Join(dir, name)
	os.MkdirAll(filepath.Dir(p), 0o755)
	if err := os.WriteFile(p, []byte(content), 0o644); err != nil {
		return err
	}
	pinned := time.Date(2020, 2, 3, 4, 5, 6, 0, time.UTC)
	return os.Chtimes(p, pinned, pinned)
}

// fsFreshDir returns a scratch directory for loader-freshness histories.
func fsFreshDir(tag string) string {
	dir := filepath.Join(core.WorkDir, tag)
	if core.WorkDir == "" {
		dir, _ = os.MkdirTemp("", tag)
	}
	os.RemoveAll(dir)
	os.MkdirAll(dir, 0o755)
	return dir
}

// seq returns lo, lo+1, ..., hi.
func seq(lo, hi int) []int {
	var r []int
	for i := lo; i <= hi; i++ {
		r = append(r, i)
	}
	return r
}
