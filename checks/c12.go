package checks

import (
	"bytes"
	"fmt"
	"strings"
	"time"

	"github.com/tyler-sommer/stick"
	"github.com/tyler-sommer/stick/twig"
	"github.com/tyler-sommer/stick/twig/escape"

	"verif/core"
)

// C12 — auto-escaping: no unescaped data reaches the output of a Twig environment.
// Oracles use the decoders of C13 (repair-agnostic): a directly printed value must be escaped
// exactly once for the template's content type (its escaped form decodes to the payload and lies
// in the inert alphabet); a value that reaches the output through a capture, macro result or
// parent() must be inert.

var c12Payloads = []string{"<", ">", "\"", "'", "&", "</script>", "\\", ";", "\n", "€", "\U0001F600", "<a href=\"x\">&'\\;", "plain"}

// name variants: extension -> expected content type ("" = no escaping)
type c12Name struct {
	ext, typ string
}

var c12Names = []c12Name{
	{".html", "html"}, {".html.twig", "html"}, {".js", "js"}, {".js.twig", "js"}, {".css", "css"}, {".css.twig", "css"},
	{".txt", ""}, {".txt.twig", ""}, {"", "html"}, {".xml", "html"}, {".", "html"}, {".unknown.twig", "html"}, {".twig", "html"},
	// several dots, directories, upper case in the directory part: the last extension counts
	{".min.js", "js"}, {".v2.txt", ""}, {".bundle.css.twig", "css"}, {".js.html", "html"}, {".d/x.js", "js"}, {".html/y.txt", ""},
}

const c12Positions = 37

// inline sources (the template name is the source) ending in text that looks like a file extension
var c12InlineSuffix = map[int]string{2: "v1.0 e.g. end", 3: " see notes.txt", 4: " app.js", 5: " x.css.twig"}

// c12Scenario builds the templates of print position pos with the print expression E.
// direct reports whether the value is printed directly to the final output.
// crossType: positions 22..24 mix content types and fix their own names; they return the content type that must apply to the print.
func c12Scenario(pos int, ext, E string) (tpls map[string]string, main string, direct bool) {
	tpls, main, direct, _ = c12ScenarioX(pos, ext, E)
	return
}

func c12ScenarioX(pos int, ext, E string) (tpls map[string]string, main string, direct bool, crossType string) {
	t := func(n string) string { return n + ext }
	p := "AQ{{ " + E + " }}QZ"
	inner := "Q{{ " + E + " }}Q"
	tpls = map[string]string{}
	main = t("t")
	direct = true
	switch pos {
	case 0:
		tpls[main] = p
	case 1:
		tpls[main] = "A{% if true %}" + inner + "{% endif %}Z"
	case 2:
		tpls[main] = "A{% if false %}n{% else %}" + inner + "{% endif %}Z"
	case 3:
		tpls[main] = "A{% if false %}n{% elseif true %}" + inner + "{% endif %}Z"
	case 4:
		tpls[main] = "A{% for i in [1] %}" + inner + "{% endfor %}Z"
	case 5:
		tpls[main] = "A{% for i in [] %}n{% else %}" + inner + "{% endfor %}Z"
	case 6:
		tpls[main] = "A{% block b %}" + inner + "{% endblock %}Z"
	case 7:
		tpls[main] = "A{% block b %}{% block c %}" + inner + "{% endblock %}{% endblock %}Z"
	case 8:
		tpls[main] = "{% extends '" + t("base") + "' %}{% block b %}" + inner + "{% endblock %}"
		tpls[t("base")] = "A{% block b %}x{% endblock %}Z"
	case 9:
		tpls[main] = "{% extends '" + t("base") + "' %}{% block b %}{{ parent() }}{% endblock %}"
		tpls[t("base")] = "A{% block b %}" + inner + "{% endblock %}Z"
		direct = false
	case 10:
		tpls[main] = "{% extends '" + t("base") + "' %}"
		tpls[t("base")] = "A{% block b %}" + inner + "{% endblock %}Z"
	case 11:
		tpls[main] = "A{% include '" + t("inc") + "' %}Z"
		tpls[t("inc")] = inner
	case 12:
		tpls[main] = "A{% embed '" + t("emb") + "' %}{% endembed %}Z"
		tpls[t("emb")] = "{% block b %}" + inner + "{% endblock %}"
	case 13:
		tpls[main] = "A{% embed '" + t("emb") + "' %}{% block b %}" + inner + "{% endblock %}{% endembed %}Z"
		tpls[t("emb")] = "{% block b %}x{% endblock %}"
	case 14:
		tpls[main] = "{% set cap %}" + inner + "{% endset %}A{{ cap }}Z"
		direct = false
	case 15:
		tpls[main] = "A{% filter idf %}" + inner + "{% endfilter %}Z"
	case 16:
		tpls[main] = "{% macro m(x, o, c) %}" + inner + "{% endmacro %}A{{ _self.m(x, o, c) }}Z"
		direct = false
	case 17:
		tpls[main] = "{% import '" + t("mac") + "' as mm %}A{{ mm.m(x, o, c) }}Z"
		tpls[t("mac")] = "{% macro m(x, o, c) %}" + inner + "{% endmacro %}"
		direct = false
	// results of captures marked raw by the author: the print inside must have escaped the value (exactly once)
	case 18:
		tpls[main] = "{% macro m(x, o, c) %}" + inner + "{% endmacro %}A{{ _self.m(x, o, c)|raw }}Z"
	case 19:
		tpls[main] = "{% set cap %}" + inner + "{% endset %}A{{ cap|raw }}Z"
	case 20:
		tpls[main] = "{% extends '" + t("base") + "' %}{% block b %}{{ parent()|raw }}{% endblock %}"
		tpls[t("base")] = "A{% block b %}" + inner + "{% endblock %}Z"
	case 21:
		tpls[main] = "A{% if false %}{% block b %}" + inner + "{% endblock %}{% endif %}{{ block('b')|raw }}Z"
	// mixed content types: the type of the template in which the print is written applies
	case 22: // an html page includes a js partial
		main = "page.html"
		tpls[main] = "A{% include 'part.js' %}Z"
		tpls["part.js"] = inner
		crossType = "js"
	case 23: // a js child extends an html base and overrides the block
		main = "child.js"
		tpls[main] = "{% extends 'base.html' %}{% block b %}" + inner + "{% endblock %}"
		tpls["base.html"] = "A{% block b %}x{% endblock %}Z"
		crossType = "js"
	case 24: // a js child extends an html base; the print is in the base's own block
		main = "child.js"
		tpls[main] = "{% extends 'base.html' %}{% block other %}{% endblock %}"
		tpls["base.html"] = "A{% block b %}" + inner + "{% endblock %}Z"
		crossType = "html"
	// two blocks of the same name in one file
	case 25: // two embeds overriding the same block; the print is in the later one
		tpls[main] = "{% embed '" + t("emb") + "' %}{% block b %}{% endblock %}{% endembed %}A{% embed '" + t("emb") + "' %}{% block b %}" + inner + "{% endblock %}{% endembed %}Z"
		tpls[t("emb")] = "{% block b %}x{% endblock %}"
	case 26: // a block containing an embed that overrides a block of the same name
		tpls[main] = "A{% block b %}{% embed '" + t("emb") + "' %}{% block b %}" + inner + "{% endblock %}{% endembed %}{% endblock %}Z"
		tpls[t("emb")] = "{% block b %}x{% endblock %}"
	case 27: // an overriding block that first embeds something overriding the same name, then prints
		tpls[main] = "{% extends '" + t("base") + "' %}{% block b %}{% embed '" + t("emb") + "' %}{% block b %}{% endblock %}{% endembed %}" + inner + "{% endblock %}"
		tpls[t("base")] = "A{% block b %}x{% endblock %}Z"
		tpls[t("emb")] = "{% block b %}x{% endblock %}"
	// macros defined in a template that extends another
	case 29: // imported from elsewhere, the result marked raw by the author: the print inside must have escaped the value
		tpls[main] = "{% import '" + t("forms") + "' as mm %}A{{ mm.m(x, o, c)|raw }}Z"
		tpls[t("forms")] = "{% extends '" + t("base") + "' %}{% macro m(x, o, c) %}" + inner + "{% endmacro %}{% block b %}{% endblock %}"
		tpls[t("base")] = "{% block b %}x{% endblock %}"
	case 30: // the same through from-import
		tpls[main] = "{% from '" + t("forms") + "' import m %}A{{ m(x, o, c)|raw }}Z"
		tpls[t("forms")] = "{% extends '" + t("base") + "' %}{% block b %}{% endblock %}{% macro m(x, o, c) %}" + inner + "{% endmacro %}"
		tpls[t("base")] = "{% block b %}x{% endblock %}"
	// loops with an inline condition (their body hangs below an if node in the tree), key / value loops, deeper nestings
	case 31:
		tpls[main] = "A{% for i in [1] if true %}" + inner + "{% endfor %}Z"
	case 32:
		tpls[main] = "A{% for i in [] if true %}n{% else %}" + inner + "{% endfor %}Z"
	case 33:
		tpls[main] = "A{% for k, v in {'a': 1} %}" + inner + "{% endfor %}Z"
	case 34:
		tpls[main] = "A{% if true %}{% for i in [1] %}{% if false %}n{% elseif false %}n{% else %}" + inner + "{% endif %}{% endfor %}{% endif %}Z"
	case 35:
		tpls[main] = "A{% for i in [1] if true %}{% for k, j in [1] if j %}" + inner + "{% endfor %}{% endfor %}Z"
	case 36:
		tpls[main] = "A{% block b %}{% for i in [1, 2] if i > 1 %}{% if i %}" + inner + "{% endif %}{% endfor %}{% endblock %}Z"
	case 28: // the same name at two nesting levels of embeds
		tpls[main] = "A{% embed '" + t("emb") + "' %}{% block b %}{% embed '" + t("emb") + "' %}{% block b %}" + inner + "{% endblock %}{% endembed %}{% endblock %}{% endembed %}Z"
		tpls[t("emb")] = "{% block b %}x{% endblock %}"
	}
	return
}

var c12Forms = []string{"x", "o.attr", "f()", "(x ~ '')", "(c ? x : '')", "\"#{x}\""}

// modifiers: 0 none, 1 raw, 2 escape, 3 escape('html'), 4 escape(own type), 5 escape('js'), 6 safe for the same type, 7 safe for another type
const c12Mods = 14 // 12: marked safe with an empty list of content types, 13: a user-defined SafeValue that is safe for nothing (neither gets around escaping); 11: marked safe for a custom content type only; 10: marked safe for another type, then re-wrapped as safe for the own type (the re-wrap is discarded)

// c12SafeForNothing is a user-defined SafeValue that declares no content type.
type c12SafeForNothing struct{ v stick.Value }

func (c c12SafeForNothing) Value() stick.Value     { return c.v }
func (c c12SafeForNothing) IsSafe(typ string) bool { return false }
func (c c12SafeForNothing) SafeFor() []string      { return nil }

type c12Loader struct{ m map[string]string }

// c12NamePolicy: what the Template handed out by the loader reports as its Name() - a host-written loader may report
// a record key, nothing, or a revision-suffixed name; the content type is that of the name the template was asked for
var c12NamePolicy int

// c12OtherEnv: other environments with other escapers are built and used before the environment under test renders
var c12OtherEnv bool

func c12Reported(name string) string {
	switch c12NamePolicy {
	case 1:
		return "templates:17"
	case 2:
		return ""
	case 3:
		return name + "@rev.12"
	case 4:
		return "blobs/0001.txt"
	case 5:
		return "cache/" + name + ".js"
	}
	return name
}

func (l *c12Loader) Load(name string) (stick.Template, error) {
	if s, ok := l.m[name]; ok {
		return &memTpl{c12Reported(name), s}, nil
	}
	return &memTpl{name, name}, nil // inline template: the name is the source
}

func c12Escaper(typ string) *escaper {
	for i := range escapers {
		if escapers[i].name == typ {
			return &escapers[i]
		}
	}
	return nil
}

// onceEscaped checks that mid is payload escaped exactly once for typ ("" = verbatim).
func c12Once(typ, mid, payload string) (string, string) {
	if typ == "" {
		if mid != payload {
			return "not-verbatim", fmt.Sprintf("expected the value verbatim, got %q", mid)
		}
		return "", ""
	}
	e := c12Escaper(typ)
	if msg := e.alphabet(mid); msg != "" {
		return "unescaped", fmt.Sprintf("the printed form %q is not inert for %s: %s", mid, typ, msg)
	}
	dec, ok := e.decode(mid)
	if !ok || dec != payload {
		if typ == "css" && cssOnlyUnterminated(*e, payload) {
			return "wrong-escaping/css-escape-not-self-terminating", fmt.Sprintf("the printed form %q reads back as %q in css (each character's escape is correct alone)", mid, dec)
		}
		return "wrong-escaping", fmt.Sprintf("the printed form %q reads back as %q in %s, not as the value %q (not escaped exactly once)", mid, dec, typ, payload)
	}
	return "", ""
}

// c12Inert: the printed form must lie in the inert alphabet of the template's content type.
func c12Inert(typ, mid, desc, out string) core.Result {
	if msg := c12Escaper(typ).alphabet(mid); msg != "" {
		return core.Violation("unescaped", fmt.Sprintf("%s renders %q: the printed form %q is not inert for %s: %s", desc, out, mid, typ, msg))
	}
	return core.Okay(true, "inert "+mid)
}

// carriers: Go values other than strings whose text (through Stringer) is the payload. The text is held in a
// package variable (a worker runs one case at a time).
var c12Carried string

type c12SInt int
type c12SI64 int64
type c12SU8 uint8
type c12SBool bool
type c12SF64 float64
type c12SF32 float32
type c12SStruct struct{ n int }
type c12SPtr struct{ n int }

func (c12SInt) String() string    { return c12Carried }
func (c12SI64) String() string    { return c12Carried }
func (c12SU8) String() string     { return c12Carried }
func (c12SBool) String() string   { return c12Carried }
func (c12SF64) String() string    { return c12Carried }
func (c12SF32) String() string    { return c12Carried }
func (c12SStruct) String() string { return c12Carried }
func (*c12SPtr) String() string   { return c12Carried }

var c12Carriers = []func() stick.Value{
	nil, // 0: the payload itself, a string
	func() stick.Value { return c12SInt(7) },
	func() stick.Value { return c12SI64(0) },
	func() stick.Value { return c12SU8(200) },
	func() stick.Value { return c12SBool(true) },
	func() stick.Value { return c12SBool(false) },
	func() stick.Value { return c12SF64(1.5) },
	func() stick.Value { return c12SF32(2) },
	func() stick.Value { return c12SStruct{1} },
	func() stick.Value { return &c12SPtr{1} },
}

// c12InlineSize: an inline template (the source is its own name, served by the StringLoader of twig.New(nil)) is html
// whatever its size and layout: n bytes of padding inside the print's delimiters (blanks / line breaks), in front of the
// print or behind it, and text that ends like a file name (" notes.txt", ".js", ".css.twig", ".html_attr") at the end.
// c12BracePrefix: template text (and what it renders as) whose braces open no delimiter
var c12BracePrefix = [][2]string{{"body { color: red } ", "body { color: red } "}, {"{ \"k\": 1 } ", "{ \"k\": 1 } "}, {"if (a) { ", "if (a) { "}, {"}{ ", "}{ "}, {"{", "{"},
	{"a{b{c ", "a{b{c "}, {"{ {% if true %}{% endif %}", "{ "}, {"{}{# c #}", "{}"}, {"{ }.x{ ", "{ }.x{ "}, {"{\n", "{\n"}}

func c12InlineSize(pi, padKind, n, si int) core.Result {
	payload := c12Payloads[pi]
	suffix := []string{"", " see notes.txt", " app.js", " x.css.twig", ".url", ".txt"}[si]
	pad := ""
	src := ""
	switch padKind {
	case 0:
		pad = strings.Repeat(" ", n)
		src = "AQ{{ x" + pad + " }}QZ" + suffix
	case 1:
		pad = strings.Repeat("\n", n)
		src = "AQ{{" + pad + "x }}QZ" + suffix
	case 2:
		pad = strings.Repeat("p", n)
		src = pad + "AQ{{ x }}QZ" + suffix
	case 3:
		pad = strings.Repeat("p", n)
		src = "AQ{{ x }}QZ" + pad + suffix
	case 5: // text with braces that open no delimiter (a style rule, a JSON object, a function body) in front of the first tag
		pad = c12BracePrefix[n][0]
		src = pad + "AQ{{ x }}QZ" + suffix
		pad = c12BracePrefix[n][1]
	case 4: // a long list laid out one element per line inside the last tag
		var els []string
		for i := 0; i < n/4+1; i++ {
			els = append(els, "\n  "+itoa(i%10))
		}
		pad = "{% if [" + strings.Join(els, ",") + "\n] %}{% endif %}"
		src = "AQ{{ x }}QZ" + pad + suffix
		pad = ""
	}
	out, err, pan := tryExec(twig.New(nil), src, map[string]stick.Value{"x": payload})
	desc := fmt.Sprintf("inline template of %d bytes (padding kind %d, %d bytes; ends in %q) with value %q", len(src), padKind, n, suffix, payload)
	if pan != "" || err != nil {
		return core.Violation("error", fmt.Sprintf("%s: %v %s", desc, err, pan))
	}
	want := "AQ" + escape.HTML(payload) + "QZ" + suffix
	switch padKind {
	case 2, 5:
		want = pad + want
	case 3:
		want = "AQ" + escape.HTML(payload) + "QZ" + pad + suffix
	}
	if out != want {
		return core.Violation("unescaped", fmt.Sprintf("%s renders ...%q, want ...%q (an inline template is html)", desc, tail(out, 60), tail(want, 60)))
	}
	return core.Okay(true, itoa(len(out)))
}

// c12FilterSafe: a built-in filter applied to an untrusted multi-line value never turns it into trusted markup: what
// is printed in an html template is inert once the tags the filter itself inserts (<br />, <br>) are taken out.
func c12FilterSafe(fi, pi, ni int) core.Result {
	f := c02FilterNames()[fi]
	payload := "l1 " + c12Payloads[pi] + "\nl2 " + c12Payloads[pi] + "\r\nl3"
	name := []string{"t.html", "t", "t.unknownext", "{{ x|" + f + " }}"}[ni]
	env := twig.New(&c12Loader{map[string]string{"t.html": "{{ x|" + f + " }}", "t": "{{ x|" + f + " }}", "t.unknownext": "{{ x|" + f + " }}"}})
	out, err, pan := tryExec(env, name, map[string]stick.Value{"x": payload})
	if pan != "" {
		return core.Violation("panic", fmt.Sprintf("{{ x|%s }} panicked: %s", f, pan))
	}
	if err != nil || f == "raw" {
		return core.Okay(false, "n/a")
	}
	stripped := strings.NewReplacer("<br />", "", "<br/>", "", "<br>", "").Replace(out)
	if msg := c12Escaper("html").alphabet(stripped); msg != "" {
		return core.Violation("unescaped", fmt.Sprintf("{{ x|%s }} in %q with x = %q renders %q, which is not inert for html: %s", f, name, payload, out, msg))
	}
	return core.Okay(true, f)
}

func c12Run(c core.Case) core.Result {
	if c.Fam == "filtersafe" {
		return c12FilterSafe(c.N[0], c.N[1], c.N[2])
	}
	if c.Fam == "inlinesize" {
		return c12InlineSize(c.N[0], c.N[1], c.N[2], c.N[3])
	}
	// N = [pos, form, payload, name (-1 inline, -2 inline with dot), mod]
	pos, form, pi, ni, mod := c.N[0], c.N[1], c.N[2], c.N[3], c.N[4]
	var payload string
	if np := len(c12Payloads); pi >= np { // a pair: index = first + np*(second+1)
		payload = c12Payloads[pi%np] + c12Payloads[pi/np-1]
	} else {
		payload = c12Payloads[pi]
	}
	ext, typ := "", "html"
	if ni >= 0 {
		ext, typ = c12Names[ni].ext, c12Names[ni].typ
	}
	if pos >= 22 && pos <= 24 { // mixed content types: fixed names, the print's own template decides
		if ni != 0 {
			return core.Skipped("cross-type-position-has-fixed-names")
		}
		typ = map[int]string{22: "js", 23: "js", 24: "html"}[pos]
	}
	E := c12Forms[form]
	switch mod {
	case 1:
		E += "|raw"
	case 2:
		E += "|escape"
	case 3:
		E += "|escape('html')"
	case 4:
		if typ == "" {
			return core.Skipped("no-own-type")
		}
		E += "|escape('" + typ + "')"
	case 5:
		E += "|escape('js')"
	case 8:
		E += "|escape('txt')"
	case 9:
		E += "|escape('nosuch')|upper|escape('txt')"
	}
	if (mod == 6 || mod == 7 || mod >= 10) && form > 2 {
		return core.Skipped("safe-value-lost-by-expression")
	}
	tpls, main, direct, cross := c12ScenarioX(pos, ext, E)
	if cross != "" && cross != typ {
		return core.Violation("harness", "cross-type table out of sync")
	}
	if ni < 0 {
		if len(tpls) != 1 {
			return core.Skipped("inline-needs-single-template")
		}
		src := tpls[main]
		if ni <= -2 {
			src = strings.Replace(src, "Z", "Z"+c12InlineSuffix[-ni], 1)
			if !strings.HasSuffix(src, "Z"+c12InlineSuffix[-ni]) {
				return core.Skipped("inline-dot-suffix")
			}
		}
		tpls = map[string]string{}
		main = src
	}
	var val stick.Value = payload
	if len(c.N) > 5 && c.N[5] > 0 {
		c12Carried = payload
		val = c12Carriers[c.N[5]]()
	}
	own := typ
	if own == "" {
		own = "txt"
	}
	switch mod {
	case 6:
		val = stick.NewSafeValue(payload, own)
	case 7:
		other := "js"
		if typ != "html" {
			other = "html"
		}
		val = stick.NewSafeValue(payload, other)
	case 12:
		val = stick.NewSafeValue(payload) // no content type at all
	case 13:
		val = c12SafeForNothing{payload}
	case 11:
		val = stick.NewSafeValue(payload, "zzcustom") // a user-defined content type: no template of this corpus has it
	case 10:
		other := "js"
		if typ != "html" {
			other = "html"
		}
		orig := stick.NewSafeValue(payload, other)
		_ = stick.NewSafeValue(orig, own) // a wider re-wrap of the value; the original stays safe for the other type only
		val = orig
	}
	c12NamePolicy, c12OtherEnv = 0, false
	if len(c.N) > 6 {
		c12NamePolicy = c.N[6] % 100
		c12OtherEnv = c.N[6] >= 100
		defer func() { c12NamePolicy, c12OtherEnv = 0, false }()
	}
	env := twig.New(&c12Loader{tpls})
	if c12OtherEnv {
		// another environment of the process, configured for plain-text mail: its escape filter passes everything
		// through, and it registers an extension of its own with other escapers
		mail := twig.New(nil)
		mail.Filters["escape"] = func(ctx stick.Context, v stick.Value, args ...stick.Value) stick.Value { return v }
		mail.Filters["raw"] = mail.Filters["escape"]
		ext := twig.NewAutoEscapeExtension()
		ext.Escapers["html"] = func(s string) string { return s }
		ext.Escapers["js"] = ext.Escapers["html"]
		other := stick.New(nil)
		other.Register(ext)
		var sink bytes.Buffer
		mail.Execute("{{ 'x'|escape }}", &sink, nil)
		other.Execute("{{ 'x' }}", &sink, nil)
	}
	env.Functions["f"] = func(ctx stick.Context, args ...stick.Value) stick.Value { return val }
	env.Filters["idf"] = func(ctx stick.Context, v stick.Value, args ...stick.Value) stick.Value { return v }
	ctx := map[string]stick.Value{"x": val, "o": map[string]stick.Value{"attr": val}, "c": true}
	out, err, pan := tryExec(env, main, ctx)
	desc := fmt.Sprintf("template %q = %q", main, tpls[main])
	if ni < 0 {
		desc = fmt.Sprintf("inline template %q", main)
	}
	for n, s := range tpls {
		if n != main {
			desc += fmt.Sprintf(", %q = %q", n, s)
		}
	}
	desc += fmt.Sprintf(" with value %q", payload)
	if mod >= 6 {
		desc += fmt.Sprintf(" (%#v)", val)
	}
	if len(c.N) > 5 && c.N[5] > 0 {
		desc += fmt.Sprintf(" (carried as the String() of a %T)", val)
	}
	if pan != "" {
		return core.Violation("panic", desc+" panicked: "+pan)
	}
	if err != nil {
		return core.Violation("error", desc+" fails: "+err.Error())
	}
	suffix := "QZ"
	if ni <= -2 {
		suffix = "QZ" + c12InlineSuffix[-ni]
	}
	if !direct {
		if mod == 1 || mod == 6 {
			return core.Okay(false, "raw-through-capture-not-claimed")
		}
		if typ == "" {
			return core.Okay(false, "txt")
		}
		if msg := c12Escaper(typ).alphabet(out); msg != "" {
			return core.Violation("unescaped", fmt.Sprintf("%s renders %q, which is not inert for %s: %s", desc, out, typ, msg))
		}
		return core.Okay(true, out)
	}
	if !strings.HasPrefix(out, "AQ") || !strings.HasSuffix(out, suffix) || len(out) < 2+len(suffix) {
		return core.Violation("skeleton", fmt.Sprintf("%s renders %q: literal text around the print is not intact", desc, out))
	}
	mid := out[2 : len(out)-len(suffix)]
	want := typ
	switch mod {
	case 1:
		want = ""
	case 2, 3:
		if typ == "js" || typ == "css" {
			// "escaped exactly once" is ambiguous here (html only, or html then js); what the statement pins
			// under either reading is that only raw / same-type safe values get around the template's type:
			// the output must be inert for it
			return c12Inert(typ, mid, desc, out)
		}
		want = "html"
	case 5:
		if typ == "css" {
			return c12Inert(typ, mid, desc, out)
		}
		want = "js" // html-inert, so this holds under either reading of "no double escaping"
	case 6:
		want = ""
	case 8, 9:
		if typ == "" {
			return core.Okay(false, "txt")
		}
		return c12Inert(typ, mid, desc, out)
	}
	class, msg := c12Once(want, mid, payload)
	if class != "" {
		r := core.Violation(class, desc+" renders "+q(out)+": "+msg)
		if i := strings.Index(class, "/"); i > 0 {
			r.Why, r.Sig = class[:i], class[i+1:]
		}
		return r
	}
	return core.Okay(true, fmt.Sprint(want, mid))
}

func c12Levels(tier string) []core.Level {
	gen := func(payloads, forms, mods []int, names []int, emit func(core.Case)) {
		for pos := 0; pos < c12Positions; pos++ {
			for _, f := range forms {
				for _, pi := range payloads {
					for _, ni := range names {
						for _, m := range mods {
							emit(core.Case{Fam: "print", N: []int{pos, f, pi, ni, m}})
						}
					}
				}
			}
		}
	}
	all := func(n int) []int {
		r := make([]int, n)
		for i := range r {
			r[i] = i
		}
		return r
	}
	names := append(all(len(c12Names)), -1, -2, -3, -4, -5)
	lv := []core.Level{
		{Name: "37 print positions x variable x all 13 payloads x all 24 template names x no modifier", Gen: func(emit func(core.Case)) {
			gen(all(len(c12Payloads)), []int{0}, []int{0}, names, emit)
		}},
		{Name: "host-written loaders whose templates report another name than the one asked for (a record key, nothing, a revision suffix, a .txt blob, a cache path ending in .js): 37 positions x 3 payloads x 24 names x {none, escape} - the content type is the requested name's", Gen: func(emit func(core.Case)) {
			for pos := 0; pos < c12Positions; pos++ {
				for _, pi := range []int{0, 4, 8} {
					for ni := range c12Names {
						for _, m := range []int{0, 2} {
							for pol := 1; pol <= 5; pol++ {
								emit(core.Case{Fam: "print", N: []int{pos, 0, pi, ni, m, 0, pol}})
							}
						}
					}
				}
			}
		}},
		{Name: "other environments in the process (a mail environment whose escape filter passes everything through, a core environment with an AutoEscapeExtension of its own escapers) built and used after the environment under test was created: 37 positions x 3 payloads x 19 names x {none, escape, raw}", Gen: func(emit func(core.Case)) {
			for pos := 0; pos < c12Positions; pos++ {
				for _, pi := range []int{0, 4, 8} {
					for ni := range c12Names {
						for _, m := range []int{0, 1, 2} {
							emit(core.Case{Fam: "print", N: []int{pos, 0, pi, ni, m, 0, 100}})
						}
					}
				}
			}
		}},
		{Name: "every built-in filter applied to an untrusted three-line value (13 payloads, LF and CR LF) printed in html / extension-less / unknown-extension / inline templates: inert apart from the line-break tags a filter inserts", Gen: func(emit func(core.Case)) {
			for fi := range c02FilterNames() {
				for pi := range c12Payloads {
					for ni := 0; ni < 4; ni++ {
						emit(core.Case{Fam: "filtersafe", N: []int{fi, pi, ni}})
					}
				}
			}
		}},
		{Name: "inline templates of every size: 0..320 bytes and 500, 1000, 4096, 70000 bytes of padding inside the print's delimiters (blanks, line breaks), in front of the print, behind it, after text whose braces open no delimiter (10 texts), or as a list laid out over many lines in a last tag x 6 endings that look like file names x 3 payloads: html all the same", Gen: func(emit func(core.Case)) {
			ns := []int{500, 1000, 4096, 70000}
			for n := 0; n <= 320; n++ {
				ns = append(ns, n)
			}
			for _, pi := range []int{0, 4, 8} {
				for kind := 0; kind < 5; kind++ {
					for _, n := range ns {
						for si := 0; si < 6; si++ {
							emit(core.Case{Fam: "inlinesize", N: []int{pi, kind, n, si}})
						}
					}
				}
				for n := range c12BracePrefix {
					for si := 0; si < 6; si++ {
						emit(core.Case{Fam: "inlinesize", N: []int{pi, 5, n, si}})
					}
				}
			}
		}},
		{Name: "37 positions x 6 value forms x 13 payloads x 24 names x 14 modifiers (full product)", Gen: func(emit func(core.Case)) {
			gen(all(len(c12Payloads)), all(len(c12Forms)), all(c12Mods), names, emit)
		}},
		{Name: "values that are not strings: 37 positions x {variable, function result} x 13 payloads carried as the String() of 9 Go types (named int, int64, uint8, bool true/false, float64, float32; struct; pointer) x 24 names x {none, raw, escape, escape('html'), escape(own type)}", Gen: func(emit func(core.Case)) {
			for pos := 0; pos < c12Positions; pos++ {
				for _, f := range []int{0, 2} {
					for pi := range c12Payloads {
						for _, ni := range names {
							for m := 0; m <= 4; m++ {
								for car := 1; car < len(c12Carriers); car++ {
									emit(core.Case{Fam: "print", N: []int{pos, f, pi, ni, m, car}})
								}
							}
						}
					}
				}
			}
		}},
	}
	if thorough(tier) {
		lv = append(lv, core.Level{Name: "payload pairs: 37 positions x variable x every concatenation of two payloads x 24 names x {none, escape, escape(own type)}", Gen: func(emit func(core.Case)) {
			np := len(c12Payloads)
			for pos := 0; pos < c12Positions; pos++ {
				for p1 := 0; p1 < np; p1++ {
					for p2 := 0; p2 < np; p2++ {
						for _, ni := range names {
							for _, m := range []int{0, 2, 4} {
								emit(core.Case{Fam: "print", N: []int{pos, 0, p1 + np*(p2+1), ni, m}})
							}
						}
					}
				}
			}
		}})
	}
	return lv
}

func init() {
	core.Register(&core.Check{
		ID:       "C12",
		Category: "exploration",
		Rule: "full product of 37 print positions (top level, if / else / elseif branch, for body, for-else, loops with an inline condition and their else branch, key-value loops, branches inside loops inside branches, block, nested block, overriding block of a child, block via parent(), inherited block, included template, embedded template, embed override block, set-capture body, filter section, macro body, imported macro; macro result / capture / parent() / block() printed with |raw; html page including a js partial, js child overriding / inheriting a block of an html base; two blocks of one name in one file: two embeds, a block containing an embed, an override embedding first, embeds at two levels; macros defined in an extending template, imported elsewhere through import / from) x 6 value forms (variable, attribute, function result, concatenation, conditional, interpolation) x 13 payloads (< > \" ' & </script> \\ ; newline, multi-byte, astral, mixed) x 24 template names (html, js, css, txt with and without .twig, no extension, unknown extension, trailing dot, inline sources without a dot, with dots, and ending in '.txt' / '.js' / '.css.twig'; names with several dots or a dotted directory) x 14 modifiers (none, raw, escape, escape('html'), escape(own type), escape('js'), escape('txt'), a chain of unknown strategies, value marked safe for the same / another type, marked safe for another type and then re-wrapped for the own type, marked safe for a user-defined type only, marked safe with an empty list of types, a user-defined SafeValue that is safe for nothing), in a twig.New environment; and the payloads carried as the String() of 9 non-string Go types (named numeric and bool kinds, struct, pointer). " +
			"Oracle: expected content type = registered escaper of the extension, none for txt, html otherwise; a directly printed value must decode (decoder of that context) to the payload and lie in the context's inert alphabet: escaped exactly once; raw and same-type safe values verbatim; values reaching the output through a capture / macro result / parent() must be inert. distinct = distinct configuration; non-trivial = an assertion was made",
		Assumptions: []string{
			"for an explicit escape of another type (html inside js/css, js inside css, txt or an unknown strategy anywhere) 'exactly once' is ambiguous; only inertness for the template's own type is asserted, which the statement pins under either reading",
			"raw / safe values that pass through a capture or macro result before being printed again are not claimed",
			"decoders as in C13",
		},
		Levels:  c12Levels,
		Run:     c12Run,
		NoDedup: true,
		Budget:  budget(4*time.Minute, 15*time.Minute),
	})
}
