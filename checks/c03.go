package checks

import (
	"bytes"
	"fmt"
	"io"
	"os"
	"path/filepath"
	"strings"
	"testing/iotest"
	"time"

	"github.com/tyler-sommer/stick"
	"github.com/tyler-sommer/stick/parse"

	"verif/core"
)

// C03 — literal text, comments and verbatim sections are rendered faithfully.
// Programs are built from pieces whose output is known by construction (the reference is
// the generator itself): text renders to itself, a print to its value, a comment to nothing,
// a verbatim section to its body, wrappers (if true / for over 2 elements / block /
// set-capture + print / identity filter section / macro + call) to their body (twice for the loop).

type c03Piece struct {
	canon, tight string
	code         bool
}

type c03Prog struct {
	pieces []c03Piece
	out    string
}

func (p c03Prog) src(tight bool) string {
	var sb strings.Builder
	for _, pc := range p.pieces {
		if tight {
			sb.WriteString(pc.tight)
		} else {
			sb.WriteString(pc.canon)
		}
	}
	return sb.String()
}

// unintended reports whether the concatenation creates an opening delimiter that starts inside
// literal text (e.g. "{" followed by "{{ v }}"): such programs are outside the statement.
func (p c03Prog) unintended(tight bool) bool {
	src := p.src(tight)
	isText := make([]bool, len(src)+1)
	off := 0
	for _, pc := range p.pieces {
		s := pc.canon
		if tight {
			s = pc.tight
		}
		for i := 0; i < len(s); i++ {
			isText[off+i] = !pc.code
		}
		off += len(s)
	}
	for i := 0; i+1 < len(src); i++ {
		if src[i] == '{' && (src[i+1] == '{' || src[i+1] == '%' || src[i+1] == '#') && isText[i] {
			return true
		}
	}
	return false
}

func c03Concat(ps ...c03Prog) c03Prog {
	var r c03Prog
	for _, p := range ps {
		r.pieces = append(r.pieces, p.pieces...)
		r.out += p.out
	}
	return r
}

func c03Text(s string) c03Prog { return c03Prog{[]c03Piece{{s, s, false}}, s} }
func c03Code(canon, tight, out string) c03Prog {
	return c03Prog{[]c03Piece{{canon, tight, true}}, out}
}

var c03Chunks = []string{"a", "é", "\n", "{", "}", "%", "#", "}}", "%}", "#}", "-", " ", "{ x", "€€", "\ufeff", "\x00", "\xff\xfe", "\r\n"}

// leaves: text chunks, a print, comments, verbatim sections
// comment bodies: a comment ends at the first "#}", whatever it contains (also an opening "{#")
var c03CommentBodies = []string{" c ", "é\n{ }", "{{ v }} {% if %}", "", " see {# above ", "{#", "{# {# {{ ", " # } #"}

func c03Leaves(inMacro bool) []c03Prog {
	var ls []c03Prog
	for _, c := range c03Chunks {
		ls = append(ls, c03Text(c))
	}
	if inMacro {
		ls = append(ls, c03Code("{{ 'V' }}", "{{'V'}}", "V"))
	} else {
		ls = append(ls, c03Code("{{ v }}", "{{v}}", "V"))
	}
	for _, c := range c03CommentBodies {
		ls = append(ls, c03Code("{#"+c+"#}", "{#"+c+"#}", ""))
	}
	for _, b := range c03VerbatimBodies() {
		ls = append(ls, c03Code("{% verbatim %}"+b+"{% endverbatim %}", "{%verbatim%}"+b+"{%endverbatim%}", b))
	}
	// tags and prints that merely mention the words "verbatim" / "endverbatim" as a variable, key, loop variable or
	// block name: what follows them is still template code
	ls = append(ls,
		c03Code("{% set verbatim = 'w' %}", "{%set verbatim='w'%}", ""),
		c03Code("{% if verbatim %}{% endif %}", "{%if verbatim%}{%endif%}", ""),
		c03Code("{% for verbatim in [1] %}f{% endfor %}", "{%for verbatim in[1]%}f{%endfor%}", "f"),
		c03Code("{{ {verbatim: 'h'}.verbatim }}", "{{{verbatim:'h'}.verbatim}}", "h"),
		c03Code("{% set endverbatim = 1 %}", "{%set endverbatim=1%}", ""),
	)
	return ls
}

func c03VerbatimBodies() []string {
	items := []string{"a", "é\n", "{{ x }}", "{% if x %}", "{% endif %}", "{# c #}", "{{", "%}", " { } ", "{%- set y = 1 -%}", "\"", "$"}
	var res []string
	for _, a := range items {
		res = append(res, a)
	}
	for _, a := range items[:8] {
		for _, b := range items[:8] {
			res = append(res, a+b)
		}
	}
	res = append(res, "{% if x %}{{ x }}{% endif %}", "a{# c #}b{{ x }}c", "")
	// look-alikes of the closing tag and closing tags of other constructs: only "{% endverbatim %}" ends the section
	res = append(res, "{% endraw %}", "{% raw %}x{% endraw %}", "{% endverbatim", "{% end verbatim %}", "{% endverbatimx %}", "{% xendverbatim %}", "{% ENDVERBATIM %}",
		"{# endverbatim #}", "{{ endverbatim }}", "{% endblock %}", "{% endcomment %}", "{% endautoescape %}", "{% verbatim %}", "endverbatim", "{ % endverbatim %}",
		"{% endverbatim % }", "{% endverbatim() %}", "{% end %}", "{% endfor %}{% endset %}{% endmacro %}{% endfilter %}{% endembed %}", "{% endverbatim\x00%}", "{%endraw%}b")
	return res
}

var c03Counter int

// wrappers around a nested program
func c03Wrap(kind int, inner c03Prog, id int) c03Prog {
	n := itoa(id)
	switch kind {
	case 0:
		return c03Concat(c03Code("{% if true %}", "{%if true%}", ""), inner, c03Code("{% endif %}", "{%endif%}", ""))
	case 1:
		p := c03Concat(c03Code("{% for i in [1, 2] %}", "{%for i in [1,2]%}", ""), inner, c03Code("{% endfor %}", "{%endfor%}", ""))
		p.out = inner.out + inner.out
		return p
	case 2:
		return c03Concat(c03Code("{% block b"+n+" %}", "{%block b"+n+"%}", ""), inner, c03Code("{% endblock %}", "{%endblock%}", ""))
	case 3:
		p := c03Concat(c03Code("{% set c"+n+" %}", "{%set c"+n+"%}", ""), inner, c03Code("{% endset %}", "{%endset%}", ""), c03Code("{{ c"+n+" }}", "{{c"+n+"}}", ""))
		p.out = inner.out
		return p
	case 4:
		return c03Concat(c03Code("{% filter idf %}", "{%filter idf%}", ""), inner, c03Code("{% endfilter %}", "{%endfilter%}", ""))
	case 5:
		p := c03Concat(c03Code("{% macro m"+n+"() %}", "{%macro m"+n+"()%}", ""), inner, c03Code("{% endmacro %}", "{%endmacro%}", ""), c03Code("{{ _self.m"+n+"() }}", "{{_self.m"+n+"()}}", ""))
		p.out = inner.out
		return p
	case 6:
		p := c03Concat(c03Code("{% if false %}", "{%if false%}", ""), c03Text("no"), c03Code("{% else %}", "{%else%}", ""), inner, c03Code("{% endif %}", "{%endif%}", ""))
		p.out = inner.out
		return p
	}
	panic("kind")
}

const c03Wrappers = 7

func c03Env() *stick.Env {
	env := stick.New(nil)
	env.Filters["idf"] = func(ctx stick.Context, val stick.Value, args ...stick.Value) stick.Value { return val }
	return env
}

// c03ReaderLoader delivers every template through a reader with an unusual but legal io.Reader behaviour.
type c03ReaderLoader struct{ behaviour int }

type c03ReaderTpl struct {
	src       string
	behaviour int
}

func (t *c03ReaderTpl) Name() string { return "t" }
func (t *c03ReaderTpl) Contents() io.Reader {
	r := io.Reader(strings.NewReader(t.src))
	switch t.behaviour {
	case 1:
		return iotest.OneByteReader(r)
	case 2:
		return iotest.DataErrReader(r) // the last data arrives together with io.EOF
	case 3:
		return iotest.HalfReader(r)
	case 4:
		return iotest.DataErrReader(iotest.OneByteReader(r))
	case 5:
		return &c03ZeroReader{r: r}
	case 6, 7, 8:
		// seekable readers that the host has already advanced past a header (front matter): the template is what
		// the reader still has to deliver
		header := "---\ntitle: {{ not template code }}\n---\n"
		switch t.behaviour {
		case 6:
			sr := strings.NewReader(header + t.src)
			sr.Seek(int64(len(header)), io.SeekStart)
			return sr
		case 7:
			br := bytes.NewReader([]byte(header + t.src))
			io.CopyN(io.Discard, br, int64(len(header)))
			return br
		default:
			dir := core.WorkDir
			if dir == "" {
				dir = os.TempDir()
			}
			path := filepath.Join(dir, "c03seek.twig")
			if os.WriteFile(path, []byte(header+t.src), 0o644) != nil {
				return r
			}
			f, err := os.Open(path)
			if err != nil {
				return r
			}
			f.Seek(int64(len(header)), io.SeekStart)
			return &c03ClosingFile{f}
		}
	}
	return r
}

// c03ClosingFile closes the file when it has been read to the end (the harness must not leak descriptors either).
type c03ClosingFile struct{ *os.File }

func (c *c03ClosingFile) Read(p []byte) (int, error) {
	n, err := c.File.Read(p)
	if err != nil {
		c.File.Close()
	}
	return n, err
}

// c03ZeroReader returns (0, nil) on every other call, which io.Reader permits.
type c03ZeroReader struct {
	r io.Reader
	n int
}

func (z *c03ZeroReader) Read(p []byte) (int, error) {
	z.n++
	if z.n%2 == 1 {
		return 0, nil
	}
	if len(p) > 3 {
		p = p[:3]
	}
	return z.r.Read(p)
}

func (l *c03ReaderLoader) Load(name string) (stick.Template, error) {
	return &c03ReaderTpl{name, l.behaviour}, nil
}

const c03ReaderBehaviours = 8

// c03Fresh: a template file is rewritten between two executions on the same environment and FilesystemLoader (same
// length, same modification time, or another length): the second execution emits the text that is in the file now.
func c03Fresh(pair, how int) core.Result {
	versions := [][2]string{{"hello one", "hello two"}, {"a{{ v }}b", "c{{ v }}d"}, {"x{# c1 #}y", "x{# c2 #}z"}, {"{% verbatim %}{{ 1 }}{% endverbatim %}", "{% verbatim %}{{ 2 }}{% endverbatim %}"}, {"short", "a longer text"}, {"p{% include 'part.twig' %}q", "p{% include 'part.twig' %}r"}}[pair]
	wants := [][2]string{{"hello one", "hello two"}, {"aVb", "cVd"}, {"xy", "xz"}, {"{{ 1 }}", "{{ 2 }}"}, {"short", "a longer text"}, {"p(1)q", "p(2)r"}}[pair]
	dir := fsFreshDir("c03fresh")
	fsPut(dir, "part.twig", "(1)")
	fsPut(dir, "t.twig", versions[0])
	env := stick.New(stick.NewFilesystemLoader(dir))
	ctx := map[string]stick.Value{"v": "V"}
	o1, e1, p1 := tryExec(env, "t.twig", ctx)
	if how == 1 { // executed a few more times before the edit
		for i := 0; i < 3; i++ {
			tryExec(env, "t.twig", ctx)
		}
	}
	fsPut(dir, "part.twig", "(2)")
	fsPut(dir, "t.twig", versions[1])
	o2, e2, p2 := tryExec(env, "t.twig", ctx)
	if p1 != "" || p2 != "" || e1 != nil || e2 != nil {
		return core.Violation("error", fmt.Sprintf("filesystem loader, %q then %q: %v %v %s %s", versions[0], versions[1], e1, e2, p1, p2))
	}
	if o1 != wants[0] || o2 != wants[1] {
		return core.Violation("output", fmt.Sprintf("filesystem loader: the file holds %q and renders %q; rewritten to %q (modification time unchanged) it renders %q, want %q", versions[0], o1, versions[1], o2, wants[1]))
	}
	return core.Okay(true, o2)
}

// c03Visitor: another environment of the process has a node visitor that rewrites literal text (as visitors may); the
// plain environment that renders the same source afterwards still emits the text byte for byte - and so does the
// first environment when it renders the template a second time with a visitor that is not idempotent.
type c03TextVisitor struct{ f func(string) string }

func (v *c03TextVisitor) Enter(n parse.Node) {
	if t, ok := n.(*parse.TextNode); ok {
		t.Data = v.f(t.Data)
	}
}
func (v *c03TextVisitor) Leave(parse.Node) {}

func c03Visitor(src, want string) core.Result {
	upper := stick.New(nil)
	upper.Visitors = append(upper.Visitors, &c03TextVisitor{strings.ToUpper})
	ctx := map[string]stick.Value{"v": "V", "x": "X"}
	u1, _, _ := tryExec(upper, src, ctx)
	wrap := stick.New(nil)
	wrap.Visitors = append(wrap.Visitors, &c03TextVisitor{func(s string) string { return "<" + s + ">" }})
	w1, _, _ := tryExec(wrap, src, ctx)
	w2, _, _ := tryExec(wrap, src, ctx)
	out, err, pan := tryExec(c03Env(), src, ctx)
	if pan != "" || err != nil {
		return core.Violation("error", fmt.Sprintf("%q after it was rendered by environments with text visitors: %v %s", src, err, pan))
	}
	if out != want {
		return core.Violation("output", fmt.Sprintf("%q renders %q on a plain environment after an environment with an upper-casing text visitor rendered the same source (%q); want %q", src, out, u1, want))
	}
	if w1 != w2 {
		return core.Violation("output", fmt.Sprintf("%q on an environment whose visitor wraps literal text renders %q the first time and %q the second", src, w1, w2))
	}
	return core.Okay(true, out)
}

func c03Run(c core.Case) core.Result {
	if c.Fam == "fresh" {
		return c03Fresh(c.N[0], c.N[1])
	}
	if c.Fam == "visitor" {
		return c03Visitor(c.Src, c.Exp)
	}
	env := c03Env()
	name := c.Src
	if len(c.N) > 0 && c.N[0] > 0 && c.N[0] < 100 {
		env.Loader = &c03ReaderLoader{c.N[0]}
	}
	if len(c.N) > 0 && c.N[0] > 100 {
		switch c.N[0] {
		case 101, 102: // a regular file / a symbolic link to it
			dir := filepath.Join(core.WorkDir, "c03fs")
			if core.WorkDir == "" {
				dir, _ = os.MkdirTemp("", "c03fs")
			}
			os.MkdirAll(dir, 0o755)
			if err := os.WriteFile(filepath.Join(dir, "real.twig"), []byte(c.Src), 0o644); err != nil {
				return core.Skipped("cannot-write-file")
			}
			name = "real.twig"
			if c.N[0] == 102 {
				os.Remove(filepath.Join(dir, "link.twig"))
				if err := os.Symlink("real.twig", filepath.Join(dir, "link.twig")); err != nil {
					return core.Skipped("cannot-symlink")
				}
				name = "link.twig"
			}
			env.Loader = stick.NewFilesystemLoader(dir)
		case 103:
			env.Loader = &stick.MemoryLoader{Templates: map[string]string{"m": c.Src}}
			name = "m"
		}
	}
	out, err, pan := tryExec(env, name, map[string]stick.Value{"v": "V", "x": "X"})
	nt := strings.Contains(c.Src, "{%") || strings.Contains(c.Src, "{#") || strings.Contains(c.Src, "{{")
	if pan != "" {
		return core.Violation("panic", "executing "+q(c.Src)+" panicked: "+pan)
	}
	if err != nil {
		r := core.Violation("error", fmt.Sprintf("%q does not render: %v (expected output %q)", c.Src, err, c.Exp))
		if c.Fam == "verbatim" || strings.Contains(c.Src, "verbatim") {
			r.Sig = c03VerbatimSig(c.Src)
		}
		return r
	}
	if out != c.Exp {
		return core.Violation("output", fmt.Sprintf("%q renders %q, want %q", c.Src, out, c.Exp))
	}
	return core.Okay(nt, out)
}

func c03VerbatimSig(src string) string { return "" }

func c03Emit(emit func(core.Case), p c03Prog, fam string) {
	for _, tight := range []bool{false, true} {
		if p.unintended(tight) {
			emit(core.Case{Fam: "skip-unintended-delimiter", Src: p.src(tight)})
			continue
		}
		emit(core.Case{Fam: fam, Src: p.src(tight), Exp: p.out})
	}
}

func c03RunOrSkip(c core.Case) core.Result {
	if c.Fam == "skip-unintended-delimiter" {
		return core.Skipped("concatenation-creates-a-delimiter")
	}
	return c03Run(c)
}

func c03Levels(tier string) []core.Level {
	leaves := c03Leaves(false)
	mleaves := c03Leaves(true)
	nC, nK := len(c03Chunks), len(c03CommentBodies)
	core8 := []c03Prog{c03Text("a"), c03Text("{"), c03Text("\n"), c03Text("}}"), leaves[nC], leaves[nC+1], leaves[nC+1+nK+1], leaves[nC+1+nK+3], leaves[nC+5]}
	lv := []core.Level{
		{Name: "delimiter-free strings: every sequence of <= 4 chunks renders to itself", Gen: func(emit func(core.Case)) {
			var rec func(pre c03Prog, n int)
			rec = func(pre c03Prog, n int) {
				if len(pre.pieces) > 0 {
					c03Emit(emit, pre, "text")
				}
				if n == 0 {
					return
				}
				for _, c := range c03Chunks {
					rec(c03Concat(pre, c03Text(c)), n-1)
				}
			}
			rec(c03Prog{}, 4)
		}},
		{Name: "every sequence of <= 2 leaves (chunks, print, comments, verbatim sections) and <= 3 over an 8-leaf core", Gen: func(emit func(core.Case)) {
			for _, a := range leaves {
				c03Emit(emit, a, "seq")
				for _, b := range leaves {
					c03Emit(emit, c03Concat(a, b), "seq")
				}
			}
			for _, a := range core8 {
				for _, b := range core8 {
					for _, c := range core8 {
						c03Emit(emit, c03Concat(a, b, c), "seq")
					}
				}
			}
		}},
		{Name: "lengths: a literal run of every length 1..600 and 2^k-3..2^k+3 (k <= 17), of 1-byte / 2-byte characters / lone braces, at the start, after a print, after a comment and after a lone brace, followed by a print / comment / if tag / verbatim section / nothing (block-wise scanning has length-dependent behaviour)", Gen: func(emit func(core.Case)) {
			var lens []int
			for n := 1; n <= 600; n++ {
				lens = append(lens, n)
			}
			for k := 10; k <= 17; k++ {
				for d := -3; d <= 3; d++ {
					lens = append(lens, 1<<uint(k)+d)
				}
			}
			for _, k := range []int{3, 5, 6, 7} { // multiples of 4096 and 1000
				for d := -2; d <= 1; d++ {
					lens = append(lens, 4096*k+d, 1000*k+d)
				}
			}
			heads := []c08SO{{"", ""}, {"{{ v }}", "V"}, {"{# c #}", ""}, {"{", "{"}, {"x{% if v %}y{% endif %}", "xy"}}
			tails := []c08SO{{"{{ v }}", "V"}, {"{# c #}", ""}, {"{% if v %}y{% endif %}", "y"}, {"{% verbatim %}{{ r }}{% endverbatim %}", "{{ r }}"}, {"", ""}, {"{{ v }}z", "Vz"}}
			for _, n := range lens {
				fills := []string{strings.Repeat("a", n)}
				if n <= 600 || n%4096 < 3 || n%4096 > 4093 {
					fills = append(fills, strings.Repeat("é", n/2)+strings.Repeat("b", n%2), strings.Repeat("{ ", n/2)+strings.Repeat("c", n%2))
				}
				for _, f := range fills {
					for hi, h := range heads {
						if strings.HasSuffix(h.src, "{") && strings.HasPrefix(f, "{") {
							continue // would spell an opening delimiter
						}
						for ti, t := range tails {
							if n > 600 && hi > 1 && ti > 1 {
								continue
							}
							emit(core.Case{Fam: "len", Src: h.src + f + t.src, Exp: h.out + f + t.out})
						}
					}
				}
			}
		}},
		{Name: "loaders: every sequence of <= 2 chunks and every leaf loaded from a regular file and through a symbolic link (FilesystemLoader), and from a memory loader", Gen: func(emit func(core.Case)) {
			with := func(c core.Case) {
				for b := 101; b <= 103; b++ {
					c2 := c
					c2.N = []int{b}
					emit(c2)
				}
			}
			for _, a := range c03Chunks {
				c03Emit(with, c03Text(a), "text")
				for _, b := range c03Chunks {
					c03Emit(with, c03Concat(c03Text(a), c03Text(b)), "text")
				}
			}
			for _, a := range leaves {
				c03Emit(with, a, "seq")
			}
			with(core.Case{Fam: "text", Src: strings.Repeat("long text ", 500), Exp: strings.Repeat("long text ", 500)})
		}},
		{Name: "histories: a template file rewritten between two executions on one environment and FilesystemLoader (6 pairs of versions, same length and modification time or another length; edited after 1 or 4 executions); every leaf and leaf pair rendered by a plain environment after environments with text-rewriting node visitors rendered the same source", Gen: func(emit func(core.Case)) {
			for pair := 0; pair < 6; pair++ {
				for how := 0; how < 2; how++ {
					emit(core.Case{Fam: "fresh", N: []int{pair, how}})
				}
			}
			// comments that open or close with a '-' marker (nothing to trim next to them) and begin with a multi-byte character
			for _, cm := range []string{"{#é -#}", "{#-é#}", "{#- € -#}", "{#\U0001F600-#}", "{#-#}", "{#--#}", "{#é#}", "{# x é -#}"} {
				emit(core.Case{Fam: "visitor", Src: "a" + cm + "b{{ v }}" + cm + "c", Exp: "abVc"})
			}
			ls := c03Leaves(false)
			for i, a := range ls {
				p := c03Concat(c03Text("t"), a, c03Text("u"))
				if !p.unintended(false) {
					emit(core.Case{Fam: "visitor", Src: p.src(false), Exp: p.out})
				}
				if i%7 == 0 {
					for _, b := range ls {
						q := c03Concat(a, c03Text(" mid "), b)
						if !q.unintended(false) {
							emit(core.Case{Fam: "visitor", Src: q.src(false), Exp: q.out})
						}
					}
				}
			}
		}},
		{Name: "reader behaviours: every sequence of <= 3 chunks and every leaf pair, delivered by a reader that returns one byte at a time / its last data together with io.EOF / half of what is asked / both / (0, nil) on every other call / a seekable reader (*strings.Reader, *bytes.Reader, *os.File) that the host has advanced past a header", Gen: func(emit func(core.Case)) {
			with := func(c core.Case) {
				for b := 1; b <= c03ReaderBehaviours; b++ {
					c2 := c
					c2.N = []int{b}
					emit(c2)
				}
			}
			var rec func(pre c03Prog, n int)
			rec = func(pre c03Prog, n int) {
				if len(pre.pieces) > 0 {
					c03Emit(with, pre, "text")
				}
				if n == 0 {
					return
				}
				for _, c := range c03Chunks {
					rec(c03Concat(pre, c03Text(c)), n-1)
				}
			}
			rec(c03Prog{}, 3)
			for _, a := range leaves {
				c03Emit(with, a, "seq")
				for _, b := range leaves {
					c03Emit(with, c03Concat(a, b), "seq")
				}
			}
		}},
		{Name: "every wrapper (if / for / block / set+print / filter / macro+call / else) around every leaf and leaf pair, between text", Gen: func(emit func(core.Case)) {
			for w := 0; w < c03Wrappers; w++ {
				ls := leaves
				if w == 5 {
					ls = mleaves
				}
				for _, a := range ls {
					c03Emit(emit, c03Concat(c03Text("<"), c03Wrap(w, a, 1), c03Text(">")), "wrap")
					c03Emit(emit, c03Wrap(w, a, 1), "wrap")
				}
				for _, a := range core8 {
					for _, b := range core8 {
						if w == 5 && (strings.Contains(a.src(false), "{{ v }}") || strings.Contains(b.src(false), "{{ v }}")) {
							continue
						}
						c03Emit(emit, c03Concat(c03Text("x"), c03Wrap(w, c03Concat(a, b), 1), c03Text("y")), "wrap")
					}
				}
			}
		}},
		{Name: "nesting depth 2: every wrapper in every wrapper around an 8-leaf core, with text before/after at both levels", Gen: func(emit func(core.Case)) {
			for w1 := 0; w1 < c03Wrappers; w1++ {
				for w2 := 0; w2 < c03Wrappers; w2++ {
					if w1 == 5 && w2 == 2 {
						continue // a block inside a macro body is not claimed
					}
					for _, a := range core8 {
						if (w1 == 5 || w2 == 5) && strings.Contains(a.src(false), "{{ v }}") {
							continue
						}
						inner := c03Concat(c03Text("p"), c03Wrap(w2, a, 2), c03Text("q"))
						c03Emit(emit, c03Concat(c03Text("<"), c03Wrap(w1, inner, 1), c03Text(">")), "nest2")
						c03Emit(emit, c03Wrap(w1, c03Wrap(w2, a, 2), 1), "nest2")
					}
				}
			}
		}},
	}
	lv = append(lv, core.Level{Name: "verbatim sections written with '-' markers on either tag (no adjacent whitespace to trim), every body, alone / in every wrapper", Gen: func(emit func(core.Case)) {
		opens := [][2]string{{"{%- verbatim %}", "{%-verbatim%}"}, {"{% verbatim -%}", "{%verbatim-%}"}, {"{%- verbatim -%}", "{%-verbatim-%}"}}
		closes := [][2]string{{"{% endverbatim %}", "{%endverbatim%}"}, {"{%- endverbatim %}", "{%-endverbatim%}"}, {"{% endverbatim -%}", "{%endverbatim-%}"}, {"{%- endverbatim -%}", "{%-endverbatim-%}"}}
		for _, b := range c03VerbatimBodies() {
			if b == "" || strings.ContainsAny(b[:1], " \n\t") || strings.ContainsAny(b[len(b)-1:], " \n\t") {
				continue // whitespace next to a marker would be trimmed by Twig: not claimed
			}
			for _, o := range opens {
				for _, c := range closes {
					v := c03Code(o[0]+b+c[0], o[1]+b+c[1], b)
					c03Emit(emit, c03Concat(c03Text("a"), v, c03Text("b")), "verbatim-markers")
					for w := 0; w < c03Wrappers; w++ {
						c03Emit(emit, c03Concat(c03Text("<"), c03Wrap(w, c03Concat(c03Text("p"), v, c03Text("q")), 1), c03Text(">")), "verbatim-markers")
					}
				}
			}
		}
	}})
	lv = append(lv, core.Level{Name: "two verbatim sections in one source whose end tags are spelled differently (7 spellings each, a comment / a print / text between them, alone and in every wrapper): each section ends at its own end tag", Gen: func(emit func(core.Case)) {
		ends := []string{"{% endverbatim %}", "{%endverbatim%}", "{%- endverbatim %}", "{% endverbatim -%}", "{%-endverbatim-%}", "{%  endverbatim  %}", "{%\nendverbatim\n%}"}
		for _, e1 := range ends {
			for _, e2 := range ends {
				for _, b := range []string{"a", "{{ x }}", "{# k #}"} {
					s1, s2 := "{% verbatim %}"+b+e1, "{% verbatim %}c{% if %}"+e2
					first, second := c03Code(s1, s1, b), c03Code(s2, s2, "c{% if %}")
					for _, mid := range []c03Prog{c03Text("m"), c03Code("{# gone #}", "{#gone#}", ""), c03Code("{{ v }}", "{{v}}", "V")} {
						two := c03Concat(first, c03Text("<"), mid, c03Text(">"), second, c03Text("z"))
						c03Emit(emit, two, "verbatim-two")
						for w := 0; w < c03Wrappers; w++ {
							if w == 5 {
								continue
							}
							c03Emit(emit, c03Concat(c03Text("["), c03Wrap(w, two, 1), c03Text("]")), "verbatim-two")
						}
					}
				}
			}
		}
	}})
	nest3 := core8[:5]
	if thorough(tier) {
		nest3 = core8
	}
	lv = append(lv, core.Level{Name: fmt.Sprintf("nesting depth 3: all wrapper triples around %d leaves", len(nest3)), Gen: func(emit func(core.Case)) {
		for w1 := 0; w1 < c03Wrappers; w1++ {
			for w2 := 0; w2 < c03Wrappers; w2++ {
				for w3 := 0; w3 < c03Wrappers; w3++ {
					if (w1 == 5 && (w2 == 2 || w3 == 2)) || (w2 == 5 && w3 == 2) {
						continue
					}
					for _, a := range nest3 {
						if (w1 == 5 || w2 == 5 || w3 == 5) && strings.Contains(a.src(false), "{{ v }}") {
							continue
						}
						p := c03Wrap(w1, c03Concat(c03Text("a"), c03Wrap(w2, c03Concat(c03Wrap(w3, a, 3), c03Text("b")), 2)), 1)
						c03Emit(emit, c03Concat(p, c03Text("!")), "nest3")
					}
				}
			}
		}
	}})
	{
		lv = append(lv, core.Level{Name: "every sequence of 3 leaves", Gen: func(emit func(core.Case)) {
			for _, a := range leaves {
				for _, b := range leaves {
					for _, c := range leaves {
						c03Emit(emit, c03Concat(a, b, c), "seq")
					}
				}
			}
		}})
	}
	return lv
}

func init() {
	core.Register(&core.Check{
		ID:       "C03",
		Category: "exploration",
		Rule: "programs assembled from pieces whose output is known by construction: 14 literal chunks (multi-byte, newline, lone '{' '}' '%' '#', closing delimiters), a print, comments, verbatim sections over ~80 bodies (incl. prints, tags, comments, lone delimiters), and 7 wrappers (if, for over 2 elements, block, set-capture + print, identity filter section, macro + call, else branch) nested to depth 3; " +
			"every sequence of <= 4 chunks, <= 2 leaves (3 over a core; thorough: 3 over all), every wrapper x leaf / leaf pair, all wrapper pairs and triples; each in the canonical spelling and with no blanks inside delimiters. Programs whose concatenation creates an opening delimiter inside literal text are skipped and counted. Oracle: output equals the by-construction expectation byte for byte. distinct = distinct source; non-trivial = contains a delimiter",
		Assumptions: []string{"prints inside a macro body use a literal (stick's macro scope differs from Twig's for outer variables)", "whitespace-control markers only on verbatim tags and only without adjacent whitespace (elsewhere covered by C14)"},
		Levels:      c03Levels,
		Run:         c03RunOrSkip,
		Budget:      budget(4*time.Minute, 20*time.Minute),
	})
}
