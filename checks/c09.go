package checks

import (
	"fmt"
	"os"
	"path/filepath"
	"sort"
	"strings"
	"time"

	"github.com/tyler-sommer/stick"

	"verif/core"
)

// C09 — template inheritance resolves every block to its most-derived override.
// Bounded-exhaustive configurations with the textbook resolution as reference.

type c09Cfg struct {
	L          int // chain length (t0 root .. t{L-1} executed)
	names      []string
	opt        [][]int // opt[level][nameIdx]: 0 absent, 1 defines, 2 defines + parent(); level 0 always defines
	layout     int     // root: 0 flat, 1 second block nested inside the first, 2 first block inside a 2-iteration loop
	pref       int     // parent reference: 0 literal, 1 variable, 2 concatenation
	useLvl     int     // 0 none; else the level that has a use tag
	useKind    int     // 0 plain use of 'blk' (defines all names), 1 aliased use of 'blk2' (x as y) + block('y')
	blockFn    bool    // root's first block also prints block(<second name>)
	nested     bool    // every child-level definition holds a nested block of its own before calling parent()
	splitUse   bool    // the plain use is spread over three use tags ('blkE' unrelated, 'blkA' the first name, 'blkB' the others)
	embedIn    bool    // every child-level definition embeds a component and overrides, for that embed, a block named like the layout's first
	usedParent bool    // the blocks of the plainly used template call parent() themselves (the next definition below them)
	rootParent bool    // the root holds a block rp that calls parent(); the first child overrides it, so it never runs
	pform      int     // how parent() is written: 0 once, 1 twice, 2 inside a 2-iteration loop, 3 after a block() call of the block itself
}

func c09Decode(n []int) c09Cfg {
	// n = [L, nNames, layout, pref, useLvl, useKind, blockFn, opts...]
	c := c09Cfg{L: n[0], layout: n[2], pref: n[3], useLvl: n[4], useKind: n[5], blockFn: n[6]&1 == 1, nested: n[6]&2 == 2, pform: n[6] >> 2}
	c.names = []string{"a", "b", "c", "d"}[:n[1]]
	c.opt = make([][]int, c.L)
	c.opt[0] = make([]int, len(c.names))
	for i := range c.opt[0] {
		c.opt[0][i] = 1
	}
	p := 7
	for l := 1; l < c.L; l++ {
		c.opt[l] = n[p : p+len(c.names)]
		p += len(c.names)
	}
	return c
}

func c09Body(name string, level int, tpl string, withParent bool, extra string, pform int) string {
	s := "[" + name + itoa(level) + "{{ i }}:{{ name() }}" + extra // i: the root's loop variable where the block is rendered inside that loop
	if withParent {
		switch pform {
		case 1:
			s += "^{{ parent() }}~{{ parent() }}"
		case 2:
			s += "^{% for q in [1, 2] %}{{ parent() }}{% endfor %}"
		case 3: // extra holds the block() call of another block, written in front of parent()
			s += "^{{ parent() }}"
		default:
			s += "^{{ parent() }}"
		}
	}
	return s + "]"
}

func c09Templates(c c09Cfg) map[string]string {
	t := map[string]string{}
	// root
	var sb strings.Builder
	if c.rootParent {
		sb.WriteString("{% block rp %}RP{{ parent() }}{% endblock %}")
	}
	sb.WriteString("R<")
	blk := func(i int, extra string) string {
		return "{% block " + c.names[i] + " %}" + c09Body(c.names[i], 0, tn(0), false, extra, 0) + "{% endblock %}"
	}
	first := ""
	if c.blockFn && len(c.names) > 1 {
		first = "&{{ block('" + c.names[1] + "') }}"
	}
	switch c.layout {
	case 0:
		for i := range c.names {
			e := ""
			if i == 0 {
				e = first
			}
			sb.WriteString(blk(i, e) + "|")
		}
	case 1:
		if len(c.names) > 1 {
			sb.WriteString(blk(0, first+"("+blk(1, "")+")") + "|")
			for i := 2; i < len(c.names); i++ {
				sb.WriteString(blk(i, "") + "|")
			}
		} else {
			sb.WriteString(blk(0, first) + "|")
		}
	case 2:
		sb.WriteString("{% for i in [1, 2] %}" + blk(0, first) + "{% endfor %}|")
		for i := 1; i < len(c.names); i++ {
			sb.WriteString(blk(i, "") + "|")
		}
	}
	sb.WriteString(">R")
	t[tn(0)] = sb.String()
	for l := 1; l < c.L; l++ {
		var s strings.Builder
		parent := tn(l - 1)
		switch c.pref {
		case 0:
			s.WriteString("{% extends '" + parent + "' %}")
		case 1:
			s.WriteString("{% extends p" + itoa(l) + " %}")
		case 2:
			pn := tn(l - 1)
			s.WriteString("{% extends '" + pn[:len(pn)/2] + "' ~ '" + pn[len(pn)/2:] + "' %}")
		}
		// content of a child outside blocks - text, prints and tags that would produce output - is not rendered
		s.WriteString("ignored" + itoa(l) + "{% if true %}IF{% endif %}{% for q in [1, 2] %}FOR{{ q }}{% endfor %}{{ 'PRINT' }}{% filter up %}flt{% endfilter %}{% if false %}{% else %}ELSE{% endif %}")
		if c.rootParent && l == 1 {
			s.WriteString("{% block rp %}{% endblock %}")
		}
		if c.useLvl == l {
			if c.useKind == 0 && c.splitUse {
				s.WriteString("{% use 'blkE' %}{% use 'blkA' %}{% use 'blkB' %}")
			} else if c.useKind == 0 {
				s.WriteString("{% use 'blk' %}")
			} else if c.useKind == 1 {
				s.WriteString("{% use 'blk2' with x as y %}")
			} else {
				s.WriteString("{% use 'blk2' with x as y, w as y2, v as y3 %}")
			}
		}
		firstOwn := true
		for i, n := range c.names {
			if c.opt[l][i] == 0 {
				continue
			}
			extra := ""
			if c.useLvl == l && c.useKind == 1 && firstOwn {
				extra = "+{{ block('y') }}"
			}
			if c.useLvl == l && c.useKind == 2 && firstOwn {
				extra = "+{{ block('y') }}{{ block('y2') }}{{ block('y3') }}"
			}
			firstOwn = false
			if c.nested {
				extra += "{% if true %}{% block zz" + n + itoa(l) + " %}(z:{{ name() }}){% endblock %}{% endif %}"
			}
			if c.embedIn {
				extra += "{% embed 'comp' %}{% block " + c.names[0] + " %}E{% endblock %}{% endembed %}"
			}
			if c.pform == 3 && i == 0 && len(c.names) > 1 && c.opt[l][i] == 2 {
				extra += "%{{ block('" + c.names[1] + "') }}"
			}
			s.WriteString("{% block " + n + " %}" + c09Body(n, l, tn(l), c.opt[l][i] == 2, extra, c.pform) + "{% endblock %}between")
		}
		t[tn(l)] = s.String()
	}
	var ub strings.Builder
	for _, n := range c.names {
		if c.usedParent {
			ub.WriteString("{% block " + n + " %}[" + n + "U:{{ name() }}^{{ parent() }}]{% endblock %}text in used template")
			continue
		}
		ub.WriteString("{% block " + n + " %}[" + n + "U:{{ name() }}]{% endblock %}text in used template")
	}
	t["blk"] = ub.String()
	// the same blocks spread over two templates, and a third that defines an unrelated block
	var ua, ubb strings.Builder
	for i, n := range c.names {
		w := &ubb
		if i == 0 {
			w = &ua
		}
		par := ""
		if c.usedParent {
			par = "^{{ parent() }}"
		}
		w.WriteString("{% block " + n + " %}[" + n + "U:{{ name() }}" + par + "]{% endblock %}text in used template")
	}
	t["blkA"], t["blkB"], t["blkE"] = ua.String(), ubb.String(), "{% block unrelated %}u{% endblock %}"
	t["comp"] = "c({% block " + c.names[0] + " %}C{% endblock %})"
	t["blk2"] = "{% block x %}[xX:{{ name() }}]{% endblock %}{% block w %}[wW:{{ name() }}]{% endblock %}{% block v %}[vV:{{ name() }}]{% endblock %}"
	return t
}

// reference: definition chains
type c09Def struct {
	level  int // -1: used template
	parent bool
	extra  string // "", "blockfn", "nested", "both", "blocky"
	tpl    string
}

func c09Expect(c c09Cfg) string {
	chain := map[string][]c09Def{}
	for i, n := range c.names {
		for l := c.L - 1; l >= 0; l-- {
			if c.opt[l][i] != 0 {
				chain[n] = append(chain[n], c09Def{level: l, parent: c.opt[l][i] == 2, tpl: tn(l)})
			}
			if c.useLvl == l && c.useKind == 0 {
				chain[n] = append(chain[n], c09Def{level: -1, tpl: "blk"})
			}
		}
	}
	firstOwnOf := map[int]int{}
	for l := 1; l < c.L; l++ {
		firstOwnOf[l] = -1
		for i := range c.names {
			if c.opt[l][i] != 0 {
				firstOwnOf[l] = i
				break
			}
		}
	}
	var render func(ni int, k int) string
	render = func(ni int, k int) string {
		n := c.names[ni]
		d := chain[n][k]
		if d.level == -1 {
			un := "blk"
			if c.splitUse {
				un = "blkB"
				if ni == 0 {
					un = "blkA"
				}
			}
			if c.usedParent {
				return "[" + n + "U:" + un + "^" + render(ni, k+1) + "]"
			}
			return "[" + n + "U:" + un + "]"
		}
		s := "[" + n + itoa(d.level) + c09CurI + ":" + d.tpl
		if d.level == 0 {
			if ni == 0 && c.blockFn && len(c.names) > 1 {
				s += "&" + render(1, 0)
			}
			if ni == 0 && c.layout == 1 && len(c.names) > 1 {
				s += "(" + render(1, 0) + ")"
			}
		} else if c.useLvl == d.level && c.useKind == 1 && firstOwnOf[d.level] == ni {
			s += "+[xX:blk2]"
		} else if c.useLvl == d.level && c.useKind == 2 && firstOwnOf[d.level] == ni {
			s += "+[xX:blk2][wW:blk2][vV:blk2]"
		}
		if d.level > 0 && c.nested {
			s += "(z:" + d.tpl + ")"
		}
		if d.level > 0 && c.embedIn {
			s += "c(E)"
		}
		if d.parent && c.pform == 3 && ni == 0 && len(c.names) > 1 && d.level > 0 {
			s += "%" + render(1, 0)
		}
		if d.parent {
			p := render(ni, k+1)
			switch c.pform {
			case 1:
				s += "^" + p + "~" + p
			case 2:
				s += "^" + p + p
			default:
				s += "^" + p
			}
		}
		return s + "]"
	}
	var sb strings.Builder
	sb.WriteString("R<")
	switch c.layout {
	case 0:
		for i := range c.names {
			sb.WriteString(render(i, 0) + "|")
		}
	case 1:
		sb.WriteString(render(0, 0) + "|")
		for i := 2; i < len(c.names); i++ {
			sb.WriteString(render(i, 0) + "|")
		}
	case 2:
		c09CurI = "1"
		r1 := render(0, 0)
		c09CurI = "2"
		r2 := render(0, 0)
		c09CurI = ""
		sb.WriteString(r1 + r2 + "|")
		for i := 1; i < len(c.names); i++ {
			sb.WriteString(render(i, 0) + "|")
		}
	}
	sb.WriteString(">R")
	return sb.String()
}

// c09CurI: the value of the root's loop variable while the reference renders a block inside that loop
var c09CurI string

// c09NameStyle: 0 plain names ("t1"); 1 names with surrounding blanks and an inner blank (" t 1 "): a template name is
// an opaque loader key
var c09NameStyle int

func tn(l int) string {
	if c09NameStyle == 1 {
		return " t " + itoa(l) + " "
	}
	return "t" + itoa(l)
}

var c09FSDir string

// c09FSChain: a chain served by the library's FilesystemLoader, whose ancestors are named in the ways a path may be
// written (canonical, with ./, rooted, through .., with a doubled separator, assembled from a directory variable with
// and without a trailing separator): every spelling that resolves to the file inside the root names the same parent.
func c09FSChain(spell, via int) core.Result {
	if c09FSDir == "" {
		c09FSDir = filepath.Join(core.WorkDir, "c09fs")
		if core.WorkDir == "" {
			c09FSDir, _ = os.MkdirTemp("", "c09fs")
		}
		os.MkdirAll(filepath.Join(c09FSDir, "layouts"), 0o755)
		os.MkdirAll(filepath.Join(c09FSDir, "pages"), 0o755)
		os.WriteFile(filepath.Join(c09FSDir, "layouts", "root.twig"), []byte("R<{% block a %}ra{% endblock %}|{% block b %}rb{% endblock %}>"), 0o644)
		os.WriteFile(filepath.Join(c09FSDir, "layouts", "blocks.twig"), []byte("{% block b %}ub[{{ parent() }}]{% endblock %}"), 0o644)
		os.WriteFile(filepath.Join(c09FSDir, "layouts", "part.twig"), []byte("(part)"), 0o644)
	}
	ref := func(file string) string {
		return []string{"'layouts/" + file + "'", "'./layouts/" + file + "'", "'/layouts/" + file + "'", "'pages/../layouts/" + file + "'", "'layouts//" + file + "'",
			"d1 ~ '/" + file + "'", "d2 ~ '" + file + "'", "d3 ~ '/" + file + "'", "whole_" + strings.TrimSuffix(file, ".twig")}[spell]
	}
	mid := "{% extends " + ref("root.twig") + " %}{% block a %}ma[{{ parent() }}]{% endblock %}"
	want := "R<la[ma[ra]]|rb>"
	switch via {
	case 1: // the middle template also imports blocks with use
		mid = "{% extends " + ref("root.twig") + " %}{% use " + ref("blocks.twig") + " %}{% block a %}ma[{{ parent() }}]{% endblock %}"
		want = "R<la[ma[ra]]|ub[rb]>"
	case 2: // ... and includes a partial
		mid = "{% extends " + ref("root.twig") + " %}{% block a %}ma[{{ parent() }}]{% include " + ref("part.twig") + " %}{% endblock %}"
		want = "R<la[ma[ra](part)]|rb>"
	}
	if via == 1 && spell >= 5 {
		return core.Skipped("use-takes-a-literal-name")
	}
	os.WriteFile(filepath.Join(c09FSDir, "layouts", "mid.twig"), []byte(mid), 0o644)
	os.WriteFile(filepath.Join(c09FSDir, "pages", "leaf.twig"), []byte("{% extends "+ref("mid.twig")+" %}{% block a %}la[{{ parent() }}]{% endblock %}"), 0o644)
	env := stick.New(stick.NewFilesystemLoader(c09FSDir))
	ctx := map[string]stick.Value{"d1": "layouts", "d2": "layouts/", "d3": "./layouts", "whole_root": "./layouts/root.twig", "whole_mid": "pages/../layouts/mid.twig", "whole_blocks": "layouts/blocks.twig", "whole_part": "/layouts/part.twig"}
	out, err, pan := tryExec(env, "pages/leaf.twig", ctx)
	desc := fmt.Sprintf("filesystem loader: pages/leaf.twig extends %s, which is %q", ref("mid.twig"), mid)
	if pan != "" || err != nil {
		return core.Violation("error", fmt.Sprintf("%s: %v %s (want %q)", desc, err, pan, want))
	}
	if out != want {
		return core.Violation("resolution", fmt.Sprintf("%s: renders %q, want %q", desc, out, want))
	}
	return core.Okay(true, out)
}

// c09Fresh: one template of a chain served by the FilesystemLoader is rewritten (same length, same modification time)
// between two executions on the same environment: the second execution resolves the chain as the files are now.
func c09Fresh(which int) core.Result {
	dir := fsFreshDir("c09fresh")
	root := [2]string{"R<{% block a %}r1{% endblock %}>", "R<{% block a %}r2{% endblock %}>"}
	mid := [2]string{"{% extends 'root.twig' %}{% block a %}M1({{ parent() }}){% endblock %}", "{% extends 'root.twig' %}{% block a %}M2({{ parent() }}){% endblock %}"}
	leaf := [2]string{"{% extends p %}{% block a %}C[{{ parent() }}]{% endblock %}", "{% extends p %}{% block a %}D[{{ parent() }}]{% endblock %}"}
	v := [3]int{}
	v[which] = 1
	fsPut(dir, "root.twig", root[0])
	fsPut(dir, "mid.twig", mid[0])
	fsPut(dir, "leaf.twig", leaf[0])
	env := stick.New(stick.NewFilesystemLoader(dir))
	ctx := map[string]stick.Value{"p": "mid.twig"}
	o1, e1, p1 := tryExec(env, "leaf.twig", ctx)
	fsPut(dir, "root.twig", root[v[0]])
	fsPut(dir, "mid.twig", mid[v[1]])
	fsPut(dir, "leaf.twig", leaf[v[2]])
	o2, e2, p2 := tryExec(env, "leaf.twig", ctx)
	if p1 != "" || p2 != "" || e1 != nil || e2 != nil {
		return core.Violation("error", fmt.Sprintf("filesystem chain: %v %v %s %s", e1, e2, p1, p2))
	}
	want2 := "R<" + []string{"C", "D"}[v[2]] + "[M" + itoa(v[1]+1) + "(r" + itoa(v[0]+1) + ")]>"
	if o1 != "R<C[M1(r1)]>" || o2 != want2 {
		return core.Violation("resolution", fmt.Sprintf("filesystem chain renders %q; after template %d of (root, mid, leaf) was rewritten (same length and modification time) the same environment renders %q, want %q", o1, which, o2, want2))
	}
	return core.Okay(true, o2)
}

// c09AfterFail: executions that fail in the middle of a block rendered through parent() / block() (after that block has
// produced output), then a good chain - in the same process, on the same or on a fresh environment, 30 rounds: the
// good chain renders as it does alone (nothing of the failed rendering is left in a recycled buffer).
func c09AfterFail(fail, sameEnv int) core.Result {
	tpls := map[string]string{
		"root":  "<{% block a %}root:{{ who }};{% endblock %}|{% block b %}rb{% endblock %}>",
		"mid":   "{% extends 'root' %}{% block a %}mid({{ parent() }}){% endblock %}",
		"good":  "{% extends 'mid' %}{% block a %}child[{{ parent() }}]{% endblock %}{% block b %}({{ block('a') }}){% endblock %}",
		"broot": "<{% block a %}SECRET-{{ who }}-{{ nofunc() }}{% endblock %}|{% block b %}partial{% include 'nosuch' %}{% endblock %}>",
		"bad0":  "{% extends 'broot' %}{% block a %}x[{{ parent() }}]{% endblock %}",
		"bad1":  "{% extends 'broot' %}{% block b %}y{{ block('a') }}{% endblock %}{% block a %}LEAK{{ 1 % 0 }}{% endblock %}",
		"bad2":  "{% extends 'broot' %}{% block b %}z({{ parent() }}){% endblock %}{% block a %}ok{% endblock %}",
	}
	want := "<child[mid(root:bob;)]|(child[mid(root:bob;)])>"
	mk := func() *stick.Env { return stick.New(&stick.MemoryLoader{Templates: tpls}) }
	env := mk()
	for round := 0; round < 30; round++ {
		fenv := env
		if sameEnv == 0 {
			fenv = mk()
		}
		if _, err, pan := tryExec(fenv, "bad"+itoa(fail), map[string]stick.Value{"who": "alice"}); err == nil && pan == "" {
			return core.Violation("error", "the failing chain bad"+itoa(fail)+" rendered without error")
		}
		genv := env
		if sameEnv == 0 {
			genv = mk()
		}
		out, err, pan := tryExec(genv, "good", map[string]stick.Value{"who": "bob"})
		if pan != "" || err != nil || out != want {
			return core.Violation("resolution", fmt.Sprintf("round %d: after an execution that failed inside a block rendered through parent() / block() (%q), the chain good renders %q (%v %s), want %q", round, tpls["bad"+itoa(fail)], out, err, pan, want))
		}
	}
	return core.Okay(true, want)
}

// c09Corner: rare but legal shapes of a chain: the extends tag not first (a block, a use, an import, a set before it),
// one helper imported with use at two levels of the chain, and twice in one template under different aliases.
func c09Corner(k int) core.Result {
	tpls := map[string]string{
		"root": "<{% block a %}ra{% endblock %}|{% block b %}rb{% endblock %}>",
		"h":    "{% block a %}h[{{ parent() }}]{% endblock %}",
		"h2":   "{% block x %}X{{ name() }}{% endblock %}",
		"mac":  "{% macro m(q) %}M{{ q }}{% endmacro %}",
		"mid":  "{% extends 'root' %}{% use 'h' %}{% block a %}ma({{ parent() }}){% endblock %}",
	}
	want := ""
	switch k {
	case 0:
		tpls["main"] = "{% block a %}child{% endblock %}{% extends 'root' %}"
		want = "<child|rb>"
	case 1:
		tpls["main"] = "{% use 'h' %}{% extends 'ro' ~ suffix %}{% block b %}B[{{ parent() }}]{% endblock %}"
		want = "<h[ra]|B[rb]>"
	case 2:
		tpls["main"] = "{% import 'mac' as mm %}{% set q = 1 %}text{% extends 'mid' %}{% block b %}B{% endblock %}"
		want = "<ma(h[ra])|B>"
	case 3:
		tpls["main"] = "{% extends 'mid' %}{% use 'h' %}{% block a %}la({{ parent() }}){% endblock %}"
		want = "<la(h[h[ma(ra)]])>|rb>"
	case 4:
		tpls["main"] = "{% extends 'root' %}{% use 'h2' with x as y %}{% use 'h2' with x as z %}{% block a %}{{ block('y') }}+{{ block('z') }}{% endblock %}"
		want = "<Xh2+Xh2|rb>"
	case 5:
		tpls["main"] = "{# note #}\n{% extends 'root' %}{% block a %}c{% endblock %}"
		want = "<c|rb>"
	case 6, 7, 8, 9:
		// a use tag with a 'with' list imports the blocks it does not rename under their own names, ranked like a plain use
		tpls["h3"] = "{% block s %}hs@{{ name() }}{% endblock %}{% block f %}hf{% endblock %}{% block box %}hb{% endblock %}"
		tpls["root2"] = "<{% block s %}rs{% endblock %}|{% block f %}rf{% endblock %}>"
		tpls["root3"] = "<{% block s %}rs{% endblock %}>"
		tpls["mid2"] = "{% extends 'root2' %}{% use 'h3' with box as hbox %}"
		switch k {
		case 6:
			tpls["main"] = "{% extends 'root2' %}{% use 'h3' with box as hbox %}{% block f %}cf+{{ parent() }}+{{ block('hbox') }}{% endblock %}"
			want = "<hs@h3|cf+hf+hb>"
		case 7:
			tpls["main"] = "{% extends 'root3' %}{% use 'h3' with box as hbox, f as hf2 %}{% block s %}cs+{{ parent() }}+{{ block('hbox') }}{{ block('hf2') }}{% endblock %}"
			want = "<cs+hs@h3+hbhf>"
		case 8:
			tpls["main"] = "{% extends 'mid2' %}{% block s %}ls({{ parent() }}){% endblock %}"
			want = "<ls(hs@h3)|hf>"
		case 9:
			tpls["main"] = "{% extends 'root2' %}{% use 'h3' with box as hbox %}"
			want = "<hs@h3|hf>"
		}
	}
	env := stick.New(&stick.MemoryLoader{Templates: tpls})
	env.Functions["name"] = func(ctx stick.Context, args ...stick.Value) stick.Value { return ctx.Name() }
	out, err, pan := tryExec(env, "main", map[string]stick.Value{"suffix": "ot"})
	if pan != "" || err != nil {
		return core.Violation("error", fmt.Sprintf("%q fails: %v %s (want %q)", tpls["main"], err, pan, want))
	}
	if k == 3 {
		// (the two levels' copies of the helper both stand between the leaf's and the middle's own block; how often
		// the helper appears is what the chain order gives: leaf, leaf's use, mid, mid's use, root)
		want = "<la(h[ma(h[ra])])|rb>"
	}
	if out != want {
		return core.Violation("resolution", fmt.Sprintf("%q renders %q, want %q", tpls["main"], out, want))
	}
	return core.Okay(true, out)
}

func c09Run(c core.Case) core.Result {
	if c.Fam == "corner" {
		return c09Corner(c.N[0])
	}
	if c.Fam == "afterfail" {
		return c09AfterFail(c.N[0], c.N[1])
	}
	if c.Fam == "fresh" {
		return c09Fresh(c.N[0])
	}
	if c.Fam == "fschain" {
		return c09FSChain(c.N[0], c.N[1])
	}
	c09NameStyle = c.N[5] >> 2 & 1
	usedParent, rootParent, embedIn := c.N[5]>>3&1 == 1, c.N[5]>>4&1 == 1, c.N[5]>>5&1 == 1
	c.N = append([]int{}, c.N...)
	c.N[5] &= 3
	splitUse := c.N[5] == 3
	if splitUse {
		c.N[5] = 0
	}
	cfg := c09Decode(c.N)
	cfg.usedParent, cfg.rootParent, cfg.splitUse, cfg.embedIn = usedParent, rootParent, splitUse, embedIn
	if cfg.useLvl >= cfg.L || (cfg.useLvl > 0 && cfg.useKind >= 1) && func() bool {
		for i := range cfg.names {
			if cfg.opt[cfg.useLvl][i] != 0 {
				return false
			}
		}
		return true
	}() {
		return core.Skipped("use-without-own-block")
	}
	tpls := c09Templates(cfg)
	want := c09Expect(cfg)
	env := stick.New(&stick.MemoryLoader{Templates: tpls})
	addStdCallbacks(env)
	env.Functions["name"] = func(ctx stick.Context, args ...stick.Value) stick.Value { return ctx.Name() }
	ctx := map[string]stick.Value{}
	for l := 1; l < cfg.L; l++ {
		ctx["p"+itoa(l)] = tn(l - 1)
	}
	main := tn(cfg.L - 1)
	out, err, pan := tryExec(env, main, ctx)
	desc := func() string {
		var parts []string
		for l := cfg.L - 1; l >= 0; l-- {
			parts = append(parts, fmt.Sprintf("t%d=%q", l, tpls[tn(l)]))
		}
		if cfg.useLvl > 0 {
			parts = append(parts, fmt.Sprintf("blk=%q blk2=%q", tpls["blk"], tpls["blk2"]))
		}
		return strings.Join(parts, "\n    ")
	}
	if pan != "" {
		return core.Violation("panic", "executing "+main+" panicked: "+pan+"\n    "+desc())
	}
	if err != nil {
		return core.Violation("error", fmt.Sprintf("executing %s fails: %v (want %q)\n    %s", main, err, want, desc()))
	}
	if out != want {
		return core.Violation("resolution", fmt.Sprintf("executing %s renders\n    %q, want\n    %q\n    %s", main, out, want, desc()))
	}
	// Further renders on the SAME environment give what they give on a fresh one: the same template again, and
	// (after an aliased use) probes that import the used templates plainly. Nothing a render did to the trees it
	// loaded may be visible to a later render.
	probes := map[string]string{}
	if cfg.L <= 2 || (cfg.useLvl > 0 && cfg.useKind == 1 && cfg.pform == 0) {
		probes[main] = tpls[main]
	}
	if cfg.useLvl > 0 && cfg.useKind == 1 && cfg.pform == 0 {
		probes["probe1"] = "{% extends '" + tn(0) + "' %}{% use 'blk2' %}{% block " + cfg.names[0] + " %}[{{ block('y') }}|{{ block('x') }}]{% endblock %}"
		probes["probe2"] = "{% extends '" + tn(0) + "' %}{% use 'blk2' with x as z %}{% block " + cfg.names[0] + " %}[{{ block('z') }}]{% endblock %}"
	}
	if len(probes) > 0 {
		fresh := map[string]string{}
		for n, src := range tpls {
			fresh[n] = src
		}
		for n, src := range probes {
			fresh[n] = src
		}
		tplsRef := tpls
		_ = tplsRef
		for n := range probes {
			tpls[n] = fresh[n] // the memory loader of env serves the probe too
		}
		var names []string
		for n := range probes {
			names = append(names, n)
		}
		sort.Strings(names)
		for _, n := range names {
			o1, e1, p1 := tryExec(env, n, ctx)
			fenv := stick.New(&stick.MemoryLoader{Templates: fresh})
			addStdCallbacks(fenv)
			fenv.Functions["name"] = env.Functions["name"]
			o2, e2, p2 := tryExec(fenv, n, ctx)
			if p1 != "" || p2 != "" {
				return core.Violation("panic", fmt.Sprintf("executing %s = %q after %s panicked: %s%s\n    %s", n, fresh[n], main, p1, p2, desc()))
			}
			if o1 != o2 || (e1 == nil) != (e2 == nil) {
				return core.Violation("render-leaves-traces", fmt.Sprintf("on the environment that has just rendered %s, %s = %q renders %q (%v), on a fresh environment %q (%v)\n    %s", main, n, fresh[n], o1, e1, o2, e2, desc()))
			}
		}
	}
	return core.Okay(cfg.L > 1, out)
}

func c09Gen(maxL, nNames, pforms int, emit func(core.Case)) {
	for L := 1; L <= maxL; L++ {
		nopt := (L - 1) * nNames
		total := 1
		for i := 0; i < nopt; i++ {
			total *= 3
		}
		for m := 0; m < total; m++ {
			opts := make([]int, nopt)
			x := m
			for i := range opts {
				opts[i] = x % 3
				x /= 3
			}
			for layout := 0; layout < 3; layout++ {
				for pref := 0; pref < 3; pref++ {
					if L == 1 && pref > 0 {
						continue
					}
					for useLvl := 0; useLvl < L; useLvl++ {
						kinds := 3 // none-or-plain, aliased, three aliases in one use
						if useLvl == 0 {
							kinds = 1
						}
						for uk := 0; uk < kinds; uk++ {
							hasParent := false
							for _, o := range opts {
								if o == 2 {
									hasParent = true
								}
							}
							for bf := 0; bf < 4; bf++ {
								for pf := 0; pf < pforms; pf++ {
									if pf > 0 && !hasParent {
										continue
									}
									if uk == 2 && (pf > 0 || bf > 1) {
										continue
									}
									emit(core.Case{Fam: "cfg", N: append([]int{L, nNames, layout, pref, useLvl, uk, bf | pf<<2}, opts...)})
									if L >= 2 && pf == 0 && bf == 0 && (L <= 3 || (layout == 0 && pref == 0)) {
										// the blocks of the used template call parent(); the root holds a never-run parent() call
										if uk == 0 && useLvl > 0 {
											emit(core.Case{Fam: "cfg", N: append([]int{L, nNames, layout, pref, useLvl, uk | 1<<3, bf | pf<<2}, opts...)})
										}
										if pref == 0 {
											emit(core.Case{Fam: "cfg", N: append([]int{L, nNames, layout, pref, useLvl, uk | 1<<4, bf | pf<<2}, opts...)})
											// every child-level definition embeds a component, overriding there a block named like the layout's
											emit(core.Case{Fam: "cfg", N: append([]int{L, nNames, layout, pref, useLvl, uk | 1<<5, bf | pf<<2}, opts...)})
										}
										if uk == 0 && useLvl > 0 {
											// the plain use spread over three use tags, its blocks plain and calling parent()
											emit(core.Case{Fam: "cfg", N: append([]int{L, nNames, layout, pref, useLvl, 3, bf | pf<<2}, opts...)})
											emit(core.Case{Fam: "cfg", N: append([]int{L, nNames, layout, pref, useLvl, 3 | 1<<3, bf | pf<<2}, opts...)})
										}
									}
									if L <= 3 && pf == 0 && bf == 0 && layout == 0 {
										// the same with template names that carry blanks
										emit(core.Case{Fam: "cfg", N: append([]int{L, nNames, layout, pref, useLvl, uk | 1<<2, bf | pf<<2}, opts...)})
									}
								}
							}
						}
					}
				}
			}
		}
	}
}

func c09Levels(tier string) []core.Level {
	lv := []core.Level{
		{Name: "a chain of three served by the FilesystemLoader, the ancestors (and a used template, an included partial) named in 9 spellings of the same path (canonical, ./, rooted, through .., doubled separator, directory variable with / without trailing separator or ./, a whole name in a variable)", Gen: func(emit func(core.Case)) {
			for spell := 0; spell < 9; spell++ {
				for via := 0; via < 3; via++ {
					emit(core.Case{Fam: "fschain", N: []int{spell, via}})
				}
			}
			// history: the root, the middle or the leaf file rewritten between two executions on one environment
			for which := 0; which < 3; which++ {
				emit(core.Case{Fam: "fresh", N: []int{which}})
			}
			// rare shapes: the extends tag not first, one helper used at two levels / twice under different aliases, a use tag that renames some of the blocks it imports
			for k := 0; k < 10; k++ {
				emit(core.Case{Fam: "corner", N: []int{k}})
			}
			// history: three chains that fail inside a block rendered through parent() / block(), then a good chain (30 rounds, same / fresh environment)
			for fail := 0; fail < 3; fail++ {
				for same := 0; same < 2; same++ {
					emit(core.Case{Fam: "afterfail", N: []int{fail, same}})
				}
			}
		}},
		{Name: "chains of 1..4 templates x 2 block names x {absent, override, override+parent()} per level x 3 root layouts x 3 parent-reference forms x use (none / plain / aliased / three aliases in one tag, at every level) x block()", Gen: func(emit func(core.Case)) { c09Gen(4, 2, 4, emit) }},
	}
	if thorough(tier) {
		lv = append(lv, core.Level{Name: "the same with 3 block names", Gen: func(emit func(core.Case)) { c09Gen(4, 3, 4, emit) }})
		lv = append(lv, core.Level{Name: "4 block names, chains of 1..2", Gen: func(emit func(core.Case)) { c09Gen(2, 4, 4, emit) }})
	} else {
		lv = append(lv, core.Level{Name: "3 block names, chains of 1..3", Gen: func(emit func(core.Case)) { c09Gen(3, 3, 2, emit) }})
	}
	return lv
}

func init() {
	core.Register(&core.Check{
		ID:       "C09",
		Category: "exploration",
		Rule: "bounded-exhaustive inheritance configurations: chain length 1..4, 2 block names (3 up to length 3; thorough: 3 names to length 4, 4 names to length 2), each (level, name) absent / overriding / overriding and calling parent(), root defining all; root layout flat / second block nested in the first / first block inside a 2-iteration loop; parent named by literal, variable or concatenation; a use tag at any extending level, plain (block set ranking between own and ancestors' blocks), aliased with block('y'), or with three aliases in one tag; template names plain or carrying blanks; block(name) in the root; optionally a nested block of its own inside every child-level definition, before its parent() call; parent() written once, twice, inside a 2-iteration loop or directly after a block() call of another block; text outside blocks in every child; every block prints Context.Name(); after the render, the same template and (after an aliased use) two probes importing the used template plainly / under another alias are rendered on the same environment and must give what a fresh environment gives. " +
			"Reference: textbook resolution (most-derived definition; parent() = next definition in the order child, used, ancestors; name() = defining template). distinct = distinct configuration; non-trivial = chain length > 1",
		Assumptions: []string{"a non-extending template with use is not claimed", "blocks of a used template call parent() only in the plain (unaliased) use"},
		Levels:      c09Levels,
		Run:         c09Run,
		NoDedup:     true,
		Budget:      budget(5*time.Minute, 75*time.Minute),
	})
}
