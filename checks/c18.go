package checks

import (
	"bytes"
	"fmt"
	"io"
	"os"
	"path/filepath"
	"regexp"
	"strconv"
	"strings"
	"sync"
	"sync/atomic"
	"time"

	"github.com/tyler-sommer/stick"
	"github.com/tyler-sommer/stick/parse"
	"github.com/tyler-sommer/stick/twig"

	"verif/core"
)

// C18 — a configured environment can be used concurrently (DESIGN.md section 5).
// Controlled exploration: 2-3 threads call Execute/Parse on ONE shared environment; each
// blocks at every seam (loader, writer, every filter/function, a visitor placed in front of
// the auto-escape visitor so that there is a point before each of its Enter/Leave calls)
// until the cooperative scheduler hands it the token. All schedules with at most 2 (thorough: 3)
// preemptions are explored; every thread's (output, error) must equal its solo result.
// The data-race clause is decided by a separate free-running pass under the race detector.

var c18Tpls = map[string]string{
	"a.html": "<p>{{ x }}</p>{% block b %}[{{ y }}]{% endblock %}{% block c %}({{ x|up }}){% endblock %}",
	"b.js":   "var v = \"{{ x }}\"; f(\"{{ y }}\");",
	"c.txt":  "plain {{ x }} and {{ y }}",
	"d.css":  "p:before { content: \"{{ x }}\" } {% include inc %}",
	"e.html": "{% extends base %}{% block b %}<{{ x }}>{{ parent() }}{% endblock %}",
	"g.xml":  "<item a=\"{{ x }}\">{{ y }}</item>",
	"h.xml":  "<i>{{ y|raw }}|{{ x|escape }}|{{ x|escape('html') }}</i>{% include inc %}",
	"m.js":   "{% if x matches pat %}A{% else %}B{% endif %}{{ y }}{% if x matches pat %}C{% else %}D{% endif %}{% for i in l %}{{ i matches pat ? 1 : 0 }}{{ i in x ? 1 : 0 }}{% endfor %}{{ x|up }}",
	"n.html": "N{% include inc2 %}|{% include inc2 %}",
	"k.txt":  "[{% include inc %}{% include inc %}]",
	// executed with a nil context: a root-level set must stay inside the call
	"s1.html": "{% set q = 'A' %}[{{ q }}{{ r }}]",
	"s2.html": "{% set r = 'B' %}[{{ q }}{{ r }}]{% set q = 'C' %}",
	// a macro whose body fails, and nested macro calls (a .txt template: no escaping, the output is known by construction)
	"mf.txt": "{% macro bad(a) %}<{{ a }}{{ nofunc() }}>{% endmacro %}a{{ _self.bad('q') }}b",
	"mm.txt": "{% macro w(a) %}[{{ a }}]{% endmacro %}{% macro m(a) %}<{{ a }}>{% endmacro %}{{ _self.w(_self.m('k')) }}|{{ _self.m('j') }}|{{ _self.w(_self.w(_self.m('i'))) }}",
	// two templates that end too early, at different places
	"e1.html": "{{ x +",
	"e2.html": "line1\nline2\n{% for i in l %}{{ i }}{% if i %}",
	// templates of more than 512 bytes; one imports blocks under an alias, the other plainly (and must not see the alias)
	"u1.html": c18Pad + "{% extends base %}{% use ub with bb as cc %}{% block b %}[{{ block('cc') }}]{% endblock %}",
	"u2.html": c18Pad + "{% extends base %}{% use ub %}{% block b %}[{{ block('cc') }}|{{ block('bb') }}]{% endblock %}",
	"u3.html": c18Pad + "{% extends base %}{% use ub %}{% block b %}[{{ block('bb') }}]{% endblock %}",
	"ub.html": c18Pad + "{% block bb %}UB{{ x }}{% endblock %}",
	// every built-in filter of the Twig package applied to per-call operands (a long text for the string filters):
	// state that a filter keeps outside the call - a shared converter, a scratch buffer - shows as a race or as
	// another call's text
	"tf.txt": "{% set t = x ~ ' the quick brown fox ' ~ y ~ ' " + c18Words + " ' ~ x %}{{ t|title }}|{{ t|upper }}|{{ t|lower }}|{{ t|capitalize }}|{{ t|reverse }}|{{ t|trim }}|{{ t|length }}|{{ t|url_encode }}|{{ t|nl2br }}|{{ t|striptags }}|{{ t|split(' ')|join(',') }}|{{ t|replace({'quick': x}) }}|{{ t|slice(2, 40) }}|{{ t|first }}{{ t|last }}|{{ t|json_encode }}|{{ t|format(x) }}|{{ t|convert_encoding('UTF-8', 'ISO-8859-1')|length }}|{{ t|default(y) }}|{{ t|raw }}",
	"tn.txt": "{{ l|sort|join('-') }}|{{ l|reverse|join }}|{{ l|merge([x, y])|join(',') }}|{{ l|batch(2, x)|length }}|{{ l|keys|join }}|{{ l|first }}{{ l|last }}|{{ l|slice(1, 2)|join }}|{{ {'k': x, 'j': y}|merge({'i': x})|keys|sort|join }}|{{ -5|abs }}|{{ 3.75|round(1) }}|{{ 1234567.891|number_format(2, ',', '.') }}|{{ l|length }}|{{ l|json_encode }}|{{ '2020-02-03 04:05:06'|date('Y-m-d H:i') }}|{{ '2020-02-03'|date_modify('+1 day')|date('Y-m-d') }}|{{ nothing|default(x) }}",
	// a value marked safe for html that the calls share (each has its own context map; the value in it is the same),
	// printed in an html and in a js template; a user filter derives a js-safe value from it
	"sv.html": "<i>{{ sv }}</i>{{ sv|markjs }}|{{ x }}",
	"sv.js":   "var a = \"{{ sv }}\", b = \"{{ sv|markjs }}\";{{ x }}",
	// a template that cannot be found (on the filesystem; the harness loader takes the name for an inline source)
	"q.html": "A{% include 'nosuch-' ~ l|length ~ '.html' %}B{{ x }}",
	// struct values whose Go types have the same name (function-local "row", anonymous structs) and different
	// layouts, one layout per call: a field is found by the value's own type
	"rw.txt": "{{ rw.A }}#{{ rw.B }}|{{ an.X }}#{{ an.Y }}|{{ rw.A }}",
	// rare malformed for tags (their errors are built on a separate path), parsed and executed
	"e3.html": "a{% for 1 in l %}x{% endfor %}",
	"e4.html": "line1\nline2 {% for k, 'v' in l %}x{% endfor %}",
	// a list with spare capacity that the calls share, merged with per-call elements
	"mg.txt": "{{ shl|merge([x, y])|join('|') }};{{ shl|merge([x])|merge([y])|length }};{{ shl|join }}",
	// two-word operators whose gap is spelled differently in every schedule / iteration (c18Gap): state that the parser
	// keeps per spelling of an operator outside the parse is written on every such parse
	"op.txt": "{{ x not\x00in l ? 'n' : 'i' }}{{ y starts\x00with '<' ? 1 : 0 }}{{ y is\x00not empty ? 1 : 0 }}{{ l[0] ends\x00with '<' ? 1 : 0 }}|{{ x }}",
	"f.js":   "{% if x matches pat %}g('{{ y }}'){% endif %}{% for i in l %}{{ i }};{% endfor %}{{ x starts with pat ? 1 : 0 }}",
}

var c18Words = strings.Repeat("lorem ipsum dolor sit amet consectetur adipiscing elit sed do eiusmod tempor ", 9)

var c18Pad = "{# " + strings.Repeat("padding so that the template is longer than any size threshold of a cache; ", 9) + "#}"

// c18ScenarioCap bounds the exploration of one scenario (a lock-based repair makes blocked
// hand-offs ~100x more expensive); a capped scenario makes the run exhaustive:false, exit 0.
var c18ScenarioCap = 150 * time.Second

const c18Inline = "<i>{{ x }}</i>{{ y }}"

type c18Op struct {
	parse  bool
	name   string
	nilCtx bool   // Execute with a nil context
	expect string // if set: the output the call has by construction (not only "what it returns alone in this process")
}

var c18Ops = []c18Op{
	{false, "a.html", false, ""}, {false, "b.js", false, ""}, {false, "c.txt", false, ""}, {false, "d.css", false, ""}, {false, c18Inline, false, ""}, {false, "e.html", false, ""}, {true, "b.js", false, ""}, {false, "f.js", false, ""}, {true, "a.html", false, ""},
	{false, "g.xml", false, ""}, {false, "h.xml", false, ""}, {false, "m.js", false, ""},
	{false, "n.html", false, ""}, {false, "s1.html", true, "[A]"}, {false, "s2.html", true, "[B]"},
	{false, "u1.html", false, ""}, {false, "u2.html", false, ""}, {false, "u3.html", false, ""},
	{false, "mf.txt", false, ""}, {false, "mm.txt", false, "[<k>]|<j>|[[<i>]]"}, {false, "e1.html", false, ""}, {true, "e2.html", false, ""},
	{false, "tf.txt", false, ""}, {false, "tn.txt", false, ""},
	{false, "sv.html", false, ""}, {false, "sv.js", false, ""}, {false, "q.html", false, ""},
	{false, "rw.txt", false, "inv#7|5#y|inv"},
	{false, "e3.html", false, ""}, {false, "mg.txt", false, ""}, {false, "op.txt", false, ""},
}

// c18Epoch makes template names and patterns unique per schedule / iteration ("a~17.html" is served like
// "a.html"), so that every run takes the cold path of any cache keyed by name or pattern: a race or an
// interference that only exists while a cache is being filled is not hidden by earlier runs in the process.
var c18Epoch atomic.Int64

// c18PlainNames: the filesystem environment of the free-running pass serves fixed files (no per-schedule names)
var c18PlainNames bool

func c18Name(name string, k int64) string {
	if c18PlainNames {
		return name
	}
	if i := strings.Index(name, "."); i > 0 && !strings.Contains(name, "{") {
		return name[:i] + "~" + strconv.FormatInt(k, 10) + name[i:]
	}
	return name + "{# " + strconv.FormatInt(k, 10) + " #}"
}

var c18Suffix = regexp.MustCompile(`~[0-9]+|\{# [0-9]+ #\}`)

// c18Ctx: the context of a call. Concurrent calls get different variants v (thread index): the value x and
// the pattern differ, so that a call that picks up another call's operands or intermediate results (a shared
// cache filled in two steps, a scratch buffer) returns something it does not return alone.
// c18Shared: one html-safe value per epoch, shared by all calls of that schedule / iteration (a solo run has an epoch,
// hence a value, of its own)
var c18Shared sync.Map

var c18SharedLists sync.Map

// c18SharedListFor: one list (with spare capacity, as lists built by append have) per epoch, shared by its calls
func c18SharedListFor(k int64) stick.Value {
	v, _ := c18SharedLists.LoadOrStore(k, append(make([]stick.Value, 0, 16), "s1", "s2", "s3"))
	c18SharedLists.Delete(k - 4096)
	return v
}

func c18SharedFor(k int64) stick.Value {
	v, _ := c18Shared.LoadOrStore(k, stick.NewSafeValue("<b>'s'</b>", "html"))
	c18Shared.Delete(k - 4096) // old epochs are never used again
	return v
}

func c18RowA() (stick.Value, stick.Value) {
	type row struct {
		A string
		B int
	}
	return row{"inv", 7}, struct {
		X int
		Y string
	}{5, "y"}
}

func c18RowB() (stick.Value, stick.Value) {
	type row struct {
		pad [3]int
		B   int
		C   float64
		A   string
	}
	return row{B: 7, A: "inv"}, struct {
		Y string
		Z bool
		X int
	}{"y", true, 5}
}

func c18Ctx(k int64, v int) map[string]stick.Value {
	rw, an := c18RowA()
	if v%2 == 1 {
		rw, an = c18RowB()
	}
	m := c18Ctx0(k, v)
	m["rw"], m["an"] = rw, an
	m["shl"] = c18SharedListFor(k)
	return m
}

func c18Ctx0(k int64, v int) map[string]stick.Value {
	pre := []string{"", "p", "q"}[v%3]
	first := "<"
	if pre != "" {
		first = pre
	}
	return map[string]stick.Value{"x": pre + "<'\"&;\\", "y": "</script>", "l": []stick.Value{"<", "'", pre}, "sv": c18SharedFor(k),
		"base": c18Name("a.html", k), "inc": c18Name("c.txt", k), "inc2": c18Name("k.txt", k), "ub": c18Name("ub.html", k), "pat": "^" + first + ".{0," + strconv.FormatInt(k%997+1, 10) + "}"}
}

// c18Gap: the blanks between the two words of an operator, a spelling of its own per epoch (the number in the
// template's name written in blanks and tabs after two blanks); never the single blank of the canonical spelling
func c18Gap(name string) string {
	g := "  "
	if m := c18Suffix.FindString(name); len(m) > 1 && m[0] == '~' {
		k, _ := strconv.ParseInt(m[1:], 10, 64)
		for ; k > 0; k >>= 1 {
			g += string(" \t"[k&1])
		}
	}
	return g
}

// c18Loader: map lookup, falling back to the name as source (inline templates); a point before each load.
type c18Loader struct{ s *core.Sched }

func (l *c18Loader) Load(name string) (stick.Template, error) {
	l.s.Point()
	if src, ok := c18Tpls[c18Suffix.ReplaceAllString(name, "")]; ok {
		return &memTpl{name, strings.ReplaceAll(src, "\x00", c18Gap(name))}, nil
	}
	return &memTpl{name, name}, nil
}

type c18Writer struct {
	s   *core.Sched
	buf bytes.Buffer
}

func (w *c18Writer) Write(p []byte) (int, error) {
	w.s.Point()
	return w.buf.Write(p)
}

type c18Visitor struct{ s *core.Sched }

func (v *c18Visitor) Enter(parse.Node) { v.s.Point() }
func (v *c18Visitor) Leave(parse.Node) { v.s.Point() }

func c18Env(kind int, s *core.Sched) *stick.Env {
	var env *stick.Env
	if kind == 2 { // the library's own filesystem loader (free-running pass only: it has no scheduling points)
		dir := filepath.Join(core.WorkDir, "c18fs")
		if core.WorkDir == "" {
			dir, _ = os.MkdirTemp("", "c18fs")
		}
		os.MkdirAll(dir, 0o755)
		for n, src := range c18Tpls {
			os.WriteFile(filepath.Join(dir, n), []byte(strings.ReplaceAll(src, "\x00", " \t ")), 0o644)
		}
		env = twig.New(stick.NewFilesystemLoader(dir))
		env.Filters["markjs"] = func(ctx stick.Context, val stick.Value, args ...stick.Value) stick.Value {
			return stick.NewSafeValue(val, "js") // a user filter that derives a js-safe value; it does not touch its input
		}
		env.Filters["up"] = func(ctx stick.Context, val stick.Value, args ...stick.Value) stick.Value {
			return strings.ToUpper(stick.CoerceString(val))
		}
		return env
	}
	if kind == 0 {
		env = twig.New(&c18Loader{s})
		// a point before every Enter/Leave of the (shared) auto-escape visitor
		env.Visitors = append([]parse.NodeVisitor{&c18Visitor{s}}, env.Visitors...)
	} else {
		env = stick.New(&c18Loader{s})
		env.Visitors = append(env.Visitors, &c18Visitor{s})
	}
	env.Filters["markjs"] = func(ctx stick.Context, val stick.Value, args ...stick.Value) stick.Value {
		return stick.NewSafeValue(val, "js") // a user filter that derives a js-safe value; it does not touch its input
	}
	env.Filters["up"] = func(ctx stick.Context, val stick.Value, args ...stick.Value) stick.Value {
		return strings.ToUpper(stick.CoerceString(val))
	}
	if _, done := env.Filters["c18-wrapped"]; !done { // (were the table ever shared between environments, wrap it once only)
		for name, f := range env.Filters {
			f := f
			env.Filters[name] = func(ctx stick.Context, val stick.Value, args ...stick.Value) stick.Value {
				s.Point()
				return f(ctx, val, args...)
			}
		}
		env.Filters["c18-wrapped"] = func(ctx stick.Context, val stick.Value, args ...stick.Value) stick.Value { return val }
	}
	return env
}

func c18AfterReturn(w io.Writer) {
	if cw, ok := w.(*c18Writer); ok && cw.s != nil {
		cw.s.Point()
	}
}

func c18Do(env *stick.Env, op c18Op, w io.Writer, k int64, v int) (res string) {
	defer func() {
		if p := recover(); p != nil {
			res = "PANIC " + panicInfo(p)
		}
	}()
	name := c18Name(op.name, k)
	norm := func(s string) string { return c18Suffix.ReplaceAllString(s, "") }
	if op.parse {
		tree, err := env.Parse(name)
		c18AfterReturn(w)
		if err != nil {
			return "parse error: " + norm(err.Error())
		}
		return "tree: " + norm(tree.Root().String())
	}
	ctx := c18Ctx(k, v)
	if op.nilCtx {
		ctx = nil
	}
	err := env.Execute(name, w, ctx)
	c18AfterReturn(w) // a scheduling point between the call's return and the caller's use of the error
	if err != nil {
		return "err=" + norm(err.Error())
	}
	return "err=<nil>"
}

func c18Solo(kind int, op c18Op, v int) string {
	env := c18Env(kind, nil)
	w := &c18Writer{}
	r := c18Do(env, op, w, c18Epoch.Add(1), v)
	return r + " out=" + w.buf.String()
}

type c18Outcome struct {
	results []string
	dead    bool
	trace   []int
	points  int
}

func c18RunSchedule(kind int, ops []c18Op, src *core.Src) c18Outcome {
	s := &core.Sched{}
	env := c18Env(kind, s)
	res := make([]string, len(ops))
	bodies := make([]func(), len(ops))
	k := c18Epoch.Add(1)
	for i, op := range ops {
		i, op := i, op
		bodies[i] = func() {
			w := &c18Writer{s: s}
			r := c18Do(env, op, w, k, i)
			res[i] = r + " out=" + w.buf.String()
		}
	}
	s.Run(src, bodies)
	return c18Outcome{res, s.Dead, s.Trace, s.Points}
}

func c18Scenario(c core.Case) (kind, bound int, ops []c18Op) {
	kind, bound = c.N[0], c.N[1]
	for _, i := range c.N[2:] {
		ops = append(ops, c18Ops[i])
	}
	return
}

func c18Sched(c core.Case) core.Result {
	kind, bound, ops := c18Scenario(c)
	var solo []string
	var viol *core.Result
	var schedules, trans, points int64
	outcomes := map[string]bool{}
	preempted := int64(0)
	t0 := time.Now()
	capped := false
	core.Explore(bound, func(src *core.Src) {
		if schedules&255 == 255 && time.Since(t0) > c18ScenarioCap {
			// internal deadline: report what was covered, never an alarm
			capped = true
			src.Stop()
		}
		o := c18RunSchedule(kind, ops, src)
		if solo == nil { // after the first schedule, so that the first schedule runs on cold caches
			for i, op := range ops {
				solo = append(solo, c18Solo(kind, op, i))
			}
		}
		schedules++
		trans += int64(len(o.trace))
		points += int64(o.points)
		if src.Devs() > 0 {
			preempted++
		}
		outcomes[strings.Join(o.results, "\x00")] = true
		bad := ""
		if o.dead {
			bad = "deadlock: every unfinished thread is blocked"
		}
		for i := range ops {
			if bad == "" && o.results[i] != solo[i] {
				bad = fmt.Sprintf("thread %d (%v) returned\n    %s\n  but alone it returns\n    %s", i, ops[i], o.results[i], solo[i])
			}
			if want := "err=<nil> out=" + ops[i].expect; bad == "" && ops[i].expect != "" && (o.results[i] != want || solo[i] != want) {
				bad = fmt.Sprintf("thread %d (%v) returned\n    %s\n  (alone, later in this process: %s) but by construction it renders\n    %s", i, ops[i], o.results[i], solo[i], want)
			}
		}
		if bad == "" {
			return
		}
		// replay the same schedule twice: observations must be identical (else the harness does not own the non-determinism)
		choices := src.Trace()
		stable := true
		for k := 0; k < 2; k++ {
			core.ReplayChoices(choices, bound, func(s2 *core.Src) {
				o2 := c18RunSchedule(kind, ops, s2)
				if strings.Join(o2.results, "\x00") != strings.Join(o.results, "\x00") {
					stable = false
				}
			})
		}
		class := "interference"
		if o.dead {
			class = "deadlock"
		}
		if !stable {
			class = "nondeterministic-replay"
		}
		v := core.Violation(class, fmt.Sprintf("schedule %v (thread ids at each decision; choices %v, %d preemption(s)) on a shared %s environment, threads %v:\n  %s", o.trace, choices, src.Devs(), []string{"twig", "core"}[kind], ops, bad))
		viol = &v
		src.Stop()
	})
	r := core.Okay(true, fmt.Sprint(len(outcomes)))
	if viol != nil {
		r = *viol
	}
	r.Capped = capped
	r.States = points + schedules
	r.Trans = trans
	r.Traces = schedules
	r.Cnt = map[string]int64{"schedules": schedules, "schedules_with_preemption": preempted, "distinct_global_outcomes": int64(len(outcomes))}
	return r
}

// c18Race: the free-running pass (sampling of schedules, labelled as such): N goroutines hammer one
// environment; under the race detector (halt_on_error) any report kills the worker and is a violation.
func c18Race(c core.Case) core.Result {
	kind, n, ops := c18Scenario(c)
	c18PlainNames = kind == 2
	defer func() { c18PlainNames = false }()
	env := c18Env(kind, nil)
	var wg sync.WaitGroup
	iters := 12
	base := c18Epoch.Add(int64(iters)) - int64(iters)
	results := make([][]string, n)
	// meanwhile the host builds and configures OTHER environments (one per request, say): nothing they do may
	// touch the environment under test
	stop := make(chan struct{})
	var builder sync.WaitGroup
	builder.Add(1)
	go func() {
		defer builder.Done()
		for i := 0; ; i++ {
			select {
			case <-stop:
				return
			default:
			}
			var other *stick.Env
			if kind == 1 {
				other = stick.New(nil)
			} else {
				other = twig.New(nil)
			}
			other.Filters["up"] = func(ctx stick.Context, val stick.Value, args ...stick.Value) stick.Value { return "OTHER" }
			other.Filters["other"+itoa(i%7)] = other.Filters["up"]
			other.Functions["f"] = func(ctx stick.Context, args ...stick.Value) stick.Value { return "OTHER" }
			other.Tests["t"] = func(ctx stick.Context, val stick.Value, args ...stick.Value) bool { return true }
			other.Visitors = append(other.Visitors, &c18Visitor{nil})
			var sink bytes.Buffer
			other.Execute("{{ 'a'|up }}{{ 1 + 1 }}", &sink, nil)
		}
	}()
	for g := 0; g < n; g++ {
		g := g
		wg.Add(1)
		go func() {
			defer wg.Done()
			for it := 0; it < iters; it++ {
				op := ops[(g+it)%len(ops)]
				w := &c18Writer{}
				// all goroutines use the same fresh names in the same iteration: they collide on cold cache keys
				r := c18Do(env, op, w, base+int64(it), g) + " out=" + w.buf.String()
				results[g] = append(results[g], r)
			}
		}()
	}
	wg.Wait()
	close(stop)
	builder.Wait()
	solo := map[[2]int]string{}
	for i, op := range ops {
		for v := 0; v < 3; v++ {
			solo[[2]int{i, v}] = c18Solo(kind, op, v)
		}
	}
	for g := range results {
		for it, r := range results[g] {
			if want := solo[[2]int{(g + it) % len(ops), g % 3}]; r != want {
				return core.Violation("interference-free-running", fmt.Sprintf("%d goroutines on a shared environment, ops %v: goroutine %d iteration %d (%v) returned\n    %s\n  but alone it returns\n    %s", n, ops, g, it, ops[(g+it)%len(ops)], r, want))
			}
		}
	}
	r := core.Okay(true, "race-free")
	r.Cnt = map[string]int64{"free_running_calls": int64(n * iters)}
	return r
}

// c18Barrier: n threads run the same operation on one shared environment under the structured schedule "every
// thread advances to its k-th scheduling point before any thread goes further, then each runs to completion":
// all n calls are in flight at the same program point. N = [kind, n, op, k].
func c18Barrier(c core.Case) core.Result {
	kind, n, op, k := c.N[0], c.N[1], c18Ops[c.N[2]], c.N[3]
	run := func(threads, k int) ([]string, *core.Sched) {
		s := &core.Sched{}
		env := c18Env(kind, s)
		res := make([]string, threads)
		bodies := make([]func(), threads)
		ep := c18Epoch.Add(1)
		for i := 0; i < threads; i++ {
			i := i
			bodies[i] = func() {
				w := &c18Writer{s: s}
				res[i] = c18Do(env, op, w, ep, i) + " out=" + w.buf.String()
			}
		}
		s.Policy = func(s *core.Sched, opts []int) int {
			for j, id := range opts {
				if s.NPoints(id) < k {
					return j
				}
			}
			return 0
		}
		core.Explore(0, func(src *core.Src) { s.Run(src, bodies) })
		return res, s
	}
	_, s1 := run(1, 0)
	if k > s1.Points {
		return core.Skipped("beyond-the-last-point")
	}
	res, s := run(n, k)
	if s.Dead {
		return core.Violation("deadlock", fmt.Sprintf("%d threads running %v, all advanced to point %d: every unfinished thread is blocked", n, op, k))
	}
	for i, r := range res {
		want := c18Solo(kind, op, i)
		if op.expect != "" {
			want = "err=<nil> out=" + op.expect
		}
		if r != want {
			return core.Violation("interference", fmt.Sprintf("%d calls of %v in flight on a shared %s environment, each advanced to its scheduling point %d of %d before any went on: call %d returned\n    %s\n  but alone it returns\n    %s", n, op, []string{"twig", "core"}[kind], k, s1.Points, i, r, want))
		}
	}
	r := core.Okay(true, "ok")
	r.States, r.Trans, r.Traces = int64(s.Points), int64(len(s.Trace)), 1
	r.Cnt = map[string]int64{"barrier_schedules": 1}
	return r
}

func c18Run(c core.Case) core.Result {
	switch c.Fam {
	case "barrier":
		return c18Barrier(c)
	case "sched":
		return c18Sched(c)
	case "race":
		return c18Race(c)
	}
	return core.Skipped("unknown-family")
}

func c18Levels(tier string) []core.Level {
	bound := 2
	if thorough(tier) {
		bound = 3
		c18ScenarioCap = 8 * time.Minute // three preemptions over the longest pairs; a capped scenario makes the run exhaustive:false
	}
	n := len(c18Ops)
	// all pairs of the first 12 operations; the later ones (nested includes, nil-context calls, padded templates with
	// use, failing / nested macros, templates that end early) with themselves, with the others of their kind and with
	// two of the first (html with blocks, css with include)
	group := map[int]int{13: 1, 14: 1, 15: 2, 16: 2, 17: 2, 18: 3, 19: 3, 20: 4, 21: 4, 22: 5, 23: 5, 24: 6, 25: 6, 26: 6, 27: 6, 28: 4, 29: 6}
	paired := func(i, j int) bool {
		if j < 12 || i == 0 || i == 3 || i == j {
			return true
		}
		return i >= 12 && group[i] != 0 && group[i] == group[j] // later operations: with their own kind
	}
	pairs := func(kind, bound int, emit func(core.Case)) {
		for i := 0; i < n; i++ {
			for j := i; j < n; j++ {
				if paired(i, j) {
					if bound > 1 && j >= 22 && j <= 23 {
						continue // the two filter operations (several hundred points each): schedules with <= 1 preemption, and the race pass
					}
					emit(core.Case{Fam: "sched", N: []int{kind, bound, i, j}})
				}
			}
		}
	}
	triples := [][]int{{0, 1, 2}, {9, 10, 1}, {1, 0, 5}, {3, 1, 0}, {10, 9, 10}, {4, 1, 6}, {5, 5, 1}, {0, 7, 3}, {6, 8, 1}, {2, 4, 7}, {1, 1, 1}, {0, 1, 1}, {11, 7, 11}, {0, 11, 7}}
	nTriples := 5
	if thorough(tier) {
		nTriples = len(triples)
	}
	lv := []core.Level{
		{Name: "twig env: pairs of 31 operations (incl. the same one twice), all schedules with <= 1 preemption", Gen: func(emit func(core.Case)) { pairs(0, 1, emit) }},
		{Name: fmt.Sprintf("twig env: all pairs (but those with the two filter operations), all schedules with <= %d preemptions", bound), Gen: func(emit func(core.Case)) { pairs(0, bound, emit) }},
		{Name: "core env: all pairs, all schedules with <= 1 preemption", Gen: func(emit func(core.Case)) { pairs(1, 1, emit) }},
		{Name: fmt.Sprintf("twig env: %d three-thread scenarios, all schedules with <= 2 preemptions", nTriples), Gen: func(emit func(core.Case)) {
			for _, t := range triples[:nTriples] {
				emit(core.Case{Fam: "sched", N: append([]int{0, 2}, t...)})
			}
		}},
		{Name: "64 calls in flight: 64 threads running the same operation, every thread advanced to its k-th scheduling point before any goes further, for every operation and every k", Gen: func(emit func(core.Case)) {
			kinds := 1
			if thorough(tier) {
				kinds = 2
			}
			for kind := 0; kind < kinds; kind++ {
				for op := 0; op < n; op++ {
					for k := 0; k <= 250; k++ {
						if (op == 22 || op == 23) && k > 40 && k%10 != 0 {
							continue // the filter operations have several hundred points each: the first 40 and every tenth
						}
						emit(core.Case{Fam: "barrier", N: []int{kind, 64, op, k}})
					}
				}
			}
		}},
		{Name: "free-running pass under the race detector: 64 goroutines x every pair / triple scenario (sampling, adds detections only)", Race: true, Gen: func(emit func(core.Case)) {
			kinds := 1 // quick: twig environment; thorough: core environment as well
			if thorough(tier) {
				kinds = 2
			}
			for kind := 0; kind < kinds; kind++ {
				for i := 0; i < n; i++ {
					for j := i; j < n; j++ {
						if paired(i, j) {
							emit(core.Case{Fam: "race", N: []int{kind, 64, i, j}})
						}
					}
				}
				for _, t := range triples[:nTriples] {
					emit(core.Case{Fam: "race", N: append([]int{kind, 64}, t...)})
				}
			}
			// the filesystem loader: every operation executed by all 64 goroutines at once (the same files are loaded concurrently)
			for i := 0; i < n; i++ {
				if len(c18Ops[i].name) < 12 && !c18Ops[i].nilCtx {
					emit(core.Case{Fam: "race", N: []int{2, 64, i, i}})
				}
			}
		}},
	}
	if thorough(tier) {
		lv = append(lv, core.Level{Name: "twig env: 10 three-thread scenarios, all schedules with <= 3 preemptions", Gen: func(emit func(core.Case)) {
			for _, t := range triples {
				emit(core.Case{Fam: "sched", N: append([]int{0, 3}, t...)})
			}
		}})
		lv = append(lv, core.Level{Name: "core env: all pairs, all schedules with <= 2 preemptions", Gen: func(emit func(core.Case)) { pairs(1, 2, emit) }})
	}
	return lv
}

func init() {
	core.Register(&core.Check{
		ID:       "C18",
		Category: "model_checking",
		Rule: "stateless exploration of schedules under a cooperative scheduler: threads = Execute/Parse calls on ONE shared environment (11 operations: html with blocks, js, txt, css with include, inline source, child extending html, two templates of an unknown content type - one with raw / explicitly escaped values -, Parse), scheduling points at every loader call, writer call, filter call and before every Enter/Leave of the environment's visitors; " +
			"all schedules with <= 2 (thorough <= 3) preemptions for all operation pairs and 10 three-thread scenarios, on the twig and the core environment. Oracle: each thread's (output, error / tree) equals its solo result; no deadlock. " +
			"states = scheduling points visited, transitions = scheduling decisions, traces validated = complete schedules whose per-thread results were compared with the solo runs. A violating schedule is replayed twice and must reproduce. " +
			"Data-race clause: a separate free-running pass of the same bodies (64 goroutines) under the Go race detector - this pass samples schedules",
		Assumptions: []string{
			"the lexer goroutine of each parse is not under the scheduler: it is a single-producer/single-consumer process over an unbuffered channel with private state (deterministic); replay of violating schedules checks this",
			"a thread that holds the token and is parked in a sync primitive (goroutine state sync.* / semacquire) is treated as blocked on a lock and another thread is scheduled; channel-based locks would not be recognised",
			"the race detector pass is sampling, not exhaustive",
		},
		Levels:       c18Levels,
		Run:          c18Run,
		NoDedup:      true,
		Procs:        1, // cooperative hand-offs are ~10x cheaper on one P; the race workers use 4
		Budget:       budget(7*time.Minute, 75*time.Minute),
		CaseDeadline: 10 * time.Minute,
	})
}
