package checks

import (
	"fmt"
	"math"
	"math/big"
	"net"
	"regexp"
	"strconv"
	"strings"
	"time"

	"github.com/shopspring/decimal"
	"github.com/tyler-sommer/stick"
	"github.com/tyler-sommer/stick/twig"
	"github.com/tyler-sommer/stick/twig/escape"

	"verif/core"
)

// C15 — coercions are total, uniform across Go types and mutually consistent.
// Algebraic oracles only (no reference interpreter), see DESIGN.md 3/C15.

type coerced struct {
	s string
	n float64
	b bool
}

func (c coerced) String() string {
	return fmt.Sprintf("(%q, %v [%016x], %v)", c.s, c.n, math.Float64bits(c.n), c.b)
}

func coerceAll(v stick.Value) (r coerced, pan string) {
	defer func() {
		if p := recover(); p != nil {
			pan = panicInfo(p)
		}
	}()
	r.s = stick.CoerceString(v)
	r.n = stick.CoerceNumber(v)
	r.b = stick.CoerceBool(v)
	return
}

func sameCoerced(a, b coerced) bool {
	return a.s == b.s && math.Float64bits(a.n) == math.Float64bits(b.n) && a.b == b.b
}

// customSafe is a user-defined implementation of stick.SafeValue.
type customSafe struct{ v stick.Value }

func (c customSafe) Value() stick.Value     { return c.v }
func (c customSafe) IsSafe(typ string) bool { return typ == "html" }
func (c customSafe) SafeFor() []string      { return []string{"html"} }

// safeLaw: a value wrapped as safe - by the library's NewSafeValue and by a user-defined SafeValue, in every
// mixed nesting of depth 1..3 - coerces exactly like the value inside.
func safeLaw(v stick.Value, base coerced) string {
	for depth := 1; depth <= 3; depth++ {
		for m := 0; m < 1<<uint(depth); m++ {
			w := v
			desc := ""
			for d := 0; d < depth; d++ {
				if m&(1<<uint(d)) == 0 {
					w = stick.NewSafeValue(w, "html")
					desc = "NewSafeValue(" + desc
				} else {
					w = customSafe{w}
					desc = "custom(" + desc
				}
			}
			got, pan := coerceAll(w)
			if pan != "" {
				return fmt.Sprintf("coercing %s%T %v wrapped %d deep panicked: %s", desc, v, v, depth, pan)
			}
			if !sameCoerced(got, base) {
				return fmt.Sprintf("%s%T %v%s coerces to %v but the bare value to %v", desc, v, v, strings.Repeat(")", depth), got, base)
			}
		}
	}
	return ""
}

// carriers returns every Go numeric value that holds the integer n exactly.
func carriers(n *big.Int) []stick.Value {
	var res []stick.Value
	if n.IsInt64() {
		i := n.Int64()
		if i >= math.MinInt8 && i <= math.MaxInt8 {
			res = append(res, int8(i))
		}
		if i >= math.MinInt16 && i <= math.MaxInt16 {
			res = append(res, int16(i))
		}
		if i >= math.MinInt32 && i <= math.MaxInt32 {
			res = append(res, int32(i))
		}
		res = append(res, int64(i), int(i))
	}
	if n.IsUint64() {
		u := n.Uint64()
		if u <= math.MaxUint8 {
			res = append(res, uint8(u))
		}
		if u <= math.MaxUint16 {
			res = append(res, uint16(u))
		}
		if u <= math.MaxUint32 {
			res = append(res, uint32(u))
		}
		res = append(res, uint64(u), uint(u))
	}
	f, acc := new(big.Float).SetInt(n).Float64()
	if acc == big.Exact && !math.IsInf(f, 0) {
		res = append(res, f)
		if f32 := float32(f); float64(f32) == f && !math.IsInf(float64(f32), 0) {
			res = append(res, f32)
		}
	}
	return res
}

var plainInt = regexp.MustCompile(`^-?[0-9]+$`)

func c15Int(nstr string) core.Result {
	n, ok := new(big.Int).SetString(nstr, 10)
	if !ok {
		return core.Skipped("bad-int")
	}
	cs := carriers(n)
	if len(cs) == 0 {
		return core.Skipped("no-carrier")
	}
	abs := new(big.Int).Abs(n)
	small := abs.Cmp(big.NewInt(1000000)) < 0
	var first coerced
	for i, v := range cs {
		got, pan := coerceAll(v)
		if pan != "" {
			return core.Violation("panic", fmt.Sprintf("coercing %T(%v) panicked: %s", v, v, pan))
		}
		if msg := safeLaw(v, got); msg != "" {
			return core.Violation("safe-wrapper", msg)
		}
		// used as the key of a string-keyed hash, every carrier of n selects the entry spelled n (not a character)
		if small && n.IsInt64() && n.Int64() >= 0 {
			m := map[string]stick.Value{n.String(): "hit", string(rune(n.Int64())): "rune", "x": "other"}
			if el, err := stick.GetAttr(m, v); err != nil || el != "hit" {
				return core.Violation("carrier-dependent", fmt.Sprintf("GetAttr(map[string]Value{%q: hit, ...}, %T(%v)) = %v, %v; want the entry %q", n.String(), v, v, el, err, n.String()))
			}
		}
		// an integer kind spells its value in decimal digits, whatever its size (floats switch to an exponent at a million)
		switch v.(type) {
		case float32, float64:
		default:
			if got.s != n.String() {
				return core.Violation("string", fmt.Sprintf("CoerceString(%T(%v)) = %q, want %q", v, v, got.s, n.String()))
			}
			if back := stick.CoerceNumber(got.s); back != got.n {
				return core.Violation("string", fmt.Sprintf("CoerceString(%T(%v)) = %q, which coerces back to %v, not %v", v, v, got.s, back, got.n))
			}
		}
		if i == 0 {
			first = got
			wantN, _ := new(big.Float).SetInt(n).Float64()
			if got.n != wantN {
				return core.Violation("number", fmt.Sprintf("CoerceNumber(%T(%v)) = %v, want %v", v, v, got.n, wantN))
			}
			if got.b != (n.Sign() > 0) {
				return core.Violation("bool", fmt.Sprintf("CoerceBool(%T(%v)) = %v", v, v, got.b))
			}
			if small && got.s != n.String() {
				return core.Violation("string", fmt.Sprintf("CoerceString(%T(%v)) = %q, want %q", v, v, got.s, n.String()))
			}
			continue
		}
		if got.n != first.n || got.b != first.b {
			return core.Violation("carrier-dependent", fmt.Sprintf("%T(%v) coerces to %v but %T(%v) to %v", v, v, got, cs[0], cs[0], first))
		}
		if small && got.s != first.s {
			return core.Violation("carrier-dependent", fmt.Sprintf("CoerceString(%T(%v)) = %q but CoerceString(%T(%v)) = %q", v, v, got.s, cs[0], cs[0], first.s))
		}
	}
	// the decimal spelling coerces to the number it spells
	sign := ""
	if n.Sign() < 0 {
		sign = "-"
	}
	// decimal spellings: canonical, explicit plus, zero-padded (decimal, never octal), with a fraction / exponent
	for _, sp := range []string{n.String(), "+" + abs.String(), sign + "0" + abs.String(), sign + "00" + abs.String(), n.String() + ".0", sign + "0" + abs.String() + ".50e0"} {
		if strings.HasSuffix(sp, ".50e0") {
			// n + 0.5 (or n - 0.5): only asserted where exactly representable
			if abs.Cmp(big.NewInt(1<<52)) >= 0 {
				continue
			}
		}
		want, err := strconv.ParseFloat(sp, 64)
		if err != nil {
			continue
		}
		if sp[0] == '+' && n.Sign() < 0 {
			continue
		}
		got, pan := coerceAll(sp)
		if pan != "" {
			return core.Violation("panic", fmt.Sprintf("coercing %q panicked: %s", sp, pan))
		}
		if got.n != want {
			return core.Violation("numeric-string", fmt.Sprintf("CoerceNumber(%q) = %v, want %v", sp, got.n, want))
		}
		if got.s != sp {
			return core.Violation("string-identity", fmt.Sprintf("CoerceString(%q) = %q", sp, got.s))
		}
	}
	return core.Okay(true, first.s)
}

func c15Float(bits uint64) core.Result {
	f := math.Float64frombits(bits)
	got, pan := coerceAll(f)
	if pan != "" {
		return core.Violation("panic", fmt.Sprintf("coercing float64 %v panicked: %s", f, pan))
	}
	if msg := safeLaw(f, got); msg != "" {
		return core.Violation("safe-wrapper", msg)
	}
	if math.IsNaN(f) || math.IsInf(f, 0) {
		return core.Okay(false, got.s)
	}
	if math.Float64bits(got.n) != bits {
		return core.Violation("number", fmt.Sprintf("CoerceNumber(float64 %v) = %v", f, got.n))
	}
	back := stick.CoerceNumber(got.s)
	if math.Float64bits(back) != bits && !(f == 0 && back == 0) {
		return core.Violation("round-trip", fmt.Sprintf("float64 %v [%016x] -> CoerceString %q -> CoerceNumber %v [%016x]", f, bits, got.s, back, math.Float64bits(back)))
	}
	if f == math.Trunc(f) && math.Abs(f) < 1e6 && f != 0 || (f == 0 && !math.Signbit(f)) {
		if !plainInt.MatchString(got.s) {
			return core.Violation("integral-format", fmt.Sprintf("CoerceString(float64 %v) = %q, expected a plain integer", f, got.s))
		}
	}
	if got.b != (f > 0) {
		return core.Violation("bool", fmt.Sprintf("CoerceBool(float64 %v) = %v", f, got.b))
	}
	// every decimal spelling of f coerces to f
	for _, sp := range []string{strconv.FormatFloat(f, 'e', -1, 64), strconv.FormatFloat(f, 'g', -1, 64), strconv.FormatFloat(f, 'f', -1, 64)} {
		if n := stick.CoerceNumber(sp); n != f {
			return core.Violation("numeric-string", fmt.Sprintf("CoerceNumber(%q) = %v, want %v", sp, n, f))
		}
	}
	// the decimal that spells f (up to 17 significant digits): as a value, as a pointer and through its text
	if math.Abs(f) < 1e300 && (f == 0 || math.Abs(f) > 1e-300) {
		d := decimal.NewFromFloat(f)
		dn, pan := coerceAll(d)
		if pan != "" {
			return core.Violation("panic", fmt.Sprintf("coercing decimal %s panicked: %s", d, pan))
		}
		viaText := stick.CoerceNumber(dn.s)
		viaPtr := stick.CoerceNumber(&d)
		if dn.n != viaText || dn.n != viaPtr || dn.n != f {
			return core.Violation("decimal", fmt.Sprintf("decimal %s (from float64 %v): CoerceNumber = %v, through its text %q = %v, through a pointer = %v", d, f, dn.n, dn.s, viaText, viaPtr))
		}
		if msg := safeLaw(d, dn); msg != "" {
			return core.Violation("safe-wrapper", msg)
		}
	}
	// long spellings of the same number (zero padding on either side, explicit sign, exponent forms)
	if f == math.Trunc(f) && math.Abs(f) < 1e15 {
		plain := strconv.FormatFloat(math.Abs(f), 'f', -1, 64)
		sign := ""
		if f < 0 {
			sign = "-"
		}
		for _, sp := range []string{sign + strings.Repeat("0", 40) + plain, sign + plain + "." + strings.Repeat("0", 40), sign + plain + strings.Repeat("0", 30) + "e-30", sign + "0." + strings.Repeat("0", 29) + plain + "e" + strconv.Itoa(29+len(plain))} {
			if n := stick.CoerceNumber(sp); n != f {
				return core.Violation("numeric-string", fmt.Sprintf("CoerceNumber(%q) = %v, want %v", sp, n, f))
			}
		}
	}
	// float32 carrier of the same value
	if f32 := float32(f); float64(f32) == f {
		g, pan := coerceAll(f32)
		if pan != "" {
			return core.Violation("panic", fmt.Sprintf("coercing float32 %v panicked: %s", f32, pan))
		}
		if g.n != f || g.b != got.b {
			return core.Violation("carrier-dependent", fmt.Sprintf("float32(%v) coerces to %v, float64 to %v", f32, g, got))
		}
		if msg := safeLaw(f32, g); msg != "" {
			return core.Violation("safe-wrapper", msg)
		}
	}
	return core.Okay(true, "")
}

// harness types implementing every non-empty subset of {Stringer, Number, Boolean}
type tS struct{ s string }
type tN struct{ n float64 }
type tB struct{ b bool }
type tSN struct {
	s string
	n float64
}
type tSB struct {
	s string
	b bool
}
type tNB struct {
	n float64
	b bool
}
type tSNB struct {
	s string
	n float64
	b bool
}

func (t tS) String() string    { return t.s }
func (t tN) Number() float64   { return t.n }
func (t tB) Boolean() bool     { return t.b }
func (t tSN) String() string   { return t.s }
func (t tSN) Number() float64  { return t.n }
func (t tSB) String() string   { return t.s }
func (t tSB) Boolean() bool    { return t.b }
func (t tNB) Number() float64  { return t.n }
func (t tNB) Boolean() bool    { return t.b }
func (t tSNB) String() string  { return t.s }
func (t tSNB) Number() float64 { return t.n }
func (t tSNB) Boolean() bool   { return t.b }

// pS: pointer receiver, nil-safe
type pS struct{ s string }

func (p *pS) String() string {
	if p == nil {
		return "nilS"
	}
	return p.s
}

type pN struct{ n float64 }

func (p *pN) Number() float64 {
	if p == nil {
		return 7
	}
	return p.n
}

type plainStruct struct {
	A int
	b string
}

type miscValue struct {
	name string
	v    stick.Value
	// expectations; nil pointer = not asserted
	s *string
	n *float64
	b *bool
}

func sp(s string) *string   { return &s }
func np(n float64) *float64 { return &n }
func bp(b bool) *bool       { return &b }

// named numeric kinds that implement the library's interfaces: the interface decides, not the underlying kind
type c15Pct int

func (p c15Pct) Number() float64 { return float64(p) / 100 }

type c15Cents int64

func (c c15Cents) String() string { return fmt.Sprintf("%d.%02d", int64(c)/100, int64(c)%100) }

type c15Ratio float64

func (r c15Ratio) Number() float64 { return float64(r) * 2 }
func (r c15Ratio) Boolean() bool   { return false }

func c15Misc() []miscValue {
	var np3 *int
	var nps *string
	var npst *plainStruct
	i3 := 3
	str := "x"
	ch := make(chan int)
	fn := func() {}
	return []miscValue{
		{"nil", nil, sp(""), np(0), bp(false)},
		{"true", true, sp("1"), np(1), bp(true)},
		{"false", false, sp(""), np(0), bp(false)},
		{"empty string", "", sp(""), np(0), bp(false)},
		{"non-numeric string", "abc", sp("abc"), np(0), bp(true)},
		{"string 1x", "1x", sp("1x"), np(0), bp(true)},
		{"string 3", "3", sp("3"), np(3), bp(true)},
		{"string -2.5", "-2.5", sp("-2.5"), np(-2.5), bp(true)},
		{"string 1e3", "1e3", sp("1e3"), np(1000), bp(true)},
		{"string 0.125", "0.125", sp("0.125"), np(0.125), bp(true)},
		{"string +7", "+7", sp("+7"), np(7), bp(true)},
		{"string blank-1", " 1", sp(" 1"), nil, bp(true)},
		{"string 0", "0", sp("0"), np(0), bp(true)},
		{"typed nil *int", np3, sp(""), np(0), bp(false)},
		{"typed nil *string", nps, sp(""), np(0), bp(false)},
		{"typed nil *struct", npst, sp(""), np(0), bp(false)},
		{"*int", &i3, sp(""), np(0), bp(false)},
		{"*string", &str, sp(""), np(0), bp(false)},
		{"[]int", []int{1, 2}, sp(""), np(0), bp(false)},
		{"[]int(nil)", []int(nil), sp(""), np(0), bp(false)},
		{"[]Value{}", []stick.Value{}, sp(""), np(0), bp(false)},
		{"[2]string", [2]string{"a", "b"}, sp(""), np(0), bp(false)},
		{"map[string]Value", map[string]stick.Value{"k": 1}, sp(""), np(0), bp(false)},
		{"map[int]int(nil)", map[int]int(nil), sp(""), np(0), bp(false)},
		{"struct", plainStruct{1, "b"}, sp(""), np(0), bp(false)},
		{"*struct", &plainStruct{1, "b"}, sp(""), np(0), bp(false)},
		{"func", fn, sp(""), np(0), bp(false)},
		{"chan", ch, sp(""), np(0), bp(false)},
		{"complex128", complex(1, 2), sp(""), np(0), bp(false)},
		{"uintptr", uintptr(5), nil, nil, nil},
		{"decimal 3", decimal.New(3, 0), sp("3"), np(3), bp(true)},
		{"decimal -2.5", decimal.New(-25, -1), sp("-2.5"), np(-2.5), bp(false)},
		{"decimal 0", decimal.Zero, sp("0"), np(0), bp(false)},
		{"decimal 1e30", decimal.New(1, 30), nil, np(1e30), bp(true)},
		{"Stringer", tS{"str"}, sp("str"), nil, nil},
		{"Stringer numeric", tS{"12"}, sp("12"), np(12), bp(true)},
		{"Stringer empty", tS{""}, sp(""), np(0), bp(false)},
		{"Number", tN{2.5}, nil, np(2.5), nil},
		{"Number 0", tN{0}, nil, np(0), bp(false)},
		{"Boolean true", tB{true}, sp("1"), np(1), bp(true)},
		{"Boolean false", tB{false}, sp(""), np(0), bp(false)},
		{"Stringer+Number", tSN{"s", 4}, sp("s"), np(4), nil},
		{"Stringer+Boolean", tSB{"s", false}, sp("s"), nil, bp(false)},
		{"Number+Boolean", tNB{4, true}, nil, np(4), bp(true)},
		{"Stringer+Number+Boolean", tSNB{"s", 4, true}, sp("s"), np(4), bp(true)},
		{"*Stringer", &pS{"ps"}, sp("ps"), nil, nil},
		{"nil *Stringer (nil-safe)", (*pS)(nil), sp("nilS"), nil, nil},
		{"*Number", &pN{9}, nil, np(9), nil},
		{"nil *Number (nil-safe)", (*pN)(nil), nil, np(7), nil},
		{"*value-receiver Stringer", &tS{"vs"}, sp("vs"), nil, nil},
		{"*Stringer+Number+Boolean", &pSNB{"3 items", 3, false}, sp("3 items"), np(3), bp(false)},
		{"*Stringer+Number+Boolean (2)", &pSNB{"off", 0, true}, sp("off"), np(0), bp(true)},
		{"slice-kind Stringer", sliceS{"a", "b"}, sp("a+b"), nil, nil},
		{"slice-kind Stringer (2)", sliceS{"c"}, sp("c"), nil, nil},
		{"map-kind Stringer", mapS{"k": 1}, sp("m1"), nil, nil},
		{"struct-with-slice Stringer", structSliceS{[]string{"p", "q"}, "t"}, sp("tpq"), nil, nil},
		{"struct-with-slice Stringer (2)", structSliceS{nil, "u"}, sp("u"), nil, nil},
		{"func-kind Stringer", funcS(func() string { return "fs" }), sp("fs"), nil, nil},
		{"net.IP", net.IP{10, 0, 0, 1}, sp("10.0.0.1"), nil, nil},
		{"time.Duration", 1500 * time.Millisecond, sp("1.5s"), nil, nil},
		{"named int with Number()", c15Pct(50), nil, np(0.5), bp(true)},
		{"named int64 with String()", c15Cents(1234), sp("12.34"), np(12.34), bp(true)},
		{"named float64 with Number() and Boolean()", c15Ratio(1.5), nil, np(3), bp(false)},
	}
}

// pointer type implementing all three interfaces through pointer receivers
type pSNB struct {
	s string
	n float64
	b bool
}

func (p *pSNB) String() string  { return p.s }
func (p *pSNB) Number() float64 { return p.n }
func (p *pSNB) Boolean() bool   { return p.b }

// Stringers of kinds that cannot be compared with ==
type sliceS []string

func (s sliceS) String() string { return strings.Join(s, "+") }

type mapS map[string]int

func (m mapS) String() string { return fmt.Sprintf("m%d", len(m)) }

type structSliceS struct {
	parts []string
	tag   string
}

func (s structSliceS) String() string { return s.tag + strings.Join(s.parts, "") }

type funcS func() string

func (f funcS) String() string { return f() }

// c15PairRun: coercing one value and then another gives the second value's own results (no state is carried
// from one coercion to the next), also when the two are the same value or equal values of one type.
func c15PairRun(i, j int) core.Result {
	ms := c15Misc()
	if i >= len(ms) || j >= len(ms) {
		return core.Skipped("index")
	}
	base, pan := coerceAll(c15Misc()[j].v)
	if pan != "" {
		return core.Skipped("second-value-panics-alone")
	}
	if _, pan := coerceAll(ms[i].v); pan != "" {
		return core.Skipped("first-value-panics-alone")
	}
	got, pan := coerceAll(ms[j].v)
	if pan != "" {
		return core.Violation("panic", fmt.Sprintf("coercing %s after %s panicked: %s", ms[j].name, ms[i].name, pan))
	}
	if !sameCoerced(got, base) {
		return core.Violation("stateful", fmt.Sprintf("after coercing %s, %s coerces to %v but on its own to %v", ms[i].name, ms[j].name, got, base))
	}
	got, pan = coerceAll(stick.NewSafeValue(ms[j].v, "html"))
	if pan != "" {
		return core.Violation("panic", fmt.Sprintf("coercing NewSafeValue(%s) after %s and %s panicked: %s", ms[j].name, ms[i].name, ms[j].name, pan))
	}
	if !sameCoerced(got, base) {
		return core.Violation("stateful", fmt.Sprintf("after coercing %s and %s, NewSafeValue(%s) coerces to %v, the bare value to %v", ms[i].name, ms[j].name, ms[j].name, got, base))
	}
	return core.Okay(true, got.String())
}

// c15MutateRun: a pointer value changed between two coercions is read afresh by each of them.
func c15MutateRun(k int) core.Result {
	p := &pSNB{"a1", 1, true}
	ps := &pS{"a1"}
	var vals = []stick.Value{p, ps, stick.NewSafeValue(p, "html"), customSafe{p}}
	v := vals[k]
	first, pan := coerceAll(v)
	if pan != "" {
		return core.Violation("panic", "coercing a pointer value panicked: "+pan)
	}
	p.s, p.n, p.b, ps.s = "b22", 22, false, "b22"
	second, pan := coerceAll(v)
	if pan != "" {
		return core.Violation("panic", "coercing a pointer value again panicked: "+pan)
	}
	if first.s != "a1" || second.s != "b22" {
		return core.Violation("stateful", fmt.Sprintf("%T: CoerceString gave %q, then after the value changed %q (want a1, b22)", v, first.s, second.s))
	}
	if k != 1 && (first.n != 1 || second.n != 22 || first.b != true || second.b != false) {
		return core.Violation("stateful", fmt.Sprintf("%T: before the change %v, after it %v", v, first, second))
	}
	return core.Okay(true, second.String())
}

func c15MiscRun(i int) core.Result {
	ms := c15Misc()
	if i >= len(ms) {
		return core.Skipped("index")
	}
	m := ms[i]
	got, pan := coerceAll(m.v)
	if pan != "" {
		return core.Violation("panic", fmt.Sprintf("coercing %s panicked: %s", m.name, pan))
	}
	if msg := safeLaw(m.v, got); msg != "" {
		return core.Violation("safe-wrapper", msg)
	}
	if m.s != nil && got.s != *m.s {
		return core.Violation("string", fmt.Sprintf("CoerceString(%s) = %q, want %q", m.name, got.s, *m.s))
	}
	if m.n != nil && got.n != *m.n {
		return core.Violation("number", fmt.Sprintf("CoerceNumber(%s) = %v, want %v", m.name, got.n, *m.n))
	}
	if m.b != nil && got.b != *m.b {
		return core.Violation("bool", fmt.Sprintf("CoerceBool(%s) = %v, want %v", m.name, got.b, *m.b))
	}
	// nested safe wrappers must be flattened: Value() of a wrapper is never itself a wrapper
	w := stick.NewSafeValue(stick.NewSafeValue(stick.NewSafeValue(m.v, "html"), "js"), "css")
	if _, nested := w.Value().(stick.SafeValue); nested {
		return core.Violation("safe-wrapper", "NewSafeValue keeps wrappers nested for "+m.name)
	}
	for _, typ := range []string{"html", "js", "css"} {
		if !w.IsSafe(typ) {
			return core.Violation("safe-wrapper", "nested NewSafeValue lost the content type "+typ)
		}
	}
	return core.Okay(true, got.String())
}

func c15IntSet(emit func(string)) {
	seen := map[string]bool{}
	add := func(n *big.Int) {
		s := n.String()
		if !seen[s] {
			seen[s] = true
			emit(s)
		}
	}
	one := big.NewInt(1)
	for _, d := range []int64{0, 1, -1, 2, -2} {
		add(big.NewInt(d))
	}
	p := big.NewInt(1)
	for k := 0; k <= 20; k++ {
		for _, sgn := range []int64{1, -1} {
			for _, d := range []int64{-1, 0, 1} {
				add(new(big.Int).Mul(big.NewInt(sgn), new(big.Int).Add(p, big.NewInt(d))))
			}
		}
		p = new(big.Int).Mul(p, big.NewInt(10))
	}
	for k := 0; k <= 64; k++ {
		q := new(big.Int).Lsh(one, uint(k))
		for _, sgn := range []int64{1, -1} {
			for _, d := range []int64{-2, -1, 0, 1, 2} {
				add(new(big.Int).Mul(big.NewInt(sgn), new(big.Int).Add(q, big.NewInt(d))))
			}
		}
	}
}

func c15Levels(tier string) []core.Level {
	lv := []core.Level{
		{Name: "special values, unsupported kinds, interface types, decimals (x safe nesting 0..3)", Gen: func(emit func(core.Case)) {
			for i := range c15Misc() {
				emit(core.Case{Fam: "misc", N: []int{i}})
			}
		}},
		{Name: "histories of two coercions: every ordered pair of the special values (the second coerces as it does alone, bare and wrapped); a pointer value changed between two coercions", Gen: func(emit func(core.Case)) {
			n := len(c15Misc())
			for i := 0; i < n; i++ {
				for j := 0; j < n; j++ {
					emit(core.Case{Fam: "pair", N: []int{i, j}})
				}
			}
			for k := 0; k < 4; k++ {
				emit(core.Case{Fam: "mutate", N: []int{k}})
			}
			for k := 0; k < 5; k++ {
				emit(core.Case{Fam: "zeros", N: []int{k}})
			}
		}},
		{Name: "every integer of the 16-bit kinds (-32768..65535) in every Go numeric type that holds it", Gen: func(emit func(core.Case)) {
			for i := -32768; i <= 65535; i++ {
				emit(core.Case{Fam: "int", Args: []string{strconv.Itoa(i)}})
			}
		}},
		{Name: "boundary integers: 0, +-1, +-2, +-(10^k+-1), +-(2^k+-{0,1,2}) for k<=64, min/max of each kind", Gen: func(emit func(core.Case)) {
			c15IntSet(func(s string) { emit(core.Case{Fam: "int", Args: []string{s}}) })
		}},
		{Name: "float64: every value with <= 8 significant mantissa bits x every exponent x both signs (incl. subnormals, inf, nan)", Gen: func(emit func(core.Case)) {
			for sign := uint64(0); sign < 2; sign++ {
				for e := uint64(0); e <= 2047; e++ {
					for m := uint64(0); m < 256; m++ {
						emit(core.Case{Fam: "f64", Args: []string{strconv.FormatUint(sign<<63|e<<52|m<<44, 16)}})
					}
				}
				for k := uint(0); k < 44; k++ {
					for m := uint64(1); m < 256; m += 2 {
						emit(core.Case{Fam: "f64", Args: []string{strconv.FormatUint(sign<<63|m<<k, 16)}})
					}
				}
			}
		}},
		{Name: "float64: neighbours (Nextafter +-1, +-2) of every power of ten and of two", Gen: func(emit func(core.Case)) {
			var bases []float64
			for k := -323; k <= 308; k++ {
				f, _ := strconv.ParseFloat("1e"+strconv.Itoa(k), 64)
				bases = append(bases, f)
			}
			for k := -1074; k <= 1023; k++ {
				bases = append(bases, math.Ldexp(1, k))
			}
			for _, b := range bases {
				for _, s := range []float64{1, -1} {
					x := s * b
					lo := math.Nextafter(math.Nextafter(x, math.Inf(-1)), math.Inf(-1))
					for i, y := 0, lo; i < 5; i, y = i+1, math.Nextafter(y, math.Inf(1)) {
						emit(core.Case{Fam: "f64", Args: []string{strconv.FormatUint(math.Float64bits(y), 16)}})
					}
				}
			}
		}},
	}
	lim := 100002
	if thorough(tier) {
		lim = 1000002
	}
	lv = append(lv, core.Level{Name: fmt.Sprintf("every integer in [-%d, %d] in every carrier, and fractions n/8", lim, lim), Gen: func(emit func(core.Case)) {
		for i := -lim; i <= lim; i++ {
			if i >= -32768 && i <= 65535 {
				continue
			}
			emit(core.Case{Fam: "int", Args: []string{strconv.Itoa(i)}})
		}
		for i := -lim; i <= lim; i += 97 {
			for d := 1; d < 8; d++ {
				f := float64(i) + float64(d)/8
				emit(core.Case{Fam: "f64", Args: []string{strconv.FormatUint(math.Float64bits(f), 16)}})
			}
		}
	}})
	return lv
}

var (
	c15CoreEnv *stick.Env
	c15TwigEnv *stick.Env
)

// c15PrintLaw: the consumers of the coercions inside the library agree with them. Printing a value ({{ v }}) in a core
// environment and in a Twig .txt template writes CoerceString(v); in a Twig html / js template the escaper's rendering
// of CoerceString(v); v ~ ” is CoerceString(v); {% if v %} and the conditional choose by CoerceBool(v); v + 0 is
// CoerceNumber(v). (Safe wrappers are left to C12.)
// customSafeNone is a user-defined SafeValue that is safe for no content type.
type customSafeNone struct{ v stick.Value }

func (c customSafeNone) Value() stick.Value     { return c.v }
func (c customSafeNone) IsSafe(typ string) bool { return false }
func (c customSafeNone) SafeFor() []string      { return nil }

func c15PrintLaw(vals []stick.Value) string {
	if c15CoreEnv == nil {
		c15CoreEnv = stick.New(nil)
		c15TwigEnv = twig.New(&stick.MemoryLoader{Templates: map[string]string{
			"p.txt":  "{% for v in vs %}{{ v }}\x00{{ v ~ '' }}\x00{% if v %}T{% else %}F{% endif %}{{ v ? 'T' : 'F' }}\x00{% endfor %}",
			"p.html": "{% for v in vs %}{{ v }}\x00{{ v|escape('html') }}\x00{{ v|raw }}\x00{% endfor %}",
			"p.js":   "{% for v in vs %}{{ v }}\x00{{ v|escape('js') }}\x00{{ v|raw }}\x00{% endfor %}",
			"f.txt":  "{% for v in vs %}{{ v|default('D') }}\x00{{ v|lower }}\x00{{ v|upper }}\x00{{ v|trim }}\x00{{ v|abs }}\x00{{ v|capitalize }}\x00{{ v|url_encode }}\x01{% endfor %}",
		}})
	}
	var vs []stick.Value
	for _, v := range vals {
		if _, safe := v.(stick.SafeValue); !safe {
			vs = append(vs, v)
		}
	}
	if len(vs) == 0 {
		return ""
	}
	// a value wrapped as safe for a content type none of these templates has (or for no type at all) prints exactly
	// like the value inside
	var wrapped []stick.Value
	for _, v := range vs {
		wrapped = append(wrapped, stick.NewSafeValue(v, "zzcustom"), stick.NewSafeValue(v), customSafeNone{v})
	}
	vs = append(vs, wrapped...)
	type form struct {
		env  *stick.Env
		name string
		want func(s string, b bool) []string
		what []string
	}
	tf := func(b bool) string {
		if b {
			return "TT"
		}
		return "FF"
	}
	forms := []form{
		{c15CoreEnv, "{% for v in vs %}{{ v }}\x00{{ v ~ '' }}\x00{% if v %}T{% else %}F{% endif %}{{ v ? 'T' : 'F' }}\x00{% endfor %}",
			func(s string, b bool) []string { return []string{s, s, tf(b)} }, []string{"{{ v }} (core environment)", "{{ v ~ '' }}", "{% if v %} / v ? :"}},
		{c15TwigEnv, "p.txt", func(s string, b bool) []string { return []string{s, s, tf(b)} }, []string{"{{ v }} (twig, .txt)", "{{ v ~ '' }} (twig, .txt)", "{% if v %} / v ? : (twig)"}},
		{c15TwigEnv, "p.html", func(s string, b bool) []string { return []string{escape.HTML(s), escape.HTML(s), s} }, []string{"{{ v }} (twig, .html)", "{{ v|escape('html') }}", "{{ v|raw }}"}},
		{c15TwigEnv, "p.js", func(s string, b bool) []string { return []string{escape.JS(s), escape.JS(s), s} }, []string{"{{ v }} (twig, .js)", "{{ v|escape('js') }} (.js)", "{{ v|raw }} (.js)"}},
	}
	forms = append(forms, form{c15CoreEnv, "{% for v in vs %}{{ v * 1 }}\x00{{ 1 * v }}\x00{{ v / 1 }}\x00{% endfor %}", nil,
		[]string{"{{ v * 1 }} (arithmetic reads its operands through CoerceNumber)", "{{ 1 * v }}", "{{ v / 1 }}"}})
	for _, f := range forms {
		out, err, pan := tryExec(f.env, f.name, map[string]stick.Value{"vs": vs})
		if err != nil || pan != "" {
			return fmt.Sprintf("printing %d values with %q: %v %s", len(vs), f.name, err, pan)
		}
		parts := strings.Split(out, "\x00")
		for i, v := range vs {
			s := stick.CoerceString(v)
			if strings.Contains(s, "\x00") {
				return ""
			}
			var want []string
			if f.want == nil {
				ns := stick.CoerceString(stick.CoerceNumber(v))
				want = []string{ns, ns, ns}
			} else {
				want = f.want(s, stick.CoerceBool(v))
			}
			for k := range want {
				if 3*i+k >= len(parts) || parts[3*i+k] != want[k] {
					got := "<missing>"
					if 3*i+k < len(parts) {
						got = parts[3*i+k]
					}
					return fmt.Sprintf("%s with v = %T(%v) renders %q, but CoerceString(v) = %q, CoerceBool(v) = %v (want %q)", f.what[k], v, v, got, s, stick.CoerceBool(v), want[k])
				}
			}
		}
	}
	// built-in filters of the Twig package that look at their operand through the coercions give, for a wrapped
	// value, what they give for the value inside (default, lower, upper, trim, abs, capitalize, url_encode; not length, which does not look through wrappers on the pinned tree)
	nb := len(vs) / 4
	out, err, pan := tryExec(c15TwigEnv, "f.txt", map[string]stick.Value{"vs": vs})
	if err != nil || pan != "" {
		return fmt.Sprintf("filtering %d values: %v %s", len(vs), err, pan)
	}
	rows := strings.Split(out, "\x01")
	for j := nb; j < len(vs) && j < len(rows); j++ {
		if b := (j - nb) / 3; rows[j] != rows[b] {
			gr, br := strings.Split(rows[j], "\x00"), strings.Split(rows[b], "\x00")
			for k := range gr {
				if k < len(br) && gr[k] != br[k] {
					return fmt.Sprintf("{{ v|%s }} gives %q for v = %T(%v) but %q for the same value wrapped as %T", c15FilterLaw[k], br[k], vs[b], vs[b], gr[k], vs[j])
				}
			}
		}
	}
	return ""
}

var c15FilterLaw = []string{"default('D')", "lower", "upper", "trim", "abs", "capitalize", "url_encode"}

func c15Run(c core.Case) core.Result {
	res := c15RunBase(c)
	if res.V != core.OK {
		return res
	}
	var vals []stick.Value
	switch c.Fam {
	case "misc":
		vals = []stick.Value{c15Misc()[c.N[0]].v}
	case "int":
		n, _ := new(big.Int).SetString(c.Args[0], 10)
		if a := new(big.Int).Abs(n); a.Cmp(big.NewInt(1100)) > 0 && a.Cmp(big.NewInt(999990)) < 0 && new(big.Int).Mod(a, big.NewInt(1000)).Sign() != 0 && new(big.Int).Mod(a, big.NewInt(64)).Sign() != 0 {
			return res // the dense sweeps of the mid-range integers: every multiple of 64 and of 1000
		}
		vals = carriers(n)
		vals = append(vals, n.String(), n.String()+".0")
	case "f64":
		bits, _ := strconv.ParseUint(c.Args[0], 16, 64)
		f := math.Float64frombits(bits)
		if bits&(1<<44-1) == 0 && bits&(0xF<<44) != 0 {
			return res // the dense mantissa sweep: the values with <= 4 significant mantissa bits
		}
		vals = []stick.Value{f}
		if f32 := float32(f); float64(f32) == f {
			vals = append(vals, f32)
		}
	}
	if msg := c15PrintLaw(vals); msg != "" {
		return core.Violation("printed", msg)
	}
	if c.Fam == "int" {
		// two numeric strings compare as the numbers they spell (also when their text orders the other way)
		n, _ := new(big.Int).SetString(c.Args[0], 10)
		if n.IsInt64() && n.Int64() > -1000000 && n.Int64() < 1000000 {
			a, b := n.String(), new(big.Int).Sub(n, big.NewInt(1)).String()
			out, err, pan := tryExec(c15CoreEnvGet(), "{{ a > b ? 'y' : 'n' }}{{ a >= b ? 'y' : 'n' }}{{ b < a ? 'y' : 'n' }}{{ b <= a ? 'y' : 'n' }}{{ a < b ? 'y' : 'n' }}{{ sa > b ? 'y' : 'n' }}", map[string]stick.Value{"a": a, "b": b, "sa": stick.NewSafeValue(a, "html")})
			if pan != "" || err != nil || out != "yyyyny" {
				return core.Violation("numeric-string", fmt.Sprintf("with a = %q and b = %q, {{ a > b }}{{ a >= b }}{{ b < a }}{{ b <= a }}{{ a < b }}{{ safe(a) > b }} give %q (%v %s), want yyyyny", a, b, out, err, pan))
			}
		}
	}
	return res
}

// c15Zeros: the two float zeros, the integer zero and small whole floats coerced one after the other in this process,
// in the given order: each spells itself whatever was coerced before ("0", "-0", "1", "-1", ...).
func c15Zeros(order int) core.Result {
	negz := math.Copysign(0, -1)
	seqs := [][]stick.Value{{negz, 0.0, 0, negz, float32(0)}, {0.0, negz, 0, 0.0}, {1.0, -1.0, negz, 0.0, 256.0, -256.0}, {float32(negz), 0.0, negz}, {int8(0), negz, uint(0), 0.0}}
	for _, v := range seqs[order] {
		want := "0"
		switch x := v.(type) {
		case float64:
			want = strconv.FormatFloat(x, 'g', -1, 64)
		case float32:
			want = strconv.FormatFloat(float64(x), 'g', -1, 32)
		}
		if got := stick.CoerceString(v); got != want {
			return core.Violation("string", fmt.Sprintf("CoerceString(%T(%v)) = %q, want %q (sequence %d of zeros and small whole numbers coerced in one process: %v)", v, v, got, want, order, seqs[order]))
		}
		out, err, pan := tryExec(c15CoreEnvGet(), "{{ v }}|{{ v ~ 'x' }}|{{ v == '0' ? 'eq' : 'ne' }}", map[string]stick.Value{"v": v})
		wantOut := want + "|" + want + "x|" + map[bool]string{true: "eq", false: "ne"}[want == "0"]
		if pan != "" || err != nil || out != wantOut {
			return core.Violation("printed", fmt.Sprintf("{{ v }}|{{ v ~ 'x' }}|{{ v == '0' }} with v = %T(%v) renders %q (%v %s), want %q (sequence %d)", v, v, out, err, pan, wantOut, order))
		}
	}
	return core.Okay(true, "zeros")
}

func c15CoreEnvGet() *stick.Env {
	if c15CoreEnv == nil {
		c15PrintLaw([]stick.Value{1})
	}
	return c15CoreEnv
}

func c15RunBase(c core.Case) core.Result {
	switch c.Fam {
	case "zeros":
		return c15Zeros(c.N[0])
	case "misc":
		return c15MiscRun(c.N[0])
	case "pair":
		return c15PairRun(c.N[0], c.N[1])
	case "mutate":
		return c15MutateRun(c.N[0])
	case "int":
		return c15Int(c.Args[0])
	case "f64":
		bits, err := strconv.ParseUint(c.Args[0], 16, 64)
		if err != nil {
			return core.Skipped("bad-bits")
		}
		return c15Float(bits)
	}
	return core.Skipped("unknown-family")
}

func init() {
	core.Register(&core.Check{
		ID:       "C15",
		Category: "exploration",
		Rule: "CoerceString/CoerceNumber/CoerceBool on: ~50 special values (nil, bools, strings, typed nil pointers, unsupported kinds, types implementing each subset of Stringer/Number/Boolean, decimals); " +
			"every integer of the 16-bit kinds and of [-10^5-2, 10^5+2] (thorough: 10^6+2) and boundary integers up to 2^64 in every Go numeric type that holds them exactly; " +
			"every float64 with <= 8 significant mantissa bits at every exponent, neighbours of all powers of ten and two; pointer types implementing all three interfaces, Stringers of non-comparable kinds (slice, map, func, struct holding a slice, net.IP); every ordered pair of these values coerced one after the other, and a pointer value changed between two coercions; each also wrapped as safe 1..3 deep in every mix of the library's wrapper and a user-defined SafeValue. " +
			"Laws: no panic; documented fallbacks; identical number/bool (and string for |n|<10^6) across carriers; safe(v) coerces like v; true/false -> '1'/'' and 1/0; " +
			"decimal spellings coerce to the number they spell; float64 -> string -> number is the identity bit for bit; integral |f|<10^6 prints as a plain integer. distinct = distinct value; non-trivial = finite value inside a claimed law",
		Assumptions: []string{
			"a nil pointer to a type whose value-receiver method would be invoked through it is excluded (the panic originates in the user's method set)",
			"strings: only decimal spellings produced by strconv ('e', 'f', 'g' formats, optional '+') are asserted to coerce to their value",
		},
		Levels:  c15Levels,
		Run:     c15Run,
		NoDedup: true,
		Budget:  budget(3*time.Minute, 15*time.Minute),
	})
}
