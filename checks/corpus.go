package checks

import (
	"strings"

	"github.com/tyler-sommer/stick"
)

// CorpusItem is one well-formed template in the canonical spelling of the repository's
// tests ("{% tag x %}", single blanks). The corpus has one representative per tag kind
// and per expression form; it feeds C01 (mutation neighbourhood), C14 (re-spelling),
// C19 (error injection) and C20 (positions, truncation, injection).
type CorpusItem struct {
	Name string
	Src  string
}

var exprForms = []string{
	`a`, `1`, `1.5`, `"s"`, `'s'`, `true`, `false`, `null`,
	`a + b`, `a - b`, `a * b`, `a / b`, `a // b`, `a % b`, `a ** 2`, `a ~ b`,
	`a == b`, `a != b`, `a < b`, `a <= b`, `a > b`, `a >= b`,
	`a and b`, `a or b`, `a in arr`, `a not in arr`,
	`s starts with 'he'`, `s ends with "lo"`, `s matches 'l+'`,
	`1..3`, `a b-and b`, `a b-or b`, `a b-xor b`,
	`a is odd`, `a is not odd`, `a is divisible by(3)`, `a is even and b`,
	`not a`, `-a`, `+a`, `a ? b : c`, `(a + b) * a`, `a + b * a`,
	`[1, 2, 3]`, `[a, "x"]|join`, `{"k": 1, j: 2}`, `h.k`, `h["k"]`, `arr[0]`, `arr.1`, `obj.Add(1, 2)`, `obj.Name`,
	`f(a, 1)`, `f()`, `a|up`, `a|wrap("x")`, `s|up|wrap('y')`, `"x #{a} y"`, `"#{a}#{b}"`,
	`f(a|up, [b])`, `h.k|up`, `(a)`, `a ? "y" : 'n'`,
	`[]|join`, `{}|length`, `[[1, 2], []]|length`, `f([], {})`,
	`f("x#{a}y")`, `["#{a}", "b"]|join`, `("#{a}#{b}")`, `{"k": "#{a}"}.k`,
	`not inx`, `a and not inx`, `z or inx`, `a in inlist`, `a not in inlist`, `a is not odd`, `s starts with withal`, `s ends with withal`, `not notz`, `isz is odd`, `a b-and android`, `android b-or z`,
	`{"k": {"j": 1}}.k.j`, `[{"k": 1}, {"k": {}}]|length`, `f({"k": [1, {"j": 2}]})`,
	`'C:\new\table' ~ "\\d+\n"`, `s == 'a\\b' ? "x\ty" : 'q\r'`,
	`'' ~ "x#{a}"`, `f('', "#{a}")`, `"" ~ 'x' ~ "#{b}#{''}"`,
	`arr.1.0`, `h.k.0`, `arr.0|up`, `arr.0 ~ a`, `arr.0[0]`, `arr.0.k`, `nest.0.k`, `nest.1.k|up`,
	`a and -b`, `z or +a`, `not -z`, `a and not z`, `a in [-1, +3]`, `a is odd or -b`, `a - -b`, `a ~ -b`, `-a ** 2`, `(a) - (b)`, `f(-a, +b)`, `a == -b ? -a : +b`,
	// strings that contain delimiters (no interpolation): both quote styles hold them alike
	`{'k': "v#{ (a + 1) }"}.k`, `{'k': {'j': "v#{ f((a)) }"}}.k.j`, `[{'k': "#{ [a, (b)]|join }"}][0].k`, `{'k': "x#{ {'j': (a)}.j }y"}.k`,
	`'a }} b'`, `'width: 100%}' ~ 'x'`, `f('{{ a }}', '{% if %}')`, `s == '}}' ? '{#' : '#}'`, `'}' ~ '}' ~ '%' ~ '}'`, `['{{', '}}']|join`,
}

var tagForms = []CorpusItem{
	{"text", "hello world"},
	{"hashtext", "<a href=\"#{{ a }}\">{{ b ~ '' }}</a> #{ not an interpolation } {{ '' }}"},
	{"comment", "a{# note #}b"},
	{"if", "{% if a %}yes{% endif %}"},
	{"ifelse", "{% if z %}yes{% else %}no{% endif %}"},
	{"elseif", "{% if z %}1{% elseif a %}2{% else %}3{% endif %}"},
	{"for", "{% for v in arr %}{{ v }},{% endfor %}"},
	{"forkv", "{% for k, v in arr %}{{ k }}={{ v }};{% endfor %}"},
	{"forelse", "{% for v in none %}x{% else %}empty{% endfor %}"},
	{"forif", "{% for v in arr if v %}{{ v }}{% endfor %}"},
	{"loopvars", "{% for v in arr %}{{ loop.index }}/{{ loop.length }} {% endfor %}"},
	{"set", "{% set x = a + 1 %}{{ x }}"},
	{"setcap", "{% set x %}cap{{ a }}{% endset %}[{{ x }}]"},
	{"block", "a{% block b %}in{% endblock %}z"},
	{"extends", "{% extends 'base' %}{% block b %}child{% endblock %}"},
	{"extendsparent", "{% extends \"base\" %}{% block b %}[{{ parent() }}]{% endblock %}"},
	{"use", "{% extends 'base' %}{% use 'blocks' %}"},
	{"usealias", "{% extends 'base' %}{% use 'blocks' with b as bb %}{% block b %}{{ block('bb') }}!{% endblock %}"},
	{"include", "<{% include 'inc' %}>"},
	{"includewith", "<{% include 'inc' with {\"a\": 9} %}>"},
	{"includeonly", "<{% include 'inc' only %}>"},
	{"includewithonly", "<{% include 'inc' with {'a': 9} only %}>"},
	{"embed", "{% embed 'base' %}{% block b %}emb{% endblock %}{% endembed %}"},
	{"filter", "{% filter up %}abc{% endfilter %}"},
	{"filter2", "{% filter up|rev %}abc{{ a }}{% endfilter %}"},
	{"macro", "{% macro m(x, y) %}<{{ x }}{{ y }}>{% endmacro %}{{ _self.m(1, 2) }}"},
	{"import", "{% import 'macros' as mm %}{{ mm.m(1) }}"},
	{"from", "{% from 'macros' import m %}{{ m(2) }}"},
	{"fromas", "{% from 'macros' import m as g, n %}{{ g(3) }}{{ n() }}"},
	{"do", "{% do f(1) %}done"},
	{"verbatim", "{% verbatim %}raw text{% endverbatim %}"},
	{"verbatim2", "{% verbatim %}one {{ x }}{% endverbatim %}-{{ a }}-{% verbatim %}two {% if %}{% endverbatim %}!{% if a %}y{% endif %}{% verbatim %}{% endverbatim %}"},
	{"blockfn", "{% block b %}x{% endblock %}{{ block('b') }}"},
	{"nested", "{% for v in arr %}{% if v %}{{ v }}{% else %}-{% endif %}{% endfor %}"},
	{"trim", "a {{- a -}} b {%- if a -%} c {%- endif -%} d"},
}

// corpusTpls are the templates the corpus refers to by name.
var corpusTpls = map[string]string{
	"base":   "B[{% block b %}base{% endblock %}]",
	"blocks": "{% block b %}used{% endblock %}{% block c %}c{% endblock %}",
	"inc":    "inc:{{ a }}",
	"macros": "{% macro m(x) %}M{{ x }}{% endmacro %}{% macro n() %}N{% endmacro %}",
}

func corpus() []CorpusItem {
	var items []CorpusItem
	for i, e := range exprForms {
		items = append(items, CorpusItem{"expr" + itoa(i), "{{ " + e + " }}"})
	}
	items = append(items, tagForms...)
	return items
}

// hosts nest a corpus item in the bodies where the parser's push-back logic differs.
func hostWrap(host int, src string) string {
	switch host {
	case 1:
		return "{% for i in one %}pre " + src + " post{% endfor %}"
	case 2:
		return "{% block hb %}pre " + src + " post{% endblock %}"
	}
	return src
}

// hostable: extends/use/macro/block-level items cannot be nested meaningfully.
func hostable(it CorpusItem) bool {
	switch it.Name {
	case "extends", "extendsparent", "use", "usealias", "macro", "block", "blockfn":
		return false
	}
	return true
}

func itoa(i int) string {
	if i == 0 {
		return "0"
	}
	s := ""
	neg := i < 0
	if neg {
		i = -i
	}
	for i > 0 {
		s = string(rune('0'+i%10)) + s
		i /= 10
	}
	if neg {
		s = "-" + s
	}
	return s
}

type stdObj struct {
	Name string
}

func (o stdObj) Add(a, b float64) float64 { return a + b }

// stdCtx is the valuation used with the corpus.
func stdCtx() map[string]stick.Value {
	return map[string]stick.Value{
		"a": 3, "b": 4, "c": 5, "z": 0,
		"s":   "hello",
		"arr": []stick.Value{1, 0, 3},
		"one": []stick.Value{1},
		"h":   map[string]stick.Value{"k": "vk"},
		"obj": stdObj{"ob"},
		"inx": 0, "inlist": []stick.Value{3}, "withal": "he", "notz": 1, "isz": 3, "android": 1,
		"nest": []stick.Value{map[string]stick.Value{"k": "n0"}, map[string]stick.Value{"k": "n1"}},
	}
}

// stdEnv is a core environment with the harness callbacks the corpus uses.
func stdEnv(tpls map[string]string) *stick.Env {
	m := map[string]string{}
	for k, v := range corpusTpls {
		m[k] = v
	}
	for k, v := range tpls {
		m[k] = v
	}
	env := stick.New(&stick.MemoryLoader{Templates: m})
	addStdCallbacks(env)
	return env
}

func addStdCallbacks(env *stick.Env) {
	env.Functions["f"] = func(ctx stick.Context, args ...stick.Value) stick.Value {
		parts := make([]string, len(args))
		for i, a := range args {
			parts[i] = stick.CoerceString(a)
		}
		return "f(" + strings.Join(parts, ",") + ")"
	}
	env.Filters["up"] = func(ctx stick.Context, val stick.Value, args ...stick.Value) stick.Value {
		return strings.ToUpper(stick.CoerceString(val))
	}
	env.Filters["wrap"] = func(ctx stick.Context, val stick.Value, args ...stick.Value) stick.Value {
		w := ""
		if len(args) > 0 {
			w = stick.CoerceString(args[0])
		}
		return "[" + w + stick.CoerceString(val) + w + "]"
	}
	env.Filters["rev"] = func(ctx stick.Context, val stick.Value, args ...stick.Value) stick.Value {
		r := []rune(stick.CoerceString(val))
		for i, j := 0, len(r)-1; i < j; i, j = i+1, j-1 {
			r[i], r[j] = r[j], r[i]
		}
		return string(r)
	}
	env.Filters["join"] = func(ctx stick.Context, val stick.Value, args ...stick.Value) stick.Value {
		var parts []string
		stick.Iterate(val, func(k, v stick.Value, l stick.Loop) (bool, error) {
			parts = append(parts, stick.CoerceString(v))
			return false, nil
		})
		return strings.Join(parts, "+")
	}
	env.Filters["length"] = func(ctx stick.Context, val stick.Value, args ...stick.Value) stick.Value {
		n, _ := stick.Len(val)
		return n
	}
	env.Tests["odd"] = func(ctx stick.Context, val stick.Value, args ...stick.Value) bool {
		return int(stick.CoerceNumber(val))%2 != 0
	}
	env.Tests["even"] = func(ctx stick.Context, val stick.Value, args ...stick.Value) bool {
		return int(stick.CoerceNumber(val))%2 == 0
	}
	env.Tests["divisible by"] = func(ctx stick.Context, val stick.Value, args ...stick.Value) bool {
		if len(args) == 0 {
			return false
		}
		d := int(stick.CoerceNumber(args[0]))
		return d != 0 && int(stick.CoerceNumber(val))%d == 0
	}
}

// scanTokens is an independent, deliberately simple splitter of template source used only to
// choose mutation sites (token boundaries). It does not need to agree with stick's lexer.
func scanTokens(src string) []string {
	var toks []string
	i := 0
	in := "" // closing delimiter we are inside of
	for i < len(src) {
		if in == "" {
			j := i
			for j < len(src) && !(strings.HasPrefix(src[j:], "{{") || strings.HasPrefix(src[j:], "{%") || strings.HasPrefix(src[j:], "{#")) {
				j++
			}
			if j > i {
				// split text at blanks so that partial deletions are possible
				for _, w := range splitKeep(src[i:j]) {
					toks = append(toks, w)
				}
				i = j
				continue
			}
			d := src[i : i+2]
			i += 2
			if i < len(src) && src[i] == '-' {
				d += "-"
				i++
			}
			toks = append(toks, d)
			switch d[:2] {
			case "{{":
				in = "}}"
			case "{%":
				in = "%}"
			case "{#":
				in = "#}"
			}
			continue
		}
		// inside a delimiter pair
		if strings.HasPrefix(src[i:], in) {
			toks = append(toks, in)
			i += 2
			in = ""
			continue
		}
		if strings.HasPrefix(src[i:], "-"+in) {
			toks = append(toks, "-"+in)
			i += 3
			in = ""
			continue
		}
		c := src[i]
		switch {
		case in == "#}":
			j := i
			for j < len(src) && !strings.HasPrefix(src[j:], "#}") && !strings.HasPrefix(src[j:], "-#}") {
				j++
			}
			if j == i {
				j = i + 1
			}
			toks = append(toks, src[i:j])
			i = j
		case c == ' ' || c == '\t' || c == '\n' || c == '\r':
			j := i
			for j < len(src) && (src[j] == ' ' || src[j] == '\t' || src[j] == '\n' || src[j] == '\r') {
				j++
			}
			toks = append(toks, src[i:j])
			i = j
		case c == '"' || c == '\'':
			j := strings.IndexByte(src[i+1:], c)
			if j < 0 {
				toks = append(toks, src[i:])
				i = len(src)
			} else {
				toks = append(toks, src[i:i+1], src[i+1:i+1+j], src[i+1+j:i+2+j])
				i = i + 2 + j
			}
		case isWordByte(c):
			j := i
			for j < len(src) && isWordByte(src[j]) {
				j++
			}
			toks = append(toks, src[i:j])
			i = j
		default:
			toks = append(toks, src[i:i+1])
			i++
		}
	}
	var res []string
	for _, t := range toks {
		if t != "" {
			res = append(res, t)
		}
	}
	return res
}

func isWordByte(c byte) bool {
	return c == '_' || (c >= '0' && c <= '9') || (c >= 'a' && c <= 'z') || (c >= 'A' && c <= 'Z') || c >= 0x80
}

func splitKeep(s string) []string {
	var res []string
	i := 0
	for i < len(s) {
		j := i
		if s[i] == ' ' {
			for j < len(s) && s[j] == ' ' {
				j++
			}
		} else {
			for j < len(s) && s[j] != ' ' {
				j++
			}
		}
		res = append(res, s[i:j])
		i = j
	}
	return res
}
