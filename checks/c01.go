package checks

import (
	"strings"
	"time"

	"verif/core"
)

// C01 — parsing is total. Every input of the enumerated spaces is parsed through
// parse.Parse and through (*stick.Env).Parse (Twig environment, so that the tree is also
// traversed by the auto-escape visitor); the oracle is "returns a tree or an error":
// a recovered panic, the death of the worker process (panic in the tokeniser goroutine,
// fatal stack overflow), unbounded memory growth or non-termination are violations.

var c01Frags = []string{
	"{{", "}}", "{%", "%}", "{#", "#}", "-", " ", "\n", "a", "1", ".", "|", "(", ")", "[", "]", "{", "}",
	"\"", "'", "#{", ",", ":", "?", "=", "+", "%", "*", "/", "~", "<", "!", "not", "in", "is", "if", "endif",
	"for", "endfor", "block", "endblock", "set", "verbatim", "endverbatim", "\r", "\t", "é", "\xff", "$",
	"embed", "filter", "macro", "and", "\\",
}

var c01Core = []string{"{{", "{%", "{#", "a", "1", ".", "\"", "-", " ", "%}", "}}", "(", "\\", "'"}

func genStrings(alpha []string, n int, fam string, emit func(core.Case)) {
	idx := make([]int, n)
	var sb strings.Builder
	for {
		sb.Reset()
		for _, i := range idx {
			sb.WriteString(alpha[i])
		}
		emit(core.Case{Fam: fam, Src: sb.String()})
		k := n - 1
		for k >= 0 {
			idx[k]++
			if idx[k] < len(alpha) {
				break
			}
			idx[k] = 0
			k--
		}
		if k < 0 {
			return
		}
	}
}

// c01Corpus: corpus items in all three hosts plus the template strings of the repository's tests
// that exercise distinct syntax (transcribed).
func c01Corpus() []string {
	var res []string
	for _, it := range corpus() {
		res = append(res, it.Src)
		if hostable(it) {
			res = append(res, hostWrap(1, it.Src), hostWrap(2, it.Src))
		}
	}
	res = append(res,
		"{% if 1 is divisible by(3) %}no{% endif %}",
		"{{ \"Hello, \" ~ name ~ '!' }}",
		"{% embed 'x' with {a: 1} only %}{% block a %}{{ parent() }}{% endblock %}{% endembed %}",
		"{% for i in 1..3 if i is odd %}{{ loop.index }}{% else %}none{% endfor %}",
		"{% set v = {'a': [1, {b: 2}], \"c\": (1 + 2)} %}{{ v.a[1].b }}",
		"{{ \"a#{b ~ \"c\"}d\" }}",
		"{# c -#}\n{%- verbatim -%}{{ x }}{% if %}{%- endverbatim -%}",
		"{% macro m(a, b) %}{{ a }}{% endmacro %}{% import _self as s %}{{ s.m(1) }}",
		"{% from 'm' import a as b, c %}{% use 'b' with x as y, z as w %}",
		"{% filter upper|lower %}{% include 'i' with {x: 1} only %}{% endfilter %}",
	)
	return res
}

func c01Levels(tier string) []core.Level {
	n1, n2 := 3, 5
	if thorough(tier) {
		n1, n2 = 4, 7
	}
	var lv []core.Level
	for n := 1; n <= n1; n++ {
		n := n
		lv = append(lv, core.Level{Name: "fragments^" + itoa(n), Gen: func(emit func(core.Case)) { genStrings(c01Frags, n, "str", emit) }})
	}
	for n := 4; n <= n2; n++ {
		n := n
		lv = append(lv, core.Level{Name: "core-fragments^" + itoa(n), Gen: func(emit func(core.Case)) { genStrings(c01Core, n, "str", emit) }})
	}
	lv = append(lv, core.Level{Name: "corpus: every byte prefix", Gen: func(emit func(core.Case)) {
		for _, src := range c01Corpus() {
			for i := 0; i <= len(src); i++ {
				emit(core.Case{Fam: "prefix", Src: src[:i]})
			}
		}
	}})
	lv = append(lv, core.Level{Name: "corpus: every single-token deletion", Gen: func(emit func(core.Case)) {
		for _, src := range c01Corpus() {
			toks := scanTokens(src)
			for i := range toks {
				emit(core.Case{Fam: "del1", Src: strings.Join(toks[:i], "") + strings.Join(toks[i+1:], "")})
			}
		}
	}})
	lv = append(lv, core.Level{Name: "corpus: every single-fragment insertion at every token boundary", Gen: func(emit func(core.Case)) {
		for _, src := range c01Corpus() {
			toks := scanTokens(src)
			for i := 0; i <= len(toks); i++ {
				pre, post := strings.Join(toks[:i], ""), strings.Join(toks[i:], "")
				for _, f := range c01Frags {
					emit(core.Case{Fam: "ins1", Src: pre + f + post})
				}
			}
		}
	}})
	if thorough(tier) {
		lv = append(lv, core.Level{Name: "corpus: every token-pair deletion", Gen: func(emit func(core.Case)) {
			for _, src := range c01Corpus() {
				toks := scanTokens(src)
				for i := range toks {
					for j := i + 1; j < len(toks); j++ {
						emit(core.Case{Fam: "del2", Src: strings.Join(toks[:i], "") + strings.Join(toks[i+1:j], "") + strings.Join(toks[j+1:], "")})
					}
				}
			}
		}})
		lv = append(lv, core.Level{Name: "corpus: every single-token replacement by every fragment", Gen: func(emit func(core.Case)) {
			for _, src := range c01Corpus() {
				toks := scanTokens(src)
				for i := range toks {
					pre, post := strings.Join(toks[:i], ""), strings.Join(toks[i+1:], "")
					for _, f := range c01Frags {
						emit(core.Case{Fam: "repl1", Src: pre + f + post})
					}
				}
			}
		}})
	}
	return lv
}

func c01Run(c core.Case) core.Result {
	nt := strings.Contains(c.Src, "{{") || strings.Contains(c.Src, "{%") || strings.Contains(c.Src, "{#")
	_, err, pan := tryParse(c.Src)
	if pan != "" {
		return core.Violation("panic", "parse.Parse("+q(c.Src)+") panicked: "+pan)
	}
	env := twigMemEnv(map[string]string{"t.html": c.Src})
	_, err2, pan2 := tryEnvParse(env, "t.html")
	if pan2 != "" {
		return core.Violation("panic", "Env.Parse of "+q(c.Src)+" panicked: "+pan2)
	}
	if (err == nil) != (err2 == nil) {
		return core.Violation("verdict-differs", "parse.Parse and Env.Parse disagree on "+q(c.Src)+": "+errStr(err)+" vs "+errStr(err2))
	}
	out := "ok"
	if err != nil {
		out = "err"
	}
	return core.Okay(nt, out)
}

func init() {
	core.Register(&core.Check{
		ID:       "C01",
		Category: "exploration",
		Rule: "every string over a 55-fragment alphabet up to the stated length, every string over the 14-fragment core alphabet up to a larger length, and the 1-edit (thorough: 2-edit) mutation neighbourhood " +
			"(byte prefixes, token deletions, fragment insertions/replacements at token boundaries) of a corpus of well-formed templates in three nesting hosts; " +
			"each input is parsed by parse.Parse and by twig Env.Parse in a supervised worker; distinct = distinct input string; non-trivial = the input contains an opening delimiter",
		Assumptions: []string{
			"non-termination is decided by a 10 s (thorough 30 s) per-input deadline, >= 10^5 times the typical parse time, and confirmed twice in fresh processes",
			"inputs nested deeper than 10^3 levels are not generated",
		},
		Levels: c01Levels,
		Run:    c01Run,
		Budget: budget(4*time.Minute, 25*time.Minute),
	})
}
