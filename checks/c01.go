package checks

import (
	"strings"
	"time"

	"github.com/tyler-sommer/stick/twig"

	"verif/core"
)

// C01 — parsing is total. Every input of the enumerated spaces is parsed through
// parse.Parse and through (*stick.Env).Parse (Twig environment, so that the tree is also
// traversed by the auto-escape visitor); the oracle is "returns a tree or an error":
// a recovered panic, the death of the worker process (panic in the tokeniser goroutine,
// fatal stack overflow), unbounded memory growth or non-termination are violations.

var c01Frags = []string{
	"{{", "}}", "{%", "%}", "{#", "#}", "-", " ", "\n", "a", "1", ".", "|", "(", ")", "[", "]", "{", "}",
	"\"", "'", "#{", ",", ":", "?", "=", "+", "%", "*", "/", "~", "<", "!", "not", "in", "is", "if", "endif",
	"for", "endfor", "block", "endblock", "set", "verbatim", "endverbatim", "\r", "\t", "é", "\xff", "$",
	"embed", "filter", "macro", "and", "\\", "\x00", "\ufeff",
	// whole broken tags: a tag that starts well and ends in something the lexer rejects
	"{% set q = 'u", "{% if ; %}", "{% import (", "{% do 1 $ %}",
	// pieces of number literals in other notations (an input may end in the middle of one)
	"e", "E", "1e5", "0x", "_",
}

var c01Core = []string{"{{", "{%", "{#", "a", "1", ".", "\"", "-", " ", "%}", "}}", "(", "\\", "'"}

func genStrings(alpha []string, n int, fam string, emit func(core.Case)) {
	idx := make([]int, n)
	var sb strings.Builder
	for {
		sb.Reset()
		for _, i := range idx {
			sb.WriteString(alpha[i])
		}
		emit(core.Case{Fam: fam, Src: sb.String()})
		k := n - 1
		for k >= 0 {
			idx[k]++
			if idx[k] < len(alpha) {
				break
			}
			idx[k] = 0
			k--
		}
		if k < 0 {
			return
		}
	}
}

// c01Corpus: corpus items in all three hosts plus the template strings of the repository's tests
// that exercise distinct syntax (transcribed).
func c01Corpus() []string {
	var res []string
	for _, it := range corpus() {
		res = append(res, it.Src)
		if hostable(it) {
			res = append(res, hostWrap(1, it.Src), hostWrap(2, it.Src))
		}
	}
	res = append(res,
		"{% if 1 is divisible by(3) %}no{% endif %}",
		"{{ \"Hello, \" ~ name ~ '!' }}",
		"{% embed 'x' with {a: 1} only %}{% block a %}{{ parent() }}{% endblock %}{% endembed %}",
		"{% for i in 1..3 if i is odd %}{{ loop.index }}{% else %}none{% endfor %}",
		"{% set v = {'a': [1, {b: 2}], \"c\": (1 + 2)} %}{{ v.a[1].b }}",
		"{{ \"a#{b ~ \"c\"}d\" }}",
		"{# c -#}\n{%- verbatim -%}{{ x }}{% if %}{%- endverbatim -%}",
		"{% macro m(a, b) %}{{ a }}{% endmacro %}{% import _self as s %}{{ s.m(1) }}",
		"{% from 'm' import a as b, c %}{% use 'b' with x as y, z as w %}",
		"{% filter upper|lower %}{% include 'i' with {x: 1} only %}{% endfilter %}",
	)
	return res
}

func c01Depths(tier string) []int {
	d := []int{1, 2, 3, 4, 5, 6, 7, 8, 9, 10, 11, 12, 16, 24, 32, 48, 64, 128, 512}
	if thorough(tier) {
		d = append(d, 1000, 2000, 5000)
	}
	return d
}

// c01NestPatterns: {head, opener, core, closer, tail}; the source is head + opener^n + core + closer^n + tail.
// Forms the library may reject are included on purpose: rejecting must not take longer than accepting.
func c01NestPatterns() [][5]string {
	pats := [][5]string{
		{"{{ ", "(", "a", ")", " }}"}, {"{{ ", "[", "a", "]", " }}"}, {"{{ ", "{'k': ", "a", "}", " }}"}, {"{{ ", "f(", "a", ")", " }}"},
		{"{{ ", "-", "a", "", " }}"}, {"{{ ", "not ", "a", "", " }}"}, {"{{ ", "+", "a", "", " }}"}, {"{{ ", "- -", "a", "", " }}"},
		{"{{ a", ".b", "", "", " }}"}, {"{{ a", "|up", "", "", " }}"}, {"{{ a", "[0]", "", "", " }}"}, {"{{ a", ".m(1)", "", "", " }}"}, {"{{ a", "|wrap(a", "", ")", " }}"},
		{"{{ ", "a ? ", "b", " : c", " }}"}, {"{{ ", "a ? b : ", "c", "", " }}"}, {"{{ ", "a ?: ", "b", "", " }}"}, {"{{ ", "a ?? ", "b", "", " }}"},
		{"{{ ", "\"x#{", "a", "}y\"", " }}"}, {"{{ ", "'x' ~ ", "a", "", " }}"}, {"{{ ", "a is odd ? ", "b", " : c", " }}"},
		{"", "{% if a %}x", "y", "{% endif %}", ""}, {"", "{% for v in arr %}", "{{ v }}", "{% endfor %}", ""}, {"", "{% filter up %}", "t", "{% endfilter %}", ""},
		{"", "{% set c %}", "t", "{% endset %}", ""}, {"", "{% if a %}{% else %}", "y", "{% endif %}", ""}, {"", "{% if a %}{% elseif b %}", "y", "{% endif %}", ""},
		{"", "{% verbatim %}", "t", "{% endverbatim %}", ""}, {"", "{# ", "c", " #}", ""}, {"", "{{ a }}", "", "", ""}, {"", "{% include 'inc' %}", "", "", ""},
		{"", "{% embed 'base' %}{% block b %}", "t", "{% endblock %}{% endembed %}", ""}, {"", "{% macro m(x) %}", "t", "{% endmacro %}", ""},
		{"{% set x = ", "[", "1", ", 2]", " %}"}, {"{% if ", "(", "a", " and b)", " %}y{% endif %}"}, {"{% for v in ", "[", "a", "]", " %}{% endfor %}"},
	}
	// every binary operator and the conditional forms, around a parenthesised left and right operand
	ops := []string{"+", "-", "*", "/", "//", "%", "**", "~", "==", "!=", "<", ">", "<=", ">=", "and", "or", "in", "not in", "is", "matches", "starts with", "ends with", "..", "b-and", "b-or", "b-xor", "?:", "??", "<=>"}
	for _, op := range ops {
		pats = append(pats, [5]string{"{{ ", "(", "a", " " + op + " b)", " }}"}, [5]string{"{{ ", "(a " + op + " ", "b", ")", " }}"})
	}
	pats = append(pats, [5]string{"{{ ", "(", "a", " ? b : c)", " }}"}, [5]string{"{{ ", "(", "a", " ?: b) ?: b", " }}"}, [5]string{"{{ ", "(", "a", " is odd)", " }}"}, [5]string{"{{ ", "(", "a", "|up)", " }}"}, [5]string{"{{ ", "(", "a", ".b)", " }}"})
	return pats
}

func c01Levels(tier string) []core.Level {
	n1, n2 := 3, 5
	if thorough(tier) {
		n1, n2 = 4, 7
	}
	var lv []core.Level
	lv = append(lv, core.Level{Name: "the empty source and sources that are a template name's worth of odd characters ('', '/', 'a/', '.', '..')", Gen: func(emit func(core.Case)) {
		for _, s := range []string{"", "/", "a/", ".", "..", "\\", " ", "a.", ".html"} {
			emit(core.Case{Fam: "str", Src: s})
		}
	}})
	lv = append(lv, core.Level{Name: "histories in one process: every corpus template respelled with two blanks / a tab / a line break inside its multi-word operators and wide gaps elsewhere, parsed whole and then prefix by prefix (a memo keyed by a bounded look-ahead would carry the whole template's answer into its prefixes)", Gen: func(emit func(core.Case)) {
		for _, it := range corpus() {
			for _, gap := range []string{"  ", "\t", "\n", "   \n "} {
				src := strings.ReplaceAll(it.Src, " ", gap)
				emit(core.Case{Fam: "prefixes", Src: src})
			}
		}
	}})
	for n := 1; n <= n1; n++ {
		n := n
		lv = append(lv, core.Level{Name: "fragments^" + itoa(n), Gen: func(emit func(core.Case)) { genStrings(c01Frags, n, "str", emit) }})
	}
	for n := 4; n <= n2; n++ {
		n := n
		lv = append(lv, core.Level{Name: "core-fragments^" + itoa(n), Gen: func(emit func(core.Case)) { genStrings(c01Core, n, "str", emit) }})
	}
	lv = append(lv, core.Level{Name: "corpus: every byte prefix", Gen: func(emit func(core.Case)) {
		for _, src := range c01Corpus() {
			for i := 0; i <= len(src); i++ {
				emit(core.Case{Fam: "prefix", Src: src[:i]})
			}
		}
	}})
	lv = append(lv, core.Level{Name: "corpus: every single-token deletion", Gen: func(emit func(core.Case)) {
		for _, src := range c01Corpus() {
			toks := scanTokens(src)
			for i := range toks {
				emit(core.Case{Fam: "del1", Src: strings.Join(toks[:i], "") + strings.Join(toks[i+1:], "")})
			}
		}
	}})
	lv = append(lv, core.Level{Name: "corpus: every single-fragment insertion at every token boundary", Gen: func(emit func(core.Case)) {
		for _, src := range c01Corpus() {
			toks := scanTokens(src)
			for i := 0; i <= len(toks); i++ {
				pre, post := strings.Join(toks[:i], ""), strings.Join(toks[i:], "")
				for _, f := range c01Frags {
					emit(core.Case{Fam: "ins1", Src: pre + f + post})
				}
			}
		}
	}})
	lv = append(lv, core.Level{Name: "deep nesting: every nestable construct (brackets, unary chains, each binary / conditional / Twig short-conditional operator around a parenthesised operand, attribute and filter chains, strings in interpolations, tags in tags) repeated n times, n in 1..12, 16, 24, 32, 48, 64, 128, 512", Gen: func(emit func(core.Case)) {
		for _, n := range c01Depths(tier) {
			for _, p := range c01NestPatterns() {
				emit(core.Case{Fam: "deep", Src: p[0] + strings.Repeat(p[1], n) + p[2] + strings.Repeat(p[3], n) + p[4]})
			}
		}
	}})
	lv = append(lv, core.Level{Name: "long homogeneous sequences: 16 element forms (empty and non-empty strings, numbers, names, empty brackets, calls, interpolations, hash entries) repeated 1..64, 100, 200, 500, 2000 times in a list, a hash, an argument list, a concatenation and as consecutive prints / tags / comments, each also after an early syntax error", Gen: func(emit func(core.Case)) {
		ns := []int{100, 200, 500, 2000}
		for n := 1; n <= 64; n++ {
			ns = append(ns, n)
		}
		els := []string{"''", "\"\"", "'a'", "1", "a", "[]", "{}", "()", "f()", "-a", "\"#{a}\"", "a.b", "a|up", "[[]]", "''~''", "1.5"}
		for _, n := range ns {
			for _, e := range els {
				list := strings.TrimSuffix(strings.Repeat(e+",", n), ",")
				srcs := []string{"{{ [" + list + "] }}", "{{ f(" + list + ") }}", "{{ " + strings.TrimSuffix(strings.Repeat(e+"~", n), "~") + " }}",
					"{{ {" + strings.TrimSuffix(strings.Repeat("'k':"+e+",", n), ",") + "} }}", strings.Repeat("{{"+e+"}}", n), "{% set x = [" + list + "] %}"}
				for _, src := range srcs {
					emit(core.Case{Fam: "long", Src: src})
					emit(core.Case{Fam: "long", Src: "{{ a b }}" + src})
					emit(core.Case{Fam: "long", Src: src[:len(src)-3]})
				}
			}
			for _, u := range []string{"{% if a %}x{% endif %}", "{# c #}", "{% set x = '' %}", "{{ '' }}", "text ", "{", "{% include '' %}", "\x00", "{{ a }}\n"} {
				emit(core.Case{Fam: "long", Src: strings.Repeat(u, n)})
				emit(core.Case{Fam: "long", Src: "{% nosuch %}" + strings.Repeat(u, n)})
			}
		}
	}})
	lv = append(lv, core.Level{Name: "trim markers: corpus templates with <= 8 delimiters x every subset of delimiters carrying a '-' marker x text between tags {as written, one blank, empty}", Gen: func(emit func(core.Case)) {
		for _, src := range c01Corpus() {
			toks := scanTokens(src)
			var delims []int
			for i, t := range toks {
				if t == "{{" || t == "}}" || t == "{%" || t == "%}" {
					delims = append(delims, i)
				}
			}
			if len(delims) == 0 || len(delims) > 8 {
				continue
			}
			for blank := 0; blank < 3; blank++ {
				for m := 0; m < 1<<uint(len(delims)); m++ {
					out := append([]string{}, toks...)
					for j, di := range delims {
						if m&(1<<uint(j)) != 0 {
							if strings.HasPrefix(out[di], "{") {
								out[di] += "-"
							} else {
								out[di] = "-" + out[di]
							}
						}
					}
					if blank > 0 {
						depth := 0
						for i, t := range toks {
							switch t {
							case "{{", "{%":
								depth++
							case "}}", "%}":
								depth--
							default:
								if depth == 0 && !strings.HasPrefix(t, "{#") {
									out[i] = []string{"", " ", ""}[blank]
								}
							}
						}
					}
					emit(core.Case{Fam: "markers", Src: strings.Join(out, "")})
				}
			}
		}
	}})
	if thorough(tier) {
		lv = append(lv, core.Level{Name: "corpus: every token-pair deletion", Gen: func(emit func(core.Case)) {
			for _, src := range c01Corpus() {
				toks := scanTokens(src)
				for i := range toks {
					for j := i + 1; j < len(toks); j++ {
						emit(core.Case{Fam: "del2", Src: strings.Join(toks[:i], "") + strings.Join(toks[i+1:j], "") + strings.Join(toks[j+1:], "")})
					}
				}
			}
		}})
		lv = append(lv, core.Level{Name: "corpus: every single-token replacement by every fragment", Gen: func(emit func(core.Case)) {
			for _, src := range c01Corpus() {
				toks := scanTokens(src)
				for i := range toks {
					pre, post := strings.Join(toks[:i], ""), strings.Join(toks[i+1:], "")
					for _, f := range c01Frags {
						emit(core.Case{Fam: "repl1", Src: pre + f + post})
					}
				}
			}
		}})
	}
	return lv
}

func c01Run(c core.Case) core.Result {
	nt := strings.Contains(c.Src, "{{") || strings.Contains(c.Src, "{%") || strings.Contains(c.Src, "{#")
	_, err, pan := tryParse(c.Src)
	if pan != "" {
		return core.Violation("panic", "parse.Parse("+q(c.Src)+") panicked: "+pan)
	}
	env := twigMemEnv(map[string]string{"t.html": c.Src})
	_, err2, pan2 := tryEnvParse(env, "t.html")
	if pan2 != "" {
		return core.Violation("panic", "Env.Parse of "+q(c.Src)+" panicked: "+pan2)
	}
	if (err == nil) != (err2 == nil) {
		return core.Violation("verdict-differs", "parse.Parse and Env.Parse disagree on "+q(c.Src)+": "+errStr(err)+" vs "+errStr(err2))
	}
	// ... and as an inline template of a Twig environment (the default StringLoader: the source is its own name)
	_, err3, pan3 := tryEnvParse(twig.New(nil), c.Src)
	if pan3 != "" {
		return core.Violation("panic", "twig.New(nil).Parse("+q(c.Src)+") panicked: "+pan3)
	}
	if (err == nil) != (err3 == nil) {
		return core.Violation("verdict-differs", "parse.Parse and Parse of the inline template disagree on "+q(c.Src)+": "+errStr(err)+" vs "+errStr(err3))
	}
	// history: the same input parsed a second time on the same environments gives the same verdict (and returns)
	_, err4, pan4 := tryEnvParse(env, "t.html")
	if pan4 != "" || (err4 == nil) != (err2 == nil) {
		return core.Violation("verdict-differs", "Env.Parse of "+q(c.Src)+" a second time on the same environment: "+errStr(err4)+" "+pan4+" (the first time: "+errStr(err2)+")")
	}
	if c.Fam == "prefixes" {
		// ... and, in this process, every prefix of the input after the whole input
		for i := len(c.Src) - 1; i > 0; i-- {
			if _, _, pp := tryParse(c.Src[:i]); pp != "" {
				return core.Violation("panic", "parse.Parse("+q(c.Src[:i])+") after "+q(c.Src)+" panicked: "+pp)
			}
		}
	}
	out := "ok"
	if err != nil {
		out = "err"
	}
	return core.Okay(nt, out)
}

func init() {
	core.Register(&core.Check{
		ID:       "C01",
		Category: "exploration",
		Rule: "every string over a 55-fragment alphabet up to the stated length, every string over the 14-fragment core alphabet up to a larger length, and the 1-edit (thorough: 2-edit) mutation neighbourhood " +
			"(byte prefixes, token deletions, fragment insertions/replacements at token boundaries) of a corpus of well-formed templates in three nesting hosts; " +
			"each input is parsed by parse.Parse and by twig Env.Parse in a supervised worker; distinct = distinct input string; non-trivial = the input contains an opening delimiter",
		Assumptions: []string{
			"non-termination is decided by a 10 s (thorough 30 s) per-input deadline, >= 10^5 times the typical parse time, and confirmed twice in fresh processes",
			"inputs nested deeper than 10^3 levels are not generated",
		},
		Levels: c01Levels,
		Run:    c01Run,
		Budget: budget(4*time.Minute, 25*time.Minute),
	})
}
