package checks

import (
	"fmt"
	"reflect"
	"strings"
	"time"

	"github.com/shopspring/decimal"
	"github.com/tyler-sommer/stick"
	"github.com/tyler-sommer/stick/twig"

	"verif/core"
)

// C06 — conditionals and loops select and repeat bodies correctly.
// Expectations are computed by the generator (plain Go loops): the reference is by construction.

type c06Val struct {
	name  string
	v     stick.Value
	truth bool
}

var c06Vals = []c06Val{
	{"t", true, true}, {"f", false, false}, {"z", 0, false}, {"o", 1, true}, {"e", "", false}, {"s", "a", true}, {"n", nil, false},
	// numbers carried by decimal.Decimal (which also has a String method): zero and negative are false like any other number
	{"dz", decimal.Zero, false}, {"dn", decimal.New(-15, -1), false}, {"dp", decimal.New(25, -1), true},
	// negative numbers in plain carriers: a float64 as arithmetic produces it, an int as a host passes it; a positive fraction
	{"fn", -1.5, false}, {"ng", -2, false}, {"fp", 0.5, true},
}

func c06Ctx() map[string]stick.Value {
	m := map[string]stick.Value{}
	for _, v := range c06Vals {
		m[v.name] = v.v
	}
	return m
}

// chain: conds (indices into c06Vals), else present; bodies are markers B0..Bn, E
func c06Chain(conds []int, hasElse bool, tag string) (src, out string) {
	var sb strings.Builder
	chosen := false
	for i, ci := range conds {
		kw := "elseif"
		if i == 0 {
			kw = "if"
		}
		sb.WriteString("{% " + kw + " " + c06Vals[ci].name + " %}" + tag + itoa(i))
		if !chosen && c06Vals[ci].truth {
			chosen = true
			out = tag + itoa(i)
		}
	}
	if hasElse {
		sb.WriteString("{% else %}" + tag + "E")
		if !chosen {
			out = tag + "E"
		}
	}
	sb.WriteString("{% endif %}")
	return sb.String(), out
}

// nested: an outer 2-condition chain whose every branch holds an inner chain; all truth assignments
func c06Nested(depth int, bits []bool, pos *int, tag string) (src, out string) {
	next := func() bool { b := bits[*pos%len(bits)]; *pos++; return b }
	name := func(b bool) string {
		if b {
			return "t"
		}
		return "f"
	}
	c1, c2 := next(), next()
	body := func(t string) (string, string) {
		if depth > 1 {
			return c06Nested(depth-1, bits, pos, t)
		}
		return t, t
	}
	s1, o1 := body(tag + "a")
	s2, o2 := body(tag + "b")
	s3, o3 := body(tag + "c")
	// what stands around the inner chain inside each branch: style 0 text on both sides; 1 the inner chain directly
	// behind the tag, text after it; 2 nothing but the inner chain; 3 the inner chain directly behind the tag, a print after it
	pre := [3]string{"<", "[", "("}
	post := [3]string{">", "]", ")"}
	postOut := post
	switch c06NestStyle {
	case 1:
		pre = [3]string{}
	case 2:
		pre, post, postOut = [3]string{}, [3]string{}, [3]string{}
	case 3:
		pre = [3]string{}
		post = [3]string{"{{ 'P' }}", "{{ 'Q' }}", "{{ 'R' }}"}
		postOut = [3]string{"P", "Q", "R"}
	}
	src = "{% if " + name(c1) + " %}" + pre[0] + s1 + post[0] + "{% elseif " + name(c2) + " %}" + pre[1] + s2 + post[1] + "{% else %}" + pre[2] + s3 + post[2] + "{% endif %}"
	switch {
	case c1:
		out = pre[0] + o1 + postOut[0]
	case c2:
		out = pre[1] + o2 + postOut[1]
	default:
		out = pre[2] + o3 + postOut[2]
	}
	return
}

var c06NestStyle int

const c06LoopBody = "{{ v }}:{{ loop.index }},{{ loop.index0 }},{{ loop.revindex }},{{ loop.revindex0 }},{{ loop.first }},{{ loop.last }},{{ loop.length }};"

func c06B(b bool) string {
	if b {
		return "1"
	}
	return ""
}

func c06LoopExpect(keys, vals []string, withKey bool) string {
	var sb strings.Builder
	n := len(vals)
	for i := range vals {
		if withKey {
			sb.WriteString(keys[i] + "=")
		}
		sb.WriteString(fmt.Sprintf("%s:%d,%d,%d,%d,%s,%s,%d;", vals[i], i+1, i, n-i, n-i-1, c06B(i == 0), c06B(i == n-1), n))
	}
	return sb.String()
}

type c06Carrier struct {
	name string
	// mk returns the template expression, the context value bound to "seq" (if any), keys and values as printed
	mk func(n int) (expr string, seq stick.Value, keys, vals []string, ok bool)
}

func c06Carriers() []c06Carrier {
	idx := func(n int) []string {
		r := make([]string, n)
		for i := range r {
			r[i] = itoa(i)
		}
		return r
	}
	return []c06Carrier{
		{"array literal", func(n int) (string, stick.Value, []string, []string, bool) {
			var parts, vals []string
			for i := 0; i < n; i++ {
				parts = append(parts, itoa(10*(i+1)))
				vals = append(vals, itoa(10*(i+1)))
			}
			return "[" + strings.Join(parts, ", ") + "]", nil, idx(n), vals, true
		}},
		{"string array literal", func(n int) (string, stick.Value, []string, []string, bool) {
			var parts, vals []string
			for i := 0; i < n; i++ {
				parts = append(parts, "'s"+itoa(i)+"'")
				vals = append(vals, "s"+itoa(i))
			}
			return "[" + strings.Join(parts, ", ") + "]", nil, idx(n), vals, true
		}},
		{"range", func(n int) (string, stick.Value, []string, []string, bool) {
			if n == 0 {
				return "", nil, nil, nil, false
			}
			var vals []string
			for i := 0; i < n; i++ {
				vals = append(vals, itoa(3+i))
			}
			return "3.." + itoa(3+n-1), nil, idx(n), vals, true
		}},
		{"range from negative", func(n int) (string, stick.Value, []string, []string, bool) {
			if n == 0 {
				return "", nil, nil, nil, false
			}
			var vals []string
			for i := 0; i < n; i++ {
				vals = append(vals, itoa(-2+i))
			}
			return "-2.." + itoa(-2+n-1), nil, idx(n), vals, true
		}},
		{"[]int", func(n int) (string, stick.Value, []string, []string, bool) {
			s := make([]int, n)
			var vals []string
			for i := range s {
				s[i] = 7 * (i + 1)
				vals = append(vals, itoa(s[i]))
			}
			return "seq", s, idx(n), vals, true
		}},
		{"[]string", func(n int) (string, stick.Value, []string, []string, bool) {
			s := make([]string, n)
			for i := range s {
				s[i] = "x" + itoa(i)
			}
			return "seq", s, idx(n), append([]string{}, s...), true
		}},
		{"[N]int", func(n int) (string, stick.Value, []string, []string, bool) {
			a := reflect.New(reflect.ArrayOf(n, reflect.TypeOf(0))).Elem()
			var vals []string
			for i := 0; i < n; i++ {
				a.Index(i).SetInt(int64(i + 1))
				vals = append(vals, itoa(i+1))
			}
			return "seq", a.Interface(), idx(n), vals, true
		}},
		{"*[]int", func(n int) (string, stick.Value, []string, []string, bool) {
			s := make([]int, n)
			var vals []string
			for i := range s {
				s[i] = i + 5
				vals = append(vals, itoa(i+5))
			}
			return "seq", &s, idx(n), vals, true
		}},
		{"[]Value mixed", func(n int) (string, stick.Value, []string, []string, bool) {
			s := make([]stick.Value, n)
			var vals []string
			for i := range s {
				switch i % 3 {
				case 0:
					s[i] = i
					vals = append(vals, itoa(i))
				case 1:
					s[i] = "m" + itoa(i)
					vals = append(vals, "m"+itoa(i))
				default:
					s[i] = nil
					vals = append(vals, "")
				}
			}
			return "seq", s, idx(n), vals, true
		}},
		{"single-entry map", func(n int) (string, stick.Value, []string, []string, bool) {
			if n > 1 {
				return "", nil, nil, nil, false
			}
			if n == 0 {
				return "seq", map[string]int{}, nil, nil, true
			}
			return "seq", map[string]int{"key": 42}, []string{"key"}, []string{"42"}, true
		}},
		{"single-entry hash literal", func(n int) (string, stick.Value, []string, []string, bool) {
			if n != 1 {
				return "", nil, nil, nil, false
			}
			return "{'hk': 'hv'}", nil, []string{"hk"}, []string{"hv"}, true
		}},
		{"null", func(n int) (string, stick.Value, []string, []string, bool) {
			if n != 0 {
				return "", nil, nil, nil, false
			}
			return "none", nil, nil, nil, true
		}},
		{"nil context value", func(n int) (string, stick.Value, []string, []string, bool) {
			if n != 0 {
				return "", nil, nil, nil, false
			}
			return "seq", nil, nil, nil, true
		}},
		// ranges that count down: n elements, also the two-element one (lo = hi - 1) and through variables
		{"descending range", func(n int) (string, stick.Value, []string, []string, bool) {
			if n == 0 {
				return "", nil, nil, nil, false
			}
			var vals []string
			for i := 0; i < n; i++ {
				vals = append(vals, itoa(n-i))
			}
			return itoa(n) + "..1", nil, idx(n), vals, true
		}},
		{"descending range below zero", func(n int) (string, stick.Value, []string, []string, bool) {
			if n == 0 {
				return "", nil, nil, nil, false
			}
			var vals []string
			for i := 0; i < n; i++ {
				vals = append(vals, itoa(1-i))
			}
			return "1..(" + itoa(2-n) + ")", nil, idx(n), vals, true
		}},
		{"descending range with variable bounds", func(n int) (string, stick.Value, []string, []string, bool) {
			if n == 0 {
				return "", nil, nil, nil, false
			}
			var vals []string
			for i := 0; i < n; i++ {
				vals = append(vals, itoa(n-1-i))
			}
			return "seq..0", n - 1, idx(n), vals, true
		}},
	}
}

func c06Levels(tier string) []core.Level {
	maxNest, maxLen := 3, 8
	if thorough(tier) {
		maxNest, maxLen = 5, 16
	}
	lv := []core.Level{
		{Name: "if / elseif / else chains with <= 3 conditions: every assignment of 13 values (incl. decimal.Decimal zero, negative, positive; a negative float64 and int, a positive fraction) x presence of else", Gen: func(emit func(core.Case)) {
			nv := len(c06Vals)
			for n := 1; n <= 3; n++ {
				idx := make([]int, n)
				for {
					for _, e := range []bool{false, true} {
						src, out := c06Chain(idx, e, "B")
						emit(core.Case{Fam: "tpl", Src: "[" + src + "]", Exp: "[" + out + "]"})
					}
					j := n - 1
					for j >= 0 {
						idx[j]++
						if idx[j] < nv {
							break
						}
						idx[j] = 0
						j--
					}
					if j < 0 {
						break
					}
				}
			}
		}},
		{Name: fmt.Sprintf("constant conditions: chains of <= 2 conditions over %d literals and constant expressions ('0', \"0\", 0.0, [], {}, parenthesised, negated, concatenated ...), written bare / parenthesised / through a variable holding the value, x presence of else: the branch taken is the one the library's coercion of the evaluated value selects", len(c06Lits)), Gen: func(emit func(core.Case)) {
			for e := 0; e < 2; e++ {
				for form := 0; form < 3; form++ {
					for i := range c06Lits {
						emit(core.Case{Fam: "litchain", N: []int{e, form, i}})
						for j := range c06Lits {
							emit(core.Case{Fam: "litchain", N: []int{e, form, i, j}})
						}
					}
				}
			}
		}},
		{Name: "nested chains (if/elseif/else in every branch; the inner chain between text, directly behind the tag with text or a print after it, or alone in the branch): depth 2 under every truth assignment (8 conditions), depth 3 under every 10-bit pattern applied cyclically to its 26 conditions", Gen: func(emit func(core.Case)) {
			for depth := 2; depth <= 3; depth++ {
				nb := 2
				if depth == 2 {
					nb = 8 // 2 + 3*2
				} else {
					nb = 10
				}
				for m := 0; m < 1<<uint(nb); m++ {
					bits := make([]bool, nb)
					for i := range bits {
						bits[i] = m&(1<<uint(i)) != 0
					}
					for style := 0; style < 4; style++ {
						pos := 0
						c06NestStyle = style
						src, out := c06Nested(depth, bits, &pos, "")
						c06NestStyle = 0
						emit(core.Case{Fam: "tpl", Src: "|" + src + "|", Exp: "|" + out + "|"})
					}
				}
			}
		}},
		{Name: "one loop printing key, value and all loop metadata: 16 carriers (incl. ranges counting down) x lengths 0..8 x key variable x else", Gen: func(emit func(core.Case)) {
			for ci, c := range c06Carriers() {
				for n := 0; n <= maxLen; n++ {
					if _, _, _, _, ok := c.mk(n); !ok {
						continue
					}
					for k := 0; k < 2; k++ {
						for e := 0; e < 2; e++ {
							emit(core.Case{Fam: "loop", N: []int{ci, n, k, e}})
						}
					}
				}
			}
		}},
		{Name: fmt.Sprintf("nested loops to depth %d over lengths 0..3 printing index and loop.parent chains, the innermost body inline and rendered through an include", maxNest), Gen: func(emit func(core.Case)) {
			for depth := 2; depth <= maxNest; depth++ {
				lens := make([]int, depth)
				for {
					emit(core.Case{Fam: "nest", N: append([]int{}, lens...)})
					emit(core.Case{Fam: "nestinc", N: append([]int{}, lens...)})
					j := depth - 1
					for j >= 0 {
						lens[j]++
						if lens[j] <= 3 {
							break
						}
						lens[j] = 0
						j--
					}
					if j < 0 {
						break
					}
				}
			}
		}},
		{Name: fmt.Sprintf("nested loops to depth %d over lengths 0..3 that all use the same key and value names (also present in the context): the outer element is intact after the inner loop", maxNest), Gen: func(emit func(core.Case)) {
			for depth := 1; depth <= maxNest; depth++ {
				lens := make([]int, depth)
				for {
					emit(core.Case{Fam: "nestshared", N: append([]int{}, lens...)})
					j := depth - 1
					for j >= 0 {
						lens[j]++
						if lens[j] <= 3 {
							break
						}
						lens[j] = 0
						j--
					}
					if j < 0 {
						break
					}
				}
			}
		}},
		{Name: "inline 'if': every subset of a sequence of length <= 5 as the satisfying set (key and value printed), without and with an else branch", Gen: func(emit func(core.Case)) {
			for n := 0; n <= 5; n++ {
				for m := 0; m < 1<<uint(n); m++ {
					emit(core.Case{Fam: "forif", N: []int{n, m, 0}})
					emit(core.Case{Fam: "forif", N: []int{n, m, 1}})
					emit(core.Case{Fam: "forif", N: []int{n, m, 0, 1}})
					emit(core.Case{Fam: "forif", N: []int{n, m, 1, 1}})
				}
			}
		}},
		{Name: "non-iterable values (number, string, bool, struct, pointer to struct, and the zero values of these kinds) are an error, at top level and inside 7 enclosing constructs (list loop, map loop, branch, else branch of an empty loop, two loops, branch in a loop, loop with inline condition)", Gen: func(emit func(core.Case)) {
			for i := 0; i < 13; i++ {
				for e := 0; e < 2; e++ {
					emit(core.Case{Fam: "noniter", N: []int{i, e}})
					for w := 1; w < 8; w++ {
						emit(core.Case{Fam: "noniter", N: []int{i, e, w}})
					}
				}
			}
		}},
		{Name: "loop metadata read from outside the body's text: by a registered filter, test, function and filter section looking at the scope, and by a block of the body overridden in a child template (also inside an outer loop)", Gen: func(emit func(core.Case)) {
			for i := 0; i < 6; i++ {
				emit(core.Case{Fam: "indirect", N: []int{i}})
			}
		}},
		{Name: "size: four loop / branch constructs after n = 0..1500 (thorough 0..6000) simple prints in three token alignments", Gen: func(emit func(core.Case)) {
			top := 1500
			if thorough(tier) {
				top = 6000
			}
			for which := 0; which < 4; which++ {
				for lead := 0; lead < 3; lead++ {
					for n := 0; n <= top; n++ {
						if which > 0 && n < 300 {
							continue
						}
						emit(core.Case{Fam: "padded", N: []int{n, lead, which}})
					}
				}
			}
		}},
		{Name: "inline conditions that read the loop metadata (index0, last, first, index, revindex0, length, revindex; 9 conditions) over lengths 0..6, alone and inside an outer loop of 3: the element's own metadata decides (or the construct is refused), never an enclosing loop's", Gen: func(emit func(core.Case)) {
			for n := 0; n <= 6; n++ {
				for ci := 0; ci < 9; ci++ {
					emit(core.Case{Fam: "forifloop", N: []int{n, ci, 0}})
					emit(core.Case{Fam: "forifloop", N: []int{n, ci, 1}})
				}
			}
		}},
		{Name: "histories: top-level loops (loop.parent absent, a saved loop, a host function looking for loop.parent) after nested loops ran in the process; every built-in Twig filter applied to a host sequence (5 carriers) before it is iterated, in two consecutive executions: the filter leaves its operand as it was", Gen: func(emit func(core.Case)) {
			for k := 0; k < 3; k++ {
				emit(core.Case{Fam: "afternested", N: []int{k}})
			}
			// many if / elseif tags in one template: 1..130 chains of 1..4 conditions, one chain of up to 150 conditions
			for n := 1; n <= 130; n++ {
				for k := 1; k <= 4; k++ {
					emit(core.Case{Fam: "manyelseif", N: []int{n, k, n % 2}})
				}
			}
			for k := 5; k <= 150; k += 5 {
				emit(core.Case{Fam: "manyelseif", N: []int{1, k, 0}})
				emit(core.Case{Fam: "manyelseif", N: []int{2, k, 1}})
			}
			// inline conditions whose answer changes while the loop runs
			for form := 0; form < 4; form++ {
				for k := 0; k <= 6; k++ {
					for ln := 0; ln <= 5; ln++ {
						if form == 3 && k > 0 {
							continue
						}
						emit(core.Case{Fam: "forifstate", N: []int{form, k, ln}})
					}
				}
			}
			for fi := range c02FilterNames() {
				for car := 0; car < 5; car++ {
					emit(core.Case{Fam: "hostseq", N: []int{fi, car}})
				}
			}
		}},
		{Name: "loops inside branches and branches inside loops (depth 3 mixes)", Gen: func(emit func(core.Case)) {
			for n := 0; n <= 3; n++ {
				for m := 0; m < 1<<uint(n+1); m++ {
					emit(core.Case{Fam: "mix", N: []int{n, m}})
				}
			}
		}},
	}
	return lv
}

func c06Exec(src string, ctx map[string]stick.Value) (string, error, string) {
	env := stick.New(nil)
	return tryExec(env, src, ctx)
}

func c06Compare(src string, ctx map[string]stick.Value, want string, nt bool) core.Result {
	out, err, pan := c06Exec(src, ctx)
	if pan != "" {
		return core.Violation("panic", fmt.Sprintf("%q panicked: %s", src, pan))
	}
	if err != nil {
		return core.Violation("error", fmt.Sprintf("%q does not render: %v (want %q)", src, err, want))
	}
	if out != want {
		return core.Violation("output", fmt.Sprintf("%q renders\n    %q, want\n    %q", src, out, want))
	}
	return core.Okay(nt, out)
}

// c06Lits are conditions written as literals (and other constant expressions). Their truth is not tabulated here: it is
// what the library's own coercion gives for the value the expression evaluates to (captured through a function), so a
// literal condition must choose the same branch as the same value held by a variable.
var c06Lits = []string{"true", "false", "0", "1", "00", "0.0", "0.5", "2", "''", "\"\"", "'a'", "'0'", "\"0\"", "'00'", "' '", "'false'", "'0.0'", "null", "[]", "[0]", "{}",
	"{'a': 1}", "(0)", "('0')", "(\"a\")", "(true)", "((false))", "-1", "-0", "not 0", "not '0'", "'0' ~ ''", "\"#{0}\"", "1 - 1", "'0'|up", "TRUE", "none"}

// c06LitChain renders an if / elseif chain over the conditions lits[idx...] written in the given form (0 literal,
// 1 parenthesised, 2 through a variable holding the captured value) and returns what it must render.
func c06LitChain(idx []int, hasElse bool, form int) core.Result {
	env := stick.New(nil)
	addStdCallbacks(env)
	var captured []stick.Value
	env.Functions["cap"] = func(ctx stick.Context, args ...stick.Value) stick.Value {
		captured = append(captured, args[0])
		return ""
	}
	pre := ""
	for _, i := range idx {
		pre += "{{ cap(" + c06Lits[i] + ") }}"
	}
	if out, err, pan := tryExec(env, pre, nil); err != nil || pan != "" || out != "" || len(captured) != len(idx) {
		return core.Violation("error", fmt.Sprintf("%q does not evaluate: %v %s", pre, err, pan))
	}
	src, want := "", ""
	chosen := false
	ctx := map[string]stick.Value{}
	for k, i := range idx {
		kw := "elseif"
		if k == 0 {
			kw = "if"
		}
		cond := c06Lits[i]
		switch form {
		case 1:
			cond = "(" + cond + ")"
		case 2:
			cond = "c" + itoa(k)
			ctx[cond] = captured[k]
		}
		src += "{% " + kw + " " + cond + " %}B" + itoa(k)
		if !chosen && stick.CoerceBool(captured[k]) {
			chosen = true
			want = "B" + itoa(k)
		}
	}
	if hasElse {
		src += "{% else %}E"
		if !chosen {
			want = "E"
		}
	}
	src = "[" + src + "{% endif %}]"
	out, err, pan := tryExec(env, src, ctx)
	if pan != "" || err != nil {
		return core.Violation("error", fmt.Sprintf("%q does not render: %v %s", src, err, pan))
	}
	if out != "["+want+"]" {
		return core.Violation("output", fmt.Sprintf("%q renders %q, want %q: the conditions evaluate to %#v, which the library coerces to %v", src, out, "["+want+"]", captured, want))
	}
	return core.Okay(true, out)
}

// c06AfterNested: loops executed one after the other in one process (fresh environments): nested loops first, then a
// top-level loop that looks for loop.parent (there is none), a loop saved in a variable and read after another loop.
func c06AfterNested(k int) core.Result {
	warm := []string{
		"{% for o in [1, 2] %}{% for i in [7, 8, 9] %}{{ loop.parent.index }}{{ loop.index }}{% endfor %}{% endfor %}",
		"{% for a in [1] %}{% for b in [1, 2] %}{% for c in [1, 2, 3] %}{{ loop.parent.parent.index }}{% endfor %}{% endfor %}{% endfor %}",
		"{% for k, v in {'x': 1, 'y': 2} %}{% for i in 1..4 %}{{ i }}{% endfor %}{% endfor %}",
	}[k%3]
	for i := 0; i < 5; i++ {
		if _, err, pan := c06Exec(warm, nil); err != nil || pan != "" {
			return core.Violation("error", fmt.Sprintf("%q: %v %s", warm, err, pan))
		}
	}
	probes := []struct{ src, want string }{
		{"{% for x in [5, 6] %}[{{ loop.index }}:{{ loop.parent.index }}{{ loop.parent }}]{% endfor %}", "[1:][2:]"},
		{"{% set saved = 0 %}{% for x in ['a', 'b', 'c'] %}{% if loop.last %}{% set saved = loop %}{% endif %}{% endfor %}{% for y in 1..5 %}{% endfor %}{{ saved.index }}/{{ saved.length }}", "3/3"},
		{"{% for x in [1] %}{{ hasparent() }}{% endfor %}|{% for o in [1] %}{% for i in [1] %}{{ hasparent() }}{% endfor %}{% endfor %}", "no|yes"},
	}
	for _, p := range probes {
		env := stick.New(nil)
		env.Functions["hasparent"] = func(ctx stick.Context, args ...stick.Value) stick.Value {
			l, _ := ctx.Scope().Get("loop")
			if m, ok := l.(map[string]stick.Value); ok {
				if _, has := m["parent"]; has {
					return "yes"
				}
			}
			return "no"
		}
		out, err, pan := tryExec(env, p.src, nil)
		if pan != "" || err != nil || out != p.want {
			return core.Violation("output", fmt.Sprintf("after %q was executed 5 times in this process, %q renders %q (%v %s), want %q", warm, p.src, out, err, pan, p.want))
		}
	}
	return core.Okay(true, "after-nested")
}

// c06HostSeq (Twig environment): applying a built-in filter to a sequence of the host (or to a template variable) does
// not change it: the loop over it afterwards, in this execution and in the next one with the same host value, visits
// the elements in their order.
func c06HostSeq(fi, carrier int) core.Result {
	f := c02FilterNames()[fi]
	mk := func() stick.Value {
		switch carrier {
		case 0:
			return []string{"a", "b", "c", "d"}
		case 1:
			return []stick.Value{"a", "b", "c", "d"}
		case 2:
			return append(make([]stick.Value, 0, 16), "a", "b", "c", "d")
		case 3:
			return &[]string{"a", "b", "c", "d"}
		default:
			return [4]string{"a", "b", "c", "d"}
		}
	}
	xs := mk()
	src := "{% set t = xs|" + f + " %}{% set u = xs|" + f + "|" + f + " %}{% for x in xs %}{{ loop.index }}={{ x }},{% endfor %}|{% for o in [1, 2] %}{% for x in xs|" + f + " %}{% endfor %}{% for x in xs %}{{ x }}{% endfor %};{% endfor %}"
	want := "1=a,2=b,3=c,4=d,|abcd;abcd;"
	env := twig.New(nil)
	for round := 1; round <= 2; round++ {
		out, err, pan := tryExec(env, src, map[string]stick.Value{"xs": xs})
		if pan != "" {
			return core.Violation("panic", fmt.Sprintf("%q panicked: %s", src, pan))
		}
		if err != nil {
			return core.Okay(false, "filter-refuses-the-operand")
		}
		if out != want {
			return core.Violation("output", fmt.Sprintf("execution %d of %q with xs = %T(a b c d) renders %q, want %q (a filter does not reorder or change its operand)", round, src, xs, out, want))
		}
	}
	if fmt.Sprint(xs) != fmt.Sprint(mk()) && carrier != 3 {
		return core.Violation("output", fmt.Sprintf("after %q the host's value is %v, it was %v", src, xs, mk()))
	}
	return core.Okay(true, f)
}

func c06Run(c core.Case) core.Result {
	switch c.Fam {
	case "manyelseif":
		// templates with many if / elseif tags in total: n chains of k conditions each in sequence (or inside loops),
		// every chain taking its last elseif branch or its else branch
		n, k, inLoop := c.N[0], c.N[1], c.N[2] == 1
		var sb strings.Builder
		want := ""
		for i := 0; i < n; i++ {
			sb.WriteString("{% if f %}x")
			for j := 1; j < k; j++ {
				cond := "f"
				if j == k-1 && i%2 == 0 {
					cond = "t"
				}
				sb.WriteString("{% elseif " + cond + " %}" + itoa(j))
			}
			sb.WriteString("{% else %}e{% endif %};")
			if i%2 == 0 && k > 1 {
				want += itoa(k-1) + ";"
			} else {
				want += "e;"
			}
		}
		src := sb.String()
		if inLoop {
			src = "{% for q in [1, 2] %}" + src + "{% endfor %}"
			want += want
		}
		return c06Compare(src, c06Ctx(), want, true)
	case "afternested":
		return c06AfterNested(c.N[0])
	case "forifstate":
		// an inline condition is evaluated for every element, when that element is reached: a condition that reads a
		// variable the body updates, or calls a counting host function, changes its answer while the loop runs
		form, k, ln := c.N[0], c.N[1], c.N[2]
		elems := []string{"a", "b", "c", "d", "e"}[:ln]
		ticks := 0
		env := stick.New(nil)
		env.Functions["tick"] = func(ctx stick.Context, args ...stick.Value) stick.Value { ticks++; return ticks }
		taken := k
		if ln < k {
			taken = ln
		}
		src, want := "", ""
		switch form {
		case 0:
			src = "{% set n = 0 %}{% for x in xs if n < " + itoa(k) + " %}{{ x }}{% set n = n + 1 %}{% else %}E{% endfor %}|{{ n }}"
			want = strings.Join(elems[:taken], "")
			if ln == 0 {
				want = "E" // the else branch belongs to the empty sequence, not to the sequence whose elements are all rejected
			}
			want += "|" + itoa(taken)
		case 1:
			src = "{% for x in xs if tick() <= " + itoa(k) + " %}{{ x }}{% else %}E{% endfor %}|{{ tick() }}"
			want = strings.Join(elems[:taken], "")
			if ln == 0 {
				want = "E" // the else branch belongs to the empty sequence, not to the sequence whose elements are all rejected
			}
			want += "|" + itoa(ln+1)
		case 2:
			// the counter survives the inner loop: rows share a budget of k cells
			src = "{% set n = 0 %}{% for r in [1, 2, 3] %}{% for x in xs if n < " + itoa(k) + " %}{{ r }}{{ x }}{% set n = n + 1 %}{% endfor %};{% endfor %}{{ n }}"
			left := k
			for r := 1; r <= 3; r++ {
				for _, e := range elems {
					if left > 0 {
						want += itoa(r) + e
						left--
					}
				}
				want += ";"
			}
			want += itoa(k - left)
		case 3:
			// a flag the body flips: every other element
			src = "{% set on = true %}{% for x in xs if on or x == 'e' %}{{ x }}{% set on = false %}{% endfor %}"
			for i, e := range elems {
				if i == 0 || e == "e" {
					want += e
				}
			}
		}
		xs := []stick.Value{}
		for _, e := range elems {
			xs = append(xs, e)
		}
		out, err, pan := tryExec(env, src, map[string]stick.Value{"xs": xs})
		if pan != "" || err != nil || out != want {
			return core.Violation("for-if", fmt.Sprintf("%s over %v renders %q (%v %s), want %q", src, elems, out, err, pan, want))
		}
		return core.Okay(true, out)
	case "hostseq":
		return c06HostSeq(c.N[0], c.N[1])
	case "litchain":
		return c06LitChain(c.N[2:], c.N[0] == 1, c.N[1])
	case "tpl":
		return c06Compare(c.Src, c06Ctx(), c.Exp, true)
	case "loop":
		car := c06Carriers()[c.N[0]]
		n, withKey, withElse := c.N[1], c.N[2] == 1, c.N[3] == 1
		expr, seq, keys, vals, _ := car.mk(n)
		head := "{% for v in " + expr + " %}"
		body := c06LoopBody
		if withKey {
			head = "{% for k, v in " + expr + " %}"
			body = "{{ k }}=" + c06LoopBody
		}
		src := "<" + head + body
		want := "<" + c06LoopExpect(keys, vals, withKey)
		if withElse {
			src += "{% else %}EMPTY"
			if n == 0 {
				want += "EMPTY"
			}
		}
		src += "{% endfor %}>"
		want += ">"
		return c06Compare(src, map[string]stick.Value{"seq": seq}, want, true)
	case "nest", "nestinc":
		lens := c.N
		// loop d iterates over [1..lens[d]]; the innermost body prints the index chain through loop.parent
		depth := len(lens)
		var sb strings.Builder
		for d := 0; d < depth; d++ {
			var els []string
			for i := 1; i <= lens[d]; i++ {
				els = append(els, itoa(i))
			}
			sb.WriteString("{% for v" + itoa(d) + " in [" + strings.Join(els, ", ") + "] %}<")
		}
		chain := "loop.index"
		for d := 1; d < depth; d++ {
			sb.WriteString("{{ " + chain + " }}.")
			chain = strings.Replace(chain, "loop.", "loop.parent.", 1)
		}
		cell := "{{ " + chain + " }}/{{ loop.length }}{{ loop.parent.length }}"
		if c.Fam == "nestinc" {
			sb.WriteString("{% include 'cell' %}") // the innermost body is rendered through an include: it sees the call site's loop variables
		} else {
			sb.WriteString(cell)
		}
		for d := depth - 1; d >= 0; d-- {
			if d >= 1 {
				// the else branch of an empty inner loop still sees the enclosing loop's metadata
				sb.WriteString(">{% else %}e" + itoa(d) + ":{{ loop.index }}/{{ loop.length }}{% if loop.last %}L{% endif %}{% endfor %}")
			} else {
				sb.WriteString(">{% else %}e" + itoa(d) + "{% endfor %}")
			}
		}
		var rec func(d int, idx []int) string
		rec = func(d int, idx []int) string {
			if d == depth {
				var parts []string
				for i := depth - 1; i >= 0; i-- {
					parts = append(parts, itoa(idx[i]))
				}
				return strings.Join(parts, ".") + "/" + itoa(lens[depth-1]) + itoa(lens[depth-2])
			}
			if lens[d] == 0 {
				if d >= 1 {
					last := ""
					if idx[d-1] == lens[d-1] {
						last = "L"
					}
					return "e" + itoa(d) + ":" + itoa(idx[d-1]) + "/" + itoa(lens[d-1]) + last
				}
				return "e" + itoa(d)
			}
			s := ""
			for i := 1; i <= lens[d]; i++ {
				s += "<" + rec(d+1, append(idx, i)) + ">"
			}
			return s
		}
		if c.Fam == "nestinc" {
			env := stick.New(&stick.MemoryLoader{Templates: map[string]string{"main": sb.String(), "cell": cell}})
			out, err, pan := tryExec(env, "main", nil)
			if pan != "" {
				return core.Violation("panic", fmt.Sprintf("%q (cell %q) panicked: %s", sb.String(), cell, pan))
			}
			if err != nil {
				return core.Violation("error", fmt.Sprintf("%q (cell %q) does not render: %v", sb.String(), cell, err))
			}
			if want := rec(0, nil); out != want {
				return core.Violation("output", fmt.Sprintf("%q with cell = %q renders\n    %q, want\n    %q", sb.String(), cell, out, want))
			}
			return core.Okay(true, out)
		}
		return c06Compare(sb.String(), nil, rec(0, nil), true)
	case "nestshared":
		// nested loops that all use the SAME key and value names: after an inner loop the outer element is intact
		lens := c.N
		depth := len(lens)
		var sb strings.Builder
		for d := 0; d < depth; d++ {
			var els []string
			for i := 1; i <= lens[d]; i++ {
				els = append(els, itoa(10*(d+1)+i))
			}
			sb.WriteString("{% for k, v in [" + strings.Join(els, ", ") + "] %}<{{ k }}:{{ v }}")
		}
		for d := depth - 1; d >= 0; d-- {
			sb.WriteString("|{{ k }}:{{ v }}:{{ loop.index }}>{% endfor %}")
		}
		var rec func(d int) string
		rec = func(d int) string {
			if d == depth {
				return ""
			}
			s := ""
			for i := 1; i <= lens[d]; i++ {
				el := itoa(i-1) + ":" + itoa(10*(d+1)+i)
				s += "<" + el + rec(d+1) + "|" + el + ":" + itoa(i) + ">"
			}
			return s
		}
		return c06Compare(sb.String(), map[string]stick.Value{"k": "ck", "v": "cv"}, rec(0), true)
	case "forif":
		n, mask, withKey := c.N[0], c.N[1], c.N[2] == 1
		var els []string
		var sat []stick.Value
		want := ""
		for i := 0; i < n; i++ {
			els = append(els, itoa(i+1))
			if mask&(1<<uint(i)) != 0 {
				sat = append(sat, i+1)
				if withKey {
					want += itoa(i) + "="
				}
				want += itoa(i+1) + ","
			}
		}
		head := "{% for v in [" + strings.Join(els, ", ") + "] if v in sat %}{{ v }},"
		if withKey {
			head = "{% for k, v in [" + strings.Join(els, ", ") + "] if v in sat %}{{ k }}={{ v }},"
		}
		if sat == nil {
			sat = []stick.Value{}
		}
		if len(c.N) > 3 && c.N[3] == 1 {
			// with an else branch: it is rendered exactly when the sequence is empty, not when every element is rejected
			if n == 0 {
				want = "E"
			}
			return c06Compare("("+head+"{% else %}E{% endfor %})", map[string]stick.Value{"sat": sat}, "("+want+")", true)
		}
		return c06Compare("("+head+"{% endfor %})", map[string]stick.Value{"sat": sat}, "("+want+")", n > 0)
	case "forifloop":
		// an inline condition that reads the loop metadata: it is the element's own metadata (or the construct is
		// refused, as Twig does) - never silently that of an enclosing loop or an undefined value
		n, ci, nested := c.N[0], c.N[1], c.N[2] == 1
		conds := []struct {
			src string
			ok  func(i, n int) bool
		}{
			{"loop.index0 % 2 == 0", func(i, n int) bool { return i%2 == 0 }},
			{"not loop.last", func(i, n int) bool { return i != n-1 }},
			{"loop.first", func(i, n int) bool { return i == 0 }},
			{"loop.index > 1", func(i, n int) bool { return i > 0 }},
			{"loop.revindex0 > 0", func(i, n int) bool { return n-1-i > 0 }},
			{"loop.length == 3", func(i, n int) bool { return n == 3 }},
			{"loop.index == v", func(i, n int) bool { return true }},
			{"loop.revindex == 2 or loop.last", func(i, n int) bool { return n-i == 2 || i == n-1 }},
			{"v > 1 and loop.index0 < 3", func(i, n int) bool { return i+1 > 1 && i < 3 }},
		}
		cd := conds[ci]
		var els []string
		inner := ""
		for i := 0; i < n; i++ {
			els = append(els, itoa(i+1))
			if cd.ok(i, n) {
				inner += itoa(i+1) + ","
			}
		}
		src := "{% for v in [" + strings.Join(els, ", ") + "] if " + cd.src + " %}{{ v }},{% endfor %}"
		want := inner
		if nested {
			src = "{% for o in ['p', 'q', 'r'] %}{{ o }}:" + src + ";{% endfor %}"
			want = "p:" + inner + ";q:" + inner + ";r:" + inner + ";"
		}
		out, err, pan := c06Exec("("+src+")", nil)
		if pan != "" {
			return core.Violation("panic", fmt.Sprintf("%q panicked: %s", src, pan))
		}
		if err != nil {
			return core.Okay(true, "loop-in-condition-refused")
		}
		if out != "("+want+")" {
			return core.Violation("output", fmt.Sprintf("%q renders %q, want %q (the condition reads the metadata of the element being tested)", src, out, "("+want+")"))
		}
		return core.Okay(n > 0, out)
	case "indirect":
		// loop metadata read by code that is not written in the loop body: a registered filter / test / function
		// looking at the scope, and a block in the body that a child template overrides
		tpls := map[string]string{
			"base":   "{% for v in [5, 6, 7] %}[{% block cell %}-{% endblock %}]{% endfor %}",
			"child":  "{% extends 'base' %}{% block cell %}{{ loop.index }}/{{ loop.length }}{% if loop.last %}L{% endif %}{% endblock %}",
			"outer":  "{% for o in [1, 2] %}<{% for v in [5, 6, 7] %}[{% block cell %}-{% endblock %}]{% endfor %}>{% endfor %}",
			"child2": "{% extends 'outer' %}{% block cell %}{{ loop.parent.index }}.{{ loop.index }}{% endblock %}",
			"filt":   "{% for v in [5, 6, 7] %}{{ v|lpf }},{% endfor %}|{% for o in [1, 2] %}{% for v in [5, 6] %}{{ v|lpf }}{% endfor %};{% endfor %}",
			"test":   "{% for v in [5, 6, 7] %}{% if v is lastone %}L{% else %}n{% endif %}{% endfor %}",
			"fn":     "{% for v in [5, 6, 7] %}{{ lpfn() }}{% endfor %}",
			"sect":   "{% for v in [5, 6, 7] %}{% filter lpf %}x{% endfilter %},{% endfor %}",
		}
		want := map[string]string{"child": "[1/3][2/3][3/3L]", "child2": "<[1.1][1.2][1.3]><[2.1][2.2][2.3]>", "filt": "1:5,2:6,3:7,|1:52:6;1:52:6;", "test": "nnL", "fn": "1/32/33/3", "sect": "1:x,2:x,3:x,"}
		names := []string{"child", "child2", "filt", "test", "fn", "sect"}
		name := names[c.N[0]]
		env := stick.New(&stick.MemoryLoader{Templates: tpls})
		loopOf := func(ctx stick.Context) (map[string]stick.Value, bool) {
			l, ok := ctx.Scope().Get("loop")
			m, isMap := l.(map[string]stick.Value)
			return m, ok && isMap
		}
		env.Filters["lpf"] = func(ctx stick.Context, v stick.Value, args ...stick.Value) stick.Value {
			if l, ok := loopOf(ctx); ok {
				return stick.CoerceString(l["index"]) + ":" + stick.CoerceString(v)
			}
			return "?:" + stick.CoerceString(v)
		}
		env.Tests["lastone"] = func(ctx stick.Context, v stick.Value, args ...stick.Value) bool {
			l, ok := loopOf(ctx)
			return ok && stick.CoerceBool(l["last"])
		}
		env.Functions["lpfn"] = func(ctx stick.Context, args ...stick.Value) stick.Value {
			if l, ok := loopOf(ctx); ok {
				return stick.CoerceString(l["index"]) + "/" + stick.CoerceString(l["length"])
			}
			return "?"
		}
		out, err, pan := tryExec(env, name, nil)
		if pan != "" || err != nil {
			return core.Violation("error", fmt.Sprintf("%s = %q: %v %s", name, tpls[name], err, pan))
		}
		if out != want[name] {
			return core.Violation("output", fmt.Sprintf("%s = %q (base %q) renders %q, want %q", name, tpls[name], tpls["base"], out, want[name]))
		}
		return core.Okay(true, out)
	case "padded":
		// the same small construct after n simple prints (n up to 1500, three alignments): its meaning does not depend
		// on how many tokens precede it (bounded token histories, block-wise buffers)
		n, lead, which := c.N[0], []string{"", "x", "{{ a }}"}[c.N[1]], c.N[2]
		leadOut := []string{"", "x", "3"}[c.N[1]]
		cons := []c08SO{
			{"{% for v in [1, 2] %}<{% if v == 1 %}A{% else %}B{% endif %}>{% else %}E{% endfor %}", "<A><B>"},
			{"{% for v in [] %}x{% else %}{% if a %}E{{ a }}{% endif %}{% endfor %}", "E3"},
			{"{% if z %}n{% elseif a %}{% for k, v in [7] %}{{ k }}={{ v }}{% if loop.last %}!{% endif %}{% endfor %}{% else %}e{% endif %}", "0=7!"},
			{"{% for v in [1] %}{% for w in [2, 3] %}{{ loop.parent.index }}{{ loop.index }}{% if w == 3 %}.{% endif %}{% endfor %}{% endfor %}", "1112."},
		}[which]
		src := lead + strings.Repeat("{{a}}", n) + cons.src + "{{a}}"
		want := leadOut + strings.Repeat("3", n) + cons.out + "3"
		out, err, pan := c06Exec(src, map[string]stick.Value{"a": 3, "z": 0})
		desc := fmt.Sprintf("%q + {{a}} x %d + %q", lead, n, cons.src)
		if pan != "" {
			return core.Violation("panic", desc+" panicked: "+pan)
		}
		if err != nil {
			return core.Violation("error", fmt.Sprintf("%s does not render: %v", desc, err))
		}
		if out != want {
			return core.Violation("output", fmt.Sprintf("%s renders ...%q, want ...%q", desc, tail(out, 40), tail(want, 40)))
		}
		return core.Okay(true, cons.out)
	case "noniter":
		vals := []stick.Value{5, "str", true, 2.5, stdObj{"o"}, &stdObj{"p"}, 0, "", false, 0.0, stdObj{}, int8(0), uint(0)}
		src := "a{% for v in x %}b{% endfor %}c"
		if c.N[1] == 1 {
			src = "a{% for v in x %}b{% else %}e{% endfor %}c"
		}
		if len(c.N) > 2 { // the failing loop at some nesting: inside a list loop, a map loop, a branch, an else branch, two loops
			wraps := [][2]string{{"", ""}, {"{% for r in [1, 2] %}[", "]{% endfor %}"}, {"{% for k, r in {'p': 1} %}[", "]{% endfor %}"},
				{"{% if true %}[", "]{% endif %}"}, {"{% for r in [] %}n{% else %}[", "]{% endfor %}"}, {"{% for r in [1] %}{% for q in [1, 2] %}[", "]{% endfor %}{% endfor %}"},
				{"{% for r in [1, 2] %}{% if r %}[", "]{% endif %}{% endfor %}"}, {"{% for r in [1, 2] if r %}[", "]{% endfor %}"}}
			w := wraps[c.N[2]]
			src = "h" + w[0] + src + w[1] + "t"
		}
		_, err, pan := c06Exec(src, map[string]stick.Value{"x": vals[c.N[0]]})
		if pan != "" {
			return core.Violation("panic", fmt.Sprintf("%q with x=%#v panicked: %s", src, vals[c.N[0]], pan))
		}
		if err == nil {
			return core.Violation("missing-error", fmt.Sprintf("%q with the non-iterable x=%#v returned no error", src, vals[c.N[0]]))
		}
		return core.Okay(true, "err")
	case "mix":
		n, mask := c.N[0], c.N[1]
		// a loop whose body branches on membership, inside a branch; the else branch holds another loop
		var els []string
		var sat []stick.Value
		for i := 0; i < n; i++ {
			els = append(els, itoa(i+1))
			if mask&(1<<uint(i)) != 0 {
				sat = append(sat, i+1)
			}
		}
		outer := mask&(1<<uint(n)) != 0
		src := "{% if outer %}{% for v in [" + strings.Join(els, ", ") + "] %}{% if v in sat %}y{{ v }}{% elseif loop.last %}L{% else %}n{{ loop.index }}{% endif %}{% else %}none{% endfor %}{% else %}{% for w in sat %}{{ w }}{% if not loop.last %}+{% endif %}{% else %}nosat{% endfor %}{% endif %}"
		want := ""
		if outer {
			if n == 0 {
				want = "none"
			}
			for i := 0; i < n; i++ {
				switch {
				case mask&(1<<uint(i)) != 0:
					want += "y" + itoa(i+1)
				case i == n-1:
					want += "L"
				default:
					want += "n" + itoa(i+1)
				}
			}
		} else {
			if len(sat) == 0 {
				want = "nosat"
			}
			for i, s := range sat {
				want += itoa(s.(int))
				if i != len(sat)-1 {
					want += "+"
				}
			}
		}
		if sat == nil {
			sat = []stick.Value{}
		}
		return c06Compare(src, map[string]stick.Value{"sat": sat, "outer": outer}, want, true)
	}
	return core.Skipped("unknown-family")
}

func init() {
	core.Register(&core.Check{
		ID:       "C06",
		Category: "exploration",
		Rule: "if/elseif/else chains with <= 3 conditions over every assignment of 7 condition values (true,false,0,1,'','a',null) x else; nested chains to depth 3 over every truth assignment; one loop printing key, value and all loop metadata over 13 carriers (array / string array / hash literals, ranges, Go []int, []string, [N]int, *[]int, []Value, single-entry map, null) x lengths 0..8 (thorough 0..16) x key variable x else; " +
			"nested loops to depth 3 (thorough 5) over lengths 0..3 printing index chains through loop.parent, and the same with one key/value name shared by all depths and the context; inline 'if' with every subset of a length <= 5 sequence as satisfying set; non-iterables must fail; loop/branch mixes. Expectations are computed by the generator. distinct = distinct (template, context); non-trivial = all",
		Assumptions: []string{
			"loop.parent is the enclosing loop's metadata (loop.parent.index), as pinned by the repository's own test 'For loop with inner loop'",
			"loop metadata under an inline 'if' and 'else' after a non-empty filtered loop are not claimed (they differ between Twig versions)",
		},
		Levels:  c06Levels,
		Run:     c06Run,
		NoDedup: true,
		Budget:  budget(3*time.Minute, 10*time.Minute),
	})
}

func tail(s string, n int) string {
	if len(s) <= n {
		return s
	}
	return s[len(s)-n:]
}
