package checks

import (
	"fmt"
	"math"
	"net"
	"os"
	"path/filepath"
	"sort"
	"strings"
	"sync"
	"time"

	"github.com/shopspring/decimal"
	"github.com/tyler-sommer/stick"
	"github.com/tyler-sommer/stick/twig"
	"github.com/tyler-sommer/stick/twig/filter"

	"verif/core"
)

// C02 — execution is total: a parsed template renders or returns an error, never panics.
// Totality oracle only, in supervised workers (a fatal stack overflow or a memory blow-up
// kills the worker and is turned into a verdict by the supervisor).

type c02Named struct {
	name string
	v    stick.Value
}

type c02Struct struct {
	A int
	b int
}

func c02Values() []c02Named {
	var nilPtr *c02Struct
	var nilMap map[string]int
	sl := []int{1, 2}
	return []c02Named{
		{"nil", nil}, {"true", true}, {"false", false}, {"0", 0}, {"1", 1}, {"-1", -1}, {"2", 2}, {"0.5", 0.5},
		{"999999", 999999}, {"1e6", 1e6}, {"1e18", 1e18}, {"1e308", 1e308}, {"int8(-128)", int8(-128)}, {"uint64(max)", uint64(math.MaxUint64)},
		{"NaN", math.NaN()}, {"-0.0", math.Copysign(0, -1)}, {"-2.5", -2.5},
		{`""`, ""}, {`"a"`, "a"}, {`"3"`, "3"}, {`"<"`, "<"}, {`"é€"`, "é€"}, {`"now"`, "now"},
		{"[]int{}", []int{}}, {"[]int{1,2}", []int{1, 2}}, {"[]Value{}", []stick.Value{}}, {`[]Value{"a",nil}`, []stick.Value{"a", nil}},
		{"[2]string", [2]string{"x", "y"}}, {"map[string]Value{}", map[string]stick.Value{}}, {`map{"k":"v"}`, map[string]stick.Value{"k": "v"}},
		{"map[int]string", map[int]string{1: "x"}}, {"map[string]int(nil)", nilMap},
		{"struct", c02Struct{1, 2}}, {"&struct", &c02Struct{1, 2}}, {"(*struct)(nil)", nilPtr}, {"*[]int", &sl},
		{"time.Time", time.Unix(0, 0).UTC()}, {"decimal", decimal.New(15, -1)}, {"Stringer", tS{"str"}}, {"Number", tN{2}},
		{"[]string{}", []string{}}, {"[][]int", [][]int{{1}, {}}},
		{"map[interface{}]interface{} with keys of 6 kinds", map[interface{}]interface{}{1: "a", "k": "b", 2.5: "c", true: "d", uint8(7): "e", int64(-1): "f", nil: "g"}},
		{`"/"`, "/"}, {`"/admin"`, "/admin"}, {`"(["`, "(["}, {`"\\"`, "\\"},
		{"struct embedding a nil pointer", c16S2{Own: "o"}}, {"*struct embedding a set pointer", &c16S2{&c16PE{7}, "o"}},
		{"named []string with String()", c16Tags{"t1", "t2"}}, {"net.IP", net.IP{10, 0, 0, 1}}, {"time.Duration", 90 * time.Second},
		// characters outside the basic multilingual plane, invalid UTF-8, NUL and other control characters
		// pointers to scalars, nil and set (optional fields of a record), also inside a safe wrapper and a slice
		{"(*string)(nil)", (*string)(nil)}, {"(*int)(nil)", (*int)(nil)}, {"(*bool)(nil)", (*bool)(nil)}, {"(*float64)(nil)", (*float64)(nil)}, {"(*uint8)(nil)", (*uint8)(nil)},
		{"*string", sp("ptr")}, {"*float64", np(2.5)}, {"*bool", bp(true)}, {"safe((*string)(nil))", stick.NewSafeValue((*string)(nil), "html")}, {"[]Value{(*int)(nil)}", []stick.Value{(*int)(nil), (*string)(nil)}},
		{"(*[]string)(nil)", (*[]string)(nil)}, {"(*map[string]int)(nil)", (*map[string]int)(nil)}, {"(*[2]int)(nil)", (*[2]int)(nil)}, {"**int(nil)", (**int)(nil)},
		{`"\U0001F600\U00010000\U0010FFFF"`, "\U0001F600\U00010000\U0010FFFF"}, {`"\xff\xc3"`, "\xff\xc3"}, {`"a\x00b\x1f\u2028"`, "a\x00b\x1f\u2028"},
		// letters whose other case has a different length in UTF-8 (U+0250 / U+023F: 2 -> 3 bytes, dotless i and long s: 2 -> 1,
		// sharp s: 2 -> 2 letters, a digraph whose title case differs from its upper case), last in the string and after a blank
		{`"\u0250"`, "\u0250"}, {`"x \u023f"`, "x \u023f"}, {`"\u0131 \u017f\u00df \u01c6"`, "\u0131 \u017f\u00df \u01c6"},
	}
}

var c02Small = []int{0, 3, 5, 18, 24, 29} // nil, 0, -1, "a", []int{1,2}, map{"k":"v"}

var c02ArgVals = []c02Named{
	{"nil", nil}, {"0", 0}, {"1", 1}, {"-1", -1}, {"2.5", 2.5}, {`""`, ""}, {`"a"`, "a"}, {"[]Value{}", []stick.Value{}}, {"map{}", map[string]stick.Value{}}, {"true", true},
	{`","`, ","}, {"1e9", 1e9},
	{`"\\"`, "\\"}, {`"d/m/Y \\a\\t H\\"`, "d/m/Y \\a\\t H\\"}, {`"%s%d%"`, "%s%d%"}, {`"Y-m-d H:i:s"`, "Y-m-d H:i:s"},
	// the strategy names of the escape filter, and an encoding name
	{`"css"`, "css"}, {`"js"`, "js"}, {`"url"`, "url"}, {`"html_attr"`, "html_attr"}, {`"UTF-8"`, "UTF-8"},
}

var c02BinOps = []string{"+", "-", "*", "/", "//", "%", "**", "~", "==", "!=", "<", "<=", ">", ">=", "and", "or", "in", "not in",
	"starts with", "ends with", "matches", "..", "b-and", "b-or", "b-xor"}

var c02TagForms = []string{
	"{% for v in x %}{{ v }}{% endfor %}",
	"{% for k, v in x %}{{ k }}{{ v }}{{ loop.index }}{% else %}e{% endfor %}",
	"{% for v in [1, 2, 3] if x %}{{ v }}{% endfor %}",
	"{% for v in x if v %}{{ v }}{% else %}e{% endfor %}",
	"{% if x %}a{% elseif not x %}b{% else %}c{% endif %}",
	"{% set y = x %}{{ y }}{{ y.k }}{{ y[0] }}",
	"{% do x %}",
	"{% include x %}",
	"{% include 'inc' with x %}",
	"{% include 'inc' with x only %}",
	"{% embed x %}{% block b %}o{% endblock %}{% endembed %}",
	"{% embed 'base' with x %}{% block b %}{{ parent() }}{% endblock %}{% endembed %}",
	"{% embed 'setter' only %}{% endembed %}{% include 'setter' only %}{% embed 'setter' with x only %}{% block b %}{% set q = x %}{% endblock %}{% endembed %}",
	"{% include 'setter' with x %}{% embed 'importer' only %}{% endembed %}{% include 'importer' with x only %}",
	"{% extends x %}{% block b %}c{% endblock %}",
	"{% extends 'base' %}{% use x %}",
	"{% import x as m %}{{ m.f(1) }}",
	"{% from x import m %}{{ m(1) }}",
	"{% block b %}{{ block(x) }}{% endblock %}",
	"{{ x ~ x }}{{ \"#{x}\" }}",
	"{{ [x, x]|length }}{{ {k: x}.k }}",
	"{{ x.k.j }}{{ x[x] }}{{ x.0 }}{{ x[0][0] }}",
	"{{ x.P }}{{ x.Own }}{{ x.A }}{{ x.B }}{{ x.Name }}{{ x['P'] }}",
	"{{ x ? x : x }}{{ not x }}{{ -x }}{{ +x }}",
	"{{ x is odd }}{{ x is not even }}{{ x is divisible by(x) }}",
	"{{ f(x) }}{{ x|up }}{{ x|wrap(x) }}",
	"{% filter up %}{{ x }}{% endfilter %}",
	"{% set c %}{{ x }}{% endset %}{{ c }}",
	"{% macro m(a, b) %}{{ a }}{{ b }}{% endmacro %}{{ _self.m(x) }}{{ _self.m(x, x, x) }}",
	"{{ x.Method() }}{{ x.A }}{{ x.b }}{{ x.String }}{{ x.Format(x) }}",
	"{{ _self.x }}{{ _self[x] }}{{ loop.index }}{{ loop[x] }}",
	"{{ 0..x }}{{ x..2 }}{% for i in x..3 %}{{ i }}{% endfor %}",
	"{{ x in x }}{{ x not in [x] }}{{ [x] == [x] }}",
}

// c02Exec executes src (env == nil: a core environment with the harness callbacks and the corpus templates).
func c02Exec(env *stick.Env, src string, ctx map[string]stick.Value, desc string) core.Result {
	name := src
	if env == nil {
		env = stdEnv(map[string]string{"main": src,
			"setter":   "{% set y = 1 %}{% if true %}{% set z = y %}{% endif %}S[{% block b %}{% set w = 2 %}b{{ w }}{% endblock %}]",
			"importer": "{% import 'macros' as mm %}{% from 'macros' import m %}I{{ mm.m(1) }}{{ m(2) }}"})
		name = "main"
	}
	out, err, pan := tryExec(env, name, ctx)
	if pan != "" {
		return core.Violation("panic", desc+" panicked: "+pan)
	}
	// history: the same execution a second time on the same environment is total too
	if _, _, pan2 := tryExec(env, name, ctx); pan2 != "" {
		return core.Violation("panic", desc+" panicked when executed a second time on the same environment: "+pan2)
	}
	r := core.Okay(true, "ok "+out)
	r.Cnt = map[string]int64{"rendered": 1}
	if err != nil {
		msg := err.Error()
		if len(msg) > 24 {
			msg = msg[:24]
		}
		r = core.Okay(true, "err "+msg)
		r.Cnt = map[string]int64{"returned_error": 1}
		if strings.Contains(err.Error(), "file does not exist") && !strings.Contains(src, "include") && !strings.Contains(src, "extends") &&
			!strings.Contains(src, "embed") && !strings.Contains(src, "import") && !strings.Contains(src, "use") {
			return core.Violation("harness", desc+": the template under test was not found by the loader")
		}
	}
	return r
}

// c02Names are template names handed directly to Execute and Parse under every built-in loader.
var c02Names = []string{"", " ", "/", "\\", ".", "..", "../x", "a/../../b", "inc", "inc/", "/inc", "./inc", "sub", "sub/", "sub/../inc", "\x00", "inc\x00", "a\nb",
	"{{", "{% include '' %}", "{% extends '' %}{% block b %}{% endblock %}", "{{ include }}", strings.Repeat("n", 5000), strings.Repeat("../", 200), "%s", "~", "*", "inc?"}

var (
	c02FSOnce sync.Once
	c02FSDir  string
)

// c02LoaderEnv returns an environment over the corpus templates (plus main) served by the given built-in loader:
// 1 = FilesystemLoader over a scratch directory, 2 = StringLoader (the name is the source), otherwise MemoryLoader.
// tw selects the Twig environment.
func c02LoaderEnv(kind int, tw bool, mainName, mainSrc string) (*stick.Env, string) {
	var ld stick.Loader
	name := mainName
	switch kind {
	case 1:
		c02FSOnce.Do(func() {
			c02FSDir = filepath.Join(core.WorkDir, "c02fs")
			if core.WorkDir == "" {
				c02FSDir, _ = os.MkdirTemp("", "c02fs")
			}
			os.MkdirAll(filepath.Join(c02FSDir, "sub"), 0o755)
			for k, v := range corpusTpls {
				if strings.ContainsAny(k, "/\x00") {
					continue
				}
				os.WriteFile(filepath.Join(c02FSDir, k), []byte(v), 0o644)
			}
		})
		if mainName != "" {
			os.WriteFile(filepath.Join(c02FSDir, mainName), []byte(mainSrc), 0o644)
		}
		ld = stick.NewFilesystemLoader(c02FSDir)
	case 2:
		ld = &stick.StringLoader{}
		name = mainSrc
	default:
		m := map[string]string{}
		for k, v := range corpusTpls {
			m[k] = v
		}
		if mainName != "" {
			m[mainName] = mainSrc
		}
		ld = &stick.MemoryLoader{Templates: m}
	}
	var env *stick.Env
	if tw {
		env = twig.New(ld)
	} else {
		env = stick.New(ld)
	}
	addStdCallbacks(env)
	return env, name
}

func c02TooBigRange(a, b stick.Value) bool {
	x, y := stick.CoerceNumber(a), stick.CoerceNumber(b)
	if math.IsNaN(x) || math.IsNaN(y) {
		return false
	}
	return math.Abs(y-x) > 1e6 // more than a million elements: outside the claim
}

func c02FilterNames() []string {
	var names []string
	for n := range filter.TwigFilters() {
		names = append(names, n)
	}
	names = append(names, "escape")
	sort.Strings(names)
	return names
}

func c02Run(c core.Case) core.Result {
	vals := c02Values()
	switch c.Fam {
	case "binop":
		op, a, b := c02BinOps[c.N[0]], vals[c.N[1]], vals[c.N[2]]
		if op == ".." && c02TooBigRange(a.v, b.v) {
			return core.Skipped("range-over-a-million")
		}
		src := "{{ a " + op + " b }}"
		return c02Exec(nil, src, map[string]stick.Value{"a": a.v, "b": b.v}, fmt.Sprintf("%s with a=%s b=%s", src, a.name, b.name))
	case "binop2":
		o1, o2 := c02BinOps[c.N[0]], c02BinOps[c.N[1]]
		a, b, cc := vals[c.N[2]], vals[c.N[3]], vals[c.N[4]]
		src := "{{ (a " + o1 + " b) " + o2 + " c }}{{ a " + o1 + " (b " + o2 + " c) }}"
		if o1 == ".." || o2 == ".." {
			for _, p := range [][2]stick.Value{{a.v, b.v}, {b.v, cc.v}} {
				if c02TooBigRange(p[0], p[1]) {
					return core.Skipped("range-over-a-million")
				}
			}
		}
		return c02Exec(nil, src, map[string]stick.Value{"a": a.v, "b": b.v, "c": cc.v}, fmt.Sprintf("%s with a=%s b=%s c=%s", src, a.name, b.name, cc.name))
	case "tag":
		x := vals[c.N[1]]
		src := c02TagForms[c.N[0]]
		if strings.Contains(src, "..") && (c02TooBigRange(0, x.v) || c02TooBigRange(x.v, 3)) {
			return core.Skipped("range-over-a-million")
		}
		return c02Exec(nil, src, map[string]stick.Value{"x": x.v}, fmt.Sprintf("%s with x=%s", src, x.name))
	case "method":
		conts := c16Containers()
		als := c16ArgLists()
		methods := []string{"Method", "PtrMethod", "Add", "Greet", "IntArg", "Var", "Two", "None", "Field", "missing", "Join"}
		ci, mi, ai := c.N[0], c.N[1], c.N[2]
		args := als[ai]
		var names []string
		ctx := map[string]stick.Value{"c": conts[ci].v}
		for i, a := range args {
			n := "p" + itoa(i)
			names = append(names, n)
			ctx[n] = a
		}
		src := "{{ c." + methods[mi] + "(" + strings.Join(names, ", ") + ") }}"
		return c02Exec(stick.New(nil), src, ctx, fmt.Sprintf("%s with c=%s args=%#v", src, conts[ci].name, args))
	case "filter":
		names := c02FilterNames()
		f, v := names[c.N[0]], vals[c.N[1]]
		var argNames []string
		ctx := map[string]stick.Value{"v": v.v}
		desc := ""
		for i, ai := range c.N[2:] {
			n := "p" + itoa(i)
			argNames = append(argNames, n)
			ctx[n] = c02ArgVals[ai].v
			desc += " " + n + "=" + c02ArgVals[ai].name
		}
		if f == "batch" && len(c.N) > 2 && stick.CoerceNumber(c02ArgVals[c.N[2]].v) > 1e6 {
			return core.Skipped("batch-size-over-a-million") // a legitimate request for 10^9 fill elements
		}
		src := "{{ v|" + f + " }}"
		if len(argNames) > 0 {
			src = "{{ v|" + f + "(" + strings.Join(argNames, ", ") + ") }}"
		}
		return c02Exec(twig.New(nil), src, ctx, fmt.Sprintf("twig: %s with v=%s%s", src, v.name, desc))
	case "loaders":
		// every tag form x every value, the templates served by the filesystem and string loaders
		x := vals[c.N[1]]
		src := c02TagForms[c.N[0]]
		if strings.Contains(src, "..") && (c02TooBigRange(0, x.v) || c02TooBigRange(x.v, 3)) {
			return core.Skipped("range-over-a-million")
		}
		env, name := c02LoaderEnv(c.N[2], c.N[3] == 1, "t"+itoa(c.N[0])+".twig", src)
		return c02Exec(env, name, map[string]stick.Value{"x": x.v}, fmt.Sprintf("loader kind %d twig=%d: %s with x=%s", c.N[2], c.N[3], src, x.name))
	case "names":
		// Execute and Parse called directly with every name
		name := c02Names[c.N[0]]
		env, _ := c02LoaderEnv(c.N[1], c.N[2] == 1, "", "")
		desc := fmt.Sprintf("loader kind %d twig=%d: name %q", c.N[1], c.N[2], name)
		if _, _, pan := tryEnvParse(env, name); pan != "" {
			return core.Violation("panic", desc+": Parse panicked: "+pan)
		}
		_, err, pan := tryExec(env, name, map[string]stick.Value{"x": name})
		if pan != "" {
			return core.Violation("panic", desc+": Execute panicked: "+pan)
		}
		r := core.Okay(true, "name-ok")
		if err != nil {
			r = core.Okay(true, "name-err")
		}
		return r
	case "filtertag":
		names := c02FilterNames()
		f, g := names[c.N[0]], names[c.N[1]]
		body := []string{"", "abc", "a b\nc<d>", "{{ v }}"}[c.N[2]]
		src := "{% filter " + f + "|" + g + " %}" + body + "{% endfilter %}"
		v := vals[c.N[3]]
		return c02Exec(twig.New(nil), src, map[string]stick.Value{"v": v.v}, fmt.Sprintf("twig: %s with v=%s", src, v.name))
	}
	return core.Skipped("unknown-family")
}

func c02Levels(tier string) []core.Level {
	nv := len(c02Values())
	nf := len(c02FilterNames())
	na := len(c02ArgVals)
	lv := []core.Level{
		{Name: fmt.Sprintf("every binary operator (25) over every pair of %d context values", nv), Gen: func(emit func(core.Case)) {
			for op := range c02BinOps {
				for a := 0; a < nv; a++ {
					for b := 0; b < nv; b++ {
						emit(core.Case{Fam: "binop", N: []int{op, a, b}})
					}
				}
			}
		}},
		{Name: fmt.Sprintf("%d tag / expression forms consuming a value x every context value", len(c02TagForms)), Gen: func(emit func(core.Case)) {
			for t := range c02TagForms {
				for v := 0; v < nv; v++ {
					emit(core.Case{Fam: "tag", N: []int{t, v}})
				}
			}
		}},
		{Name: "method calls: every struct-like container x 11 attribute names x every argument list of length 0..3", Gen: func(emit func(core.Case)) {
			for ci := range c16Containers() {
				for mi := 0; mi < 11; mi++ {
					for ai := range c16ArgLists() {
						emit(core.Case{Fam: "method", N: []int{ci, mi, ai}})
					}
				}
			}
		}},
		{Name: fmt.Sprintf("twig environment: every built-in filter (%d) x every value x every argument list of length 0..2 over %d argument values", nf, na), Gen: func(emit func(core.Case)) {
			for f := 0; f < nf; f++ {
				for v := 0; v < nv; v++ {
					emit(core.Case{Fam: "filter", N: []int{f, v}})
					for a := 0; a < na; a++ {
						emit(core.Case{Fam: "filter", N: []int{f, v, a}})
						for b := 0; b < na; b++ {
							emit(core.Case{Fam: "filter", N: []int{f, v, a, b}})
						}
					}
				}
			}
		}},
		{Name: fmt.Sprintf("built-in loaders: %d tag forms x every value with the templates served by the FilesystemLoader and the StringLoader (core and twig environments); Execute and Parse called with %d names (empty, rooted, climbing, directories, NUL, 5000 bytes, template source) under the three loaders", len(c02TagForms), len(c02Names)), Gen: func(emit func(core.Case)) {
			for t := range c02TagForms {
				for v := 0; v < nv; v++ {
					for k := 1; k <= 2; k++ {
						for tw := 0; tw < 2; tw++ {
							emit(core.Case{Fam: "loaders", N: []int{t, v, k, tw}})
						}
					}
				}
			}
			for n := range c02Names {
				for k := 0; k <= 2; k++ {
					for tw := 0; tw < 2; tw++ {
						emit(core.Case{Fam: "names", N: []int{n, k, tw}})
					}
				}
			}
		}},
		{Name: "twig environment: filter sections with every ordered pair of built-in filters x 4 bodies", Gen: func(emit func(core.Case)) {
			for f := 0; f < nf; f++ {
				for g := 0; g < nf; g++ {
					for b := 0; b < 4; b++ {
						vs := []int{18}
						if b == 3 {
							vs = []int{0, 3, 17, 18, 24, 29}
						}
						for _, v := range vs {
							emit(core.Case{Fam: "filtertag", N: []int{f, g, b, v}})
						}
					}
				}
			}
		}},
		{Name: "depth 2: every pair of binary operators x 6^3 operands, both shapes", Gen: func(emit func(core.Case)) {
			for o1 := range c02BinOps {
				for o2 := range c02BinOps {
					for _, a := range c02Small {
						for _, b := range c02Small {
							for _, c := range c02Small {
								emit(core.Case{Fam: "binop2", N: []int{o1, o2, a, b, c}})
							}
						}
					}
				}
			}
		}},
	}
	if thorough(tier) {
		lv = append(lv, core.Level{Name: "depth 2: every pair of binary operators x 12^3 operands, both shapes", Gen: func(emit func(core.Case)) {
			big := []int{0, 1, 3, 5, 7, 14, 17, 18, 19, 24, 29, 34}
			for o1 := range c02BinOps {
				for o2 := range c02BinOps {
					for _, a := range big {
						for _, b := range big {
							for _, c := range big {
								emit(core.Case{Fam: "binop2", N: []int{o1, o2, a, b, c}})
							}
						}
					}
				}
			}
		}})
		lv = append(lv, core.Level{Name: "twig environment: every built-in filter x 12 values x every argument list of length 3 over 12 argument values", Gen: func(emit func(core.Case)) {
			big := []int{0, 3, 5, 7, 14, 17, 18, 24, 26, 29, 34, 35}
			for f := 0; f < nf; f++ {
				for _, v := range big {
					for a := 0; a < na; a++ {
						for b := 0; b < na; b++ {
							for c := 0; c < na; c++ {
								emit(core.Case{Fam: "filter", N: []int{f, v, a, b, c}})
							}
						}
					}
				}
			}
		}})
	}
	return lv
}

func init() {
	core.Register(&core.Check{
		ID:       "C02",
		Category: "exploration",
		// the forms that build and print ranges of a million elements three times need seconds on a busy machine
		// (seen once: > 10 s with eight other checks running on the same cores, reported as a hang)
		CaseDeadline: 60 * time.Second,
		Rule: "totality of Execute in supervised worker processes over: every binary operator x every pair of 42 context values (nil, bools, numbers incl. 1e308 / NaN / -0 / int8 min / uint64 max, strings, empty and non-empty slices, arrays, maps with string/int keys, nil maps, structs, pointers, nil pointers, time, decimal, Stringer, Number); 32 tag and expression forms consuming a value (for with and without key / inline if / else, if, set, do, include / embed / extends / use / import / from with the value as name or with-hash, block(), interpolation, literals, attribute chains, tests, callbacks, captures, macros, ranges) x every value; " +
			"method calls with every argument list of length 0..3; in the twig environment every built-in filter x every value x every argument list of length 0..2 over 12 argument values, and filter sections with every ordered pair of filters; depth-2 operator compositions over 6^3 operands. Oracle: Execute returns (output or error); no panic, process death, memory blow-up or non-termination. distinct = distinct (template, context); non-trivial = all executed cases",
		Assumptions: []string{
			"outside the claim and not generated: ranges of more than a million elements, recursive includes / macros, panics inside user callbacks",
			"inheritance chains with parent() at every level and macro arities are exercised (with panic detection) by C09 and C11",
		},
		Levels:  c02Levels,
		Run:     c02Run,
		NoDedup: true,
		Budget:  budget(5*time.Minute, 20*time.Minute),
	})
}
