package checks

import (
	"bytes"
	"errors"
	"fmt"
	"io"
	"os"
	"path/filepath"
	"strings"
	"time"

	"github.com/tyler-sommer/stick"

	"verif/core"
)

// C17 — failures are reported, never swallowed; ExecuteSafe is all-or-nothing.
// Fault enumeration (DESIGN.md section 4): for every template of a corpus, every single
// fault point of the fault-free run: the k-th write (3 flavours), the j-th load, a run-time
// error placed at every position of the template; thorough adds (write, load) fault pairs.

var c17Tpls = map[string]string{
	"base2":   "x{% block a %}a0{% endblock %}y{% block b %}b0{{ a }}{% endblock %}z",
	"mid2":    "{% extends 'base2' %}{% block a %}M{{ parent() }}{% endblock %}",
	"broken":  "x{% if %}",
	"brokenl": "x{{ $ }}",
	"incloop": "{% for v in arr %}i{{ v }}{% endfor %}",
}

var c17Extra = []CorpusItem{
	{"t1", "A{{ a }}B{% if a %}C{{ b }}{% endif %}D"},
	{"filt", "x{% filter up %}in{{ a }}side{% endfilter %}y"},
	{"filtloop", "{% for v in arr %}<{% filter up|rev %}v{{ v }}{% endfilter %}>{% endfor %}end"},
	{"filtnest", "a{% filter wrap %}b{% filter up %}c{{ a }}{% endfilter %}d{% endfilter %}e"},
	{"cap2", "{% set c %}cap{{ a }}{% endset %}1{{ c }}2{{ c }}3"},
	{"capfilt", "{% set c %}p{% filter up %}q{{ a }}{% endfilter %}r{% endset %}[{{ c }}]"},
	{"macro2", "{% macro m(x) %}<{{ x }}>{% endmacro %}a{{ _self.m(1) }}b{{ _self.m(2) }}c"},
	{"inherit", "{% extends 'base2' %}{% block a %}A{{ parent() }}{% endblock %}"},
	{"inherit3", "{% extends 'mid2' %}{% block b %}B{{ a }}{% endblock %}"},
	{"incinloop", "{% for v in arr %}[{% include 'inc' %}]{% endfor %}"},
	{"incloop", "s{% include 'incloop' %}e"},
	{"embed2", "p{% embed 'base2' %}{% block b %}E{{ a }}{% endblock %}{% endembed %}q"},
	{"blockfn2", "{% block b %}B{{ a }}{% endblock %}-{{ block('b') }}-"},
	{"fail:incbroken", "pre{% include 'broken' %}post"},
	{"fail:incbrokenl", "pre{{ a }}{% include 'brokenl' %}post"},
	{"fail:incmissing", "pre{% include 'nosuch' %}post"},
	{"fail:extmissing", "{% extends 'nosuch' %}{% block a %}{% endblock %}"},
	{"fail:rtfirst", "{{ a|nofilter }}tail"},
	{"fail:rtlast", "head{{ a }}{{ nofunc() }}"},
	{"fail:rtiter", "h{% for v in a %}x{% endfor %}t"},
	{"fail:rtmacro", "{% import 'macros' as mm %}a{{ mm.zz(1) }}b"},
	// loops over maps (single entries: the order of a map is not fixed), failures inside their bodies
	{"formap", "a{% for k, v in {'p': 1} %}b{{ k }}{{ v }}c{% endfor %}d"},
	{"formapctx", "a{% for k, v in h %}b{{ k }}{{ v }}c{% endfor %}d{% for v in h %}e{{ v }}{% endfor %}"},
	{"formapinc", "a{% for k, v in h %}[{% include 'inc' %}]{% endfor %}d"},
	{"formapnest", "a{% for r in arr %}[{% for k, x in h %}{{ x }}{% filter up %}f{{ r }}{% endfilter %}{% endfor %}]{% endfor %}b"},
	{"fail:formaprt", "a{% for k, v in h %}b{{ nofunc() }}c{% endfor %}d"},
	{"fail:formapinc", "a{% for k, v in {'p': 1} %}b{% include 'nosuch' %}c{% endfor %}d"},
	// a non-iterable sequence at every nesting: in a list loop, in a map loop, in a branch, in an else branch, in a block
	{"fail:rtiterinfor", "h{% for r in arr %}[{% for v in a %}x{% endfor %}]{% endfor %}t"},
	{"fail:rtiterinmap", "h{% for k, r in h %}[{% for v in a %}x{% endfor %}]{% endfor %}t"},
	{"fail:rtiterinif", "h{% if a %}[{% for v in a %}x{% endfor %}]{% endif %}t"},
	{"fail:rtiterinelse", "h{% for r in [] %}n{% else %}[{% for v in a %}x{% endfor %}]{% endfor %}t"},
	{"fail:rtiterinblock", "h{% block q %}{% for r in arr %}[{% for v in a %}x{% endfor %}]{% endfor %}{% endblock %}t"},
	{"fail:rtiterdeep", "h{% for r in arr %}{% for s in arr %}{% for v in a %}x{% endfor %}{% endfor %}{% endfor %}t"},
	// large outputs (80 KB and 2.4 MB values: beyond the size of any buffer a safe execution may use) before a failure
	{"bigok", "a{{ big }}b{{ big }}c"},
	{"fail:bigthenrt", "a{{ big }}b{{ big }}c{{ nofunc() }}d"},
	{"fail:bigthenmissing", "a{{ big }}{% include 'nosuch' %}d"},
	{"fail:hugethenrt", "a{{ huge }}b{{ a|nofilter }}d"},
	{"fail:biginloop", "{% for v in arr %}{{ big }}{% endfor %}{% for v in a %}{% endfor %}"},
	{"filtparent", "{% extends 'base2' %}{% block a %}{% filter up %}f{{ parent() }}{% endfilter %}{% endblock %}"},
}

func c17Corpus(tier string) []CorpusItem {
	var items []CorpusItem
	items = append(items, c17Extra...)
	// every kind of malformed template, executed directly and reached through include / extends / embed after some output
	for i, src := range c17Broken {
		items = append(items, CorpusItem{"fail:parse" + itoa(i), "pre" + src + "post"})
		switch i % 3 {
		case 0:
			items = append(items, CorpusItem{"fail:incparse" + itoa(i), "pre{{ a }}{% include 'brk" + itoa(i) + "' %}post"})
		case 1:
			items = append(items, CorpusItem{"fail:extparse" + itoa(i), "{% extends 'brk" + itoa(i) + "' %}{% block a %}x{% endblock %}"})
		default:
			items = append(items, CorpusItem{"fail:embparse" + itoa(i), "pre{% embed 'brk" + itoa(i) + "' %}{% endembed %}post"})
		}
	}
	for _, it := range corpus() {
		if strings.HasPrefix(it.Name, "expr") && !thorough(tier) {
			continue
		}
		items = append(items, it)
		if hostable(it) && !strings.HasPrefix(it.Name, "expr") {
			items = append(items, CorpusItem{it.Name + "@for", hostWrap(1, it.Src)}, CorpusItem{it.Name + "@block", hostWrap(2, it.Src)})
		}
	}
	return items
}

var errFault = errors.New("injected fault")

var c17Big = strings.Repeat("0123456789abcdef", 5000)
var c17Huge = strings.Repeat("0123456789abcdef", 150000)

// faultWriter fails at its k-th Write (1-based); flavour 0: (0, err) and persistently afterwards;
// 1: (n/2, err) and persistently afterwards; 2: fails at k only and accepts later writes.
type faultWriter struct {
	k, flavour int
	calls      int
	accepted   bytes.Buffer
	failed     bool
	afterFail  int // Write calls observed after the first failed one
	chunks     []string
}

func (w *faultWriter) Write(p []byte) (int, error) {
	w.calls++
	w.chunks = append(w.chunks, string(p))
	if w.failed {
		w.afterFail++
		if w.flavour == 2 {
			w.accepted.Write(p)
			return len(p), nil
		}
		return 0, errFault
	}
	if w.k > 0 && w.calls == w.k {
		w.failed = true
		if w.flavour == 1 {
			n := len(p) / 2
			w.accepted.Write(p[:n])
			return n, errFault
		}
		return 0, errFault
	}
	w.accepted.Write(p)
	return len(p), nil
}

// faultLoader fails at its j-th Load (1-based, 0 = never).
type faultLoader struct {
	tpls  map[string]string
	j     int
	calls int
	names []string
}

func (l *faultLoader) Load(name string) (stick.Template, error) {
	l.calls++
	l.names = append(l.names, name)
	if l.j > 0 && l.calls == l.j {
		return nil, errFault
	}
	src, ok := l.tpls[name]
	if !ok {
		return nil, errors.New("template not found: " + name)
	}
	return &memTpl{name, src}, nil
}

type memTpl struct{ name, src string }

func (t *memTpl) Name() string        { return t.name }
func (t *memTpl) Contents() io.Reader { return strings.NewReader(t.src) }

type c17Run_ struct {
	w      *faultWriter
	l      *faultLoader
	err    error
	pan    string
	marked int
}

func c17Tpls_(main string) map[string]string {
	m := map[string]string{"main": main}
	for k, v := range corpusTpls {
		m[k] = v
	}
	for k, v := range c17Tpls {
		m[k] = v
	}
	for i, src := range c17Broken {
		m["brk"+itoa(i)] = src
	}
	return m
}

func c17Exec(main string, safe bool, wk, wflav, lj int) c17Run_ {
	r := c17Run_{w: &faultWriter{k: wk, flavour: wflav}, l: &faultLoader{tpls: c17Tpls_(main), j: lj}}
	env := stick.New(r.l)
	addStdCallbacks(env)
	env.Functions["mark"] = func(ctx stick.Context, args ...stick.Value) stick.Value {
		r.marked++
		return ""
	}
	func() {
		defer func() {
			if p := recover(); p != nil {
				r.pan = panicInfo(p)
			}
		}()
		ctx := stdCtx()
		ctx["big"], ctx["huge"] = c17Big, c17Huge
		if safe {
			r.err = env.ExecuteSafe("main", r.w, ctx)
		} else {
			r.err = env.Execute("main", r.w, ctx)
		}
	}()
	return r
}

// positions outside delimiters where a print can be injected
func c17InjectSites(src string) []int {
	toks := scanTokens(src)
	var sites []int
	off := 0
	depth := 0
	for _, t := range toks {
		if depth == 0 {
			sites = append(sites, off)
		}
		switch {
		case strings.HasPrefix(t, "{{") || strings.HasPrefix(t, "{%") || strings.HasPrefix(t, "{#"):
			depth++
		case t == "}}" || t == "%}" || t == "#}" || t == "-}}" || t == "-%}" || t == "-#}":
			if depth > 0 {
				depth--
			}
		}
		off += len(t)
	}
	if depth == 0 {
		sites = append(sites, off)
	}
	return sites
}

func c17Levels(tier string) []core.Level {
	items := c17Corpus(tier)
	type base struct {
		it   CorpusItem
		W, L int
	}
	var bases []base
	prep := func() {
		if bases != nil {
			return
		}
		for _, it := range items {
			r := c17Exec(it.Src, false, 0, 0, 0)
			if r.pan != "" {
				continue // totality is C02's business; such a template has no fault-free run
			}
			bases = append(bases, base{it, r.w.calls, r.l.calls})
		}
	}
	lv := []core.Level{
		{Name: "fault-free runs: Execute vs ExecuteSafe", Gen: func(emit func(core.Case)) {
			prep()
			for _, b := range bases {
				emit(core.Case{Fam: "nofault", Src: b.it.Src, Args: []string{b.it.Name}})
			}
		}},
		{Name: "writer fails at its k-th write, for every k, 3 flavours", Gen: func(emit func(core.Case)) {
			prep()
			for _, b := range bases {
				for k := 1; k <= b.W; k++ {
					for f := 0; f < 3; f++ {
						emit(core.Case{Fam: "write", Src: b.it.Src, Args: []string{b.it.Name}, N: []int{k, f}})
					}
				}
			}
		}},
		{Name: "loader fails at its j-th load, for every j", Gen: func(emit func(core.Case)) {
			prep()
			for _, b := range bases {
				for j := 1; j <= b.L; j++ {
					emit(core.Case{Fam: "load", Src: b.it.Src, Args: []string{b.it.Name}, N: []int{j}})
				}
			}
		}},
		{Name: "loader fails once beyond the last load of a fault-free rendering (load L+1 .. 2L+2): a call that succeeds delivers everything, a call that fails a prefix (ExecuteSafe: nothing); 8 templates whose output depends on how often they are rendered (counting callbacks, root-level sets reading their own previous value): ExecuteSafe delivers Execute's bytes and calls the callbacks as often", Gen: func(emit func(core.Case)) {
			prep()
			for _, b := range bases {
				for j := b.L + 1; j <= 2*b.L+2; j++ {
					emit(core.Case{Fam: "loadlate", Src: b.it.Src, Args: []string{b.it.Name}, N: []int{j}})
				}
			}
			for i := range c17OnceTpls {
				emit(core.Case{Fam: "once", Src: c17OnceTpls[i], Args: []string{"once"}, N: []int{i}})
			}
			// histories on one environment: failing templates loaded three times (directly, included, safe); ExecuteSafe failing after 1..3, 100 complete renderings
			prep()
			for _, b := range bases {
				if strings.HasPrefix(b.it.Name, "fail:") {
					emit(core.Case{Fam: "twice", Src: b.it.Src, Args: []string{b.it.Name}})
				}
			}
			for _, src := range c17Broken {
				emit(core.Case{Fam: "twice", Src: src, Args: []string{"broken"}})
			}
			for k := 0; k < 4; k++ {
				for _, n := range []int{1, 2, 3, 100} {
					emit(core.Case{Fam: "safememo", Src: "safememo", Args: []string{"safememo"}, N: []int{k, n}})
				}
			}
			// 12 renderings cut short by a panic in a host callback: never reported as success
			for i := range c17PanicTpls {
				emit(core.Case{Fam: "hostpanic", Src: c17PanicTpls[i], Args: []string{"hostpanic"}, N: []int{i}})
			}
		}},
		{Name: "run-time error (undefined filter / undefined function / non-iterable) placed at every position", Gen: func(emit func(core.Case)) {
			prep()
			for _, b := range bases {
				for _, site := range c17InjectSites(b.it.Src) {
					for kind := 0; kind < 3; kind++ {
						emit(core.Case{Fam: "rt", Src: b.it.Src, Args: []string{b.it.Name}, N: []int{site, kind}})
					}
				}
			}
		}},
	}
	lv = append(lv, core.Level{Name: "run-time error (7 kinds: undeclared function / filter / test, modulo by zero, membership in a number / a struct, a pattern that does not compile) inside an expression position of every tag kind: with-hashes, template names, conditions, sequences, arguments, captures, macro bodies", Gen: func(emit func(core.Case)) {
		for i := range c17ArgForms {
			for k := range c17ErrExprs {
				emit(core.Case{Fam: "rtarg", N: []int{i, k}})
			}
		}
	}})
	lv = append(lv, core.Level{Name: "filesystem loader: 9 names it cannot deliver (directories, empty name, missing files, a path below a file) x 8 ways to reach them (direct, include, extends, embed, import, use, from, include of a variable) x {Execute, ExecuteSafe}", Gen: func(emit func(core.Case)) {
		for n := 0; n < 9; n++ {
			for v := 0; v < 8; v++ {
				emit(core.Case{Fam: "fs", N: []int{n, v}})
			}
		}
	}})
	if thorough(tier) {
		lv = append(lv, core.Level{Name: "pairs: writer fails at k and loader fails at j", Gen: func(emit func(core.Case)) {
			prep()
			for _, b := range bases {
				for k := 1; k <= b.W; k++ {
					for j := 1; j <= b.L; j++ {
						emit(core.Case{Fam: "pair", Src: b.it.Src, Args: []string{b.it.Name}, N: []int{k, j}})
					}
				}
			}
		}})
	}
	return lv
}

// c17ArgForms: a run-time error placed inside an expression position of every tag kind (ERR is replaced by
// a call of an undefined function; the probe run uses the marker function instead)
var c17ArgForms = []string{
	"a{% include 'inc' with {'a': ERR} %}b",
	"a{% include 'inc' with ERR %}b",
	"a{% include 'inc' with ERR only %}b",
	"a{% include ERR %}b",
	"a{% embed 'base2' with {'a': ERR} %}{% endembed %}b",
	"a{% embed 'base2' with ERR only %}{% block a %}o{% endblock %}{% endembed %}b",
	"{% extends ERR %}{% block a %}x{% endblock %}",
	"{% extends 'base2' %}{% use ERR %}",
	"a{% import ERR as mm %}b",
	"a{% from ERR import m %}b",
	"a{% set x = ERR %}b{{ x }}",
	"a{% set x = [1, ERR] %}b",
	"a{% set x = {'k': ERR} %}b",
	"a{% do ERR %}b",
	"a{% if ERR %}y{% else %}n{% endif %}b",
	"a{% if false %}y{% elseif ERR %}e{% endif %}b",
	"a{% for v in ERR %}x{% endfor %}b",
	"a{% for v in [1, 2] if ERR %}x{% endfor %}b",
	"a{{ f(ERR) }}b",
	"a{{ a|wrap(ERR) }}b",
	"a{{ ERR|up }}b",
	"a{{ a is divisible by(ERR) }}b",
	"a{{ a ? ERR : 1 }}b",
	"a{{ \"x#{ERR}y\" }}b",
	"a{{ arr[ERR] }}b",
	"a{{ obj.Add(ERR, 1) }}b",
	"{% macro m(x) %}<{{ x }}>{% endmacro %}a{{ _self.m(ERR) }}b",
	"{% import 'macros' as mm %}a{{ mm.m(ERR) }}b",
	"{% macro m(x) %}<{{ ERR }}>{% endmacro %}a{{ _self.m(1) }}b",
	"{% macro m(x) %}<{% include 'inc' with {'a': ERR} %}>{% endmacro %}a{{ _self.m(1) }}b",
	"a{% filter up %}x{{ ERR }}{% endfilter %}b",
	"a{% set c %}x{{ ERR }}{% endset %}b{{ c }}",
	"a{% block b %}{{ block(ERR) }}{% endblock %}b",
	"a{{ a + ERR * 2 }}b{{ not ERR }}",
	"a{{ ERR .. 3 }}b",
	// the failing expression as the first or a middle one of several arguments / elements; the later ones are fine
	"a{{ f(ERR, 1) }}b",
	"a{{ f(1, ERR, 2) }}b",
	"a{{ f(1, 2, ERR) }}b",
	"a{{ a|wrap(ERR, 1) }}b",
	"a{{ a is divisible by(ERR, 1) }}b",
	"{% from 'macros' import m %}a{{ m(ERR, 1) }}b",
	"{% from 'macros' import m as mm2 %}a{{ mm2(ERR, 1, 2) }}b",
	"{% import 'macros' as mm %}a{{ mm.m(ERR, 1) }}b",
	"{% macro m(x, y) %}<{{ x }}{{ y }}>{% endmacro %}a{{ _self.m(ERR, 1) }}b",
	"{% macro m(x, y) %}<{{ x }}{{ y }}>{% endmacro %}a{{ _self.m(1, ERR, 2) }}b",
	"a{{ [ERR, 1]|up }}b",
	"a{{ {'k': ERR, 'j': 1}.j }}b",
	"a{{ \"x#{ERR}y#{1}z\" }}b",
	"a{% include 'inc' with {'a': ERR, 'b': 1} %}b",
	"a{{ obj.Add(1, ERR) }}b",
}

// c17RunFS: names that the filesystem loader cannot deliver (directories, the empty name, missing files, a path
// below a regular file), reached directly and through every tag that loads a template: Execute fails, what it wrote
// is a prefix of nothing more than the text before the tag, ExecuteSafe writes nothing.
func c17RunFS(c core.Case) core.Result {
	dir := filepath.Join(core.WorkDir, "c17fs")
	if core.WorkDir == "" {
		dir, _ = os.MkdirTemp("", "c17fs")
	}
	os.MkdirAll(filepath.Join(dir, "sub"), 0o755)
	os.WriteFile(filepath.Join(dir, "valid.twig"), []byte("V{% block a %}va{% endblock %}"), 0o644)
	os.WriteFile(filepath.Join(dir, "sub", "in.twig"), []byte("IN"), 0o644)
	bad := []string{"", ".", "sub", "sub/", "nosuch.twig", "sub/nosuch.twig", "valid.twig/x", "..", "sub/.."}[c.N[0]]
	vias := []string{"direct", "pre{%% include '%s' %%}post", "{%% extends '%s' %%}{%% block a %%}x{%% endblock %%}", "pre{%% embed '%s' %%}{%% endembed %%}post",
		"pre{%% import '%s' as m %%}post", "{%% extends 'valid.twig' %%}{%% use '%s' %%}", "pre{%% from '%s' import m %%}post", "pre{%% include nameVar %%}post"}
	via := vias[c.N[1]]
	entry := bad
	if via != "direct" {
		entry = "main.twig"
		src := via
		if strings.Contains(via, "%s") {
			src = fmt.Sprintf(via, bad)
		}
		os.WriteFile(filepath.Join(dir, entry), []byte(src), 0o644)
	}
	for _, safe := range []bool{false, true} {
		env := stick.New(stick.NewFilesystemLoader(dir))
		w := &faultWriter{}
		var err error
		pan := ""
		func() {
			defer func() {
				if p := recover(); p != nil {
					pan = panicInfo(p)
				}
			}()
			ctx := map[string]stick.Value{"nameVar": bad}
			if safe {
				err = env.ExecuteSafe(entry, w, ctx)
			} else {
				err = env.Execute(entry, w, ctx)
			}
		}()
		desc := fmt.Sprintf("filesystem loader, name %q reached via %q (safe=%v)", bad, via, safe)
		if pan != "" {
			return core.Violation("panic", desc+" panicked: "+pan)
		}
		if err == nil {
			return core.Violation("error-swallowed", fmt.Sprintf("%s: the template cannot be loaded but nil was returned; written: %q", desc, w.accepted.String()))
		}
		if got := w.accepted.String(); got != "" && got != "pre" {
			return core.Violation("not-a-prefix", fmt.Sprintf("%s: wrote %q", desc, got))
		}
		if safe && w.calls != 0 {
			return core.Violation("safe-wrote-on-failure", fmt.Sprintf("%s: ExecuteSafe wrote %q", desc, w.chunks))
		}
	}
	return core.Okay(true, "err")
}

// c17ErrExprs: the kinds of run-time error an expression can raise: an undeclared function, filter or test, modulo by
// zero, membership in something that cannot be traversed (the error of a for loop over it), a pattern that does not compile
var c17ErrExprs = []string{"nofunc()", "(1 % 0)", "(a|nofilter)", "(a is nosuchtest)", "(1 in 5)", "('k' not in obj)", "('x' matches '[')"}

func c17RunArg(c core.Case) core.Result {
	form := c17ArgForms[c.N[0]]
	errExpr := c17ErrExprs[c.N[1]]
	p := c17Exec(strings.ReplaceAll(form, "ERR", "mark()"), false, 0, 0, 0)
	if p.pan != "" {
		return core.Skipped("probe-panics")
	}
	mut := strings.ReplaceAll(form, "ERR", errExpr)
	r := c17Exec(mut, false, 0, 0, 0)
	if r.pan != "" {
		return core.Violation("panic", fmt.Sprintf("%q panicked: %s", mut, r.pan))
	}
	if p.marked == 0 {
		r := core.Okay(false, "not-executed")
		r.Cnt = map[string]int64{"rtarg_position_not_evaluated": 1}
		return r
	}
	if r.err == nil {
		return core.Violation("error-swallowed", fmt.Sprintf("%q: the failing expression is evaluated (the marker in its place is called %d times) but Execute returned nil and wrote %q", mut, p.marked, r.w.accepted.String()))
	}
	if p.err == nil && !strings.HasPrefix(p.w.accepted.String(), r.w.accepted.String()) {
		return core.Violation("not-a-prefix", fmt.Sprintf("%q wrote %q, not a prefix of %q", mut, r.w.accepted.String(), p.w.accepted.String()))
	}
	s := c17Exec(mut, true, 0, 0, 0)
	if s.pan != "" {
		return core.Violation("panic", "ExecuteSafe panicked: "+s.pan)
	}
	if s.err == nil || s.w.calls != 0 {
		return core.Violation("safe-wrote-on-failure", fmt.Sprintf("ExecuteSafe of %q: err=%v, wrote %q", mut, s.err, s.w.chunks))
	}
	res := core.Okay(true, r.w.accepted.String())
	res.Cnt = map[string]int64{"rtarg_error_returned": 1}
	return res
}

// c17PanicTpls: renderings cut short by a panic in a host callback (function, filter, test, String method), at the top
// level and inside loops, includes, macros, captures and blocks
var c17PanicTpls = []string{
	"a{{ boom() }}b", "a{{ x|boomf }}b", "a{% if x is boomt %}y{% endif %}b", "a{{ bs }}b", "a{{ bs ~ 'x' }}b",
	"a{% for i in l %}{{ i }}{{ boom() }}{% endfor %}b", "a{% include 'inc' %}{{ boom() }}b", "{% macro m(q) %}{{ boom() }}{% endmacro %}a{{ _self.m(1) }}b",
	"a{% set c %}x{{ boom() }}{% endset %}b{{ c }}", "{% extends 'base2' %}{% block a %}o{{ boom() }}{% endblock %}", "a{% filter boomf %}x{% endfilter %}b", "a{{ f(boom()) }}b",
}

type c17BoomStringer struct{}

func (c17BoomStringer) String() string { panic("boom in a String method") }

// c17OnceTpls: templates whose output depends on how often they are rendered with the same environment and context
var c17OnceTpls = []string{
	"a{{ count() }}b",
	"{% set n = n + 1 %}{{ n }}",
	"{% set n = n + 1 %}before|{% if n > 2 %}{{ n % 0 }}{% endif %}after",
	"{{ count() }}{% if count() > 2 %}{{ nofunc() }}{% endif %}x",
	"{% for i in l %}{{ count() }},{% endfor %}{% include 'inc' %}{{ count() }}",
	"{% set s = s ~ 'x' %}{{ s }}{% set l = l|length %}{{ l }}",
	"{% extends 'base2' %}{% block a %}{{ count() }}{% set n = n * 2 %}{{ n }}{% endblock %}",
	"{% set n = n + 1 %}{% include 'inc' with {'a': n} %}{{ n }}",
}

var c17RtForms = []string{"{{ a|nofilter }}", "{{ nofunc() }}", "{% for qq in 5 %}{% endfor %}"}
var c17MarkForm = "{{ mark() }}"

func c17Run(c core.Case) core.Result {
	if c.Fam == "rtarg" {
		return c17RunArg(c)
	}
	if c.Fam == "fs" {
		return c17RunFS(c)
	}
	ref := c17Exec(c.Src, false, 0, 0, 0)
	if ref.pan != "" {
		return core.Skipped("fault-free-run-panics")
	}
	full := ref.w.accepted.String()
	name := c.Args[0]
	checkPrefix := func(what string, r c17Run_, want string) *core.Result {
		if r.pan != "" {
			v := core.Violation("panic", fmt.Sprintf("%s of %q panicked: %s", what, name, r.pan))
			return &v
		}
		got := r.w.accepted.String()
		if !strings.HasPrefix(want, got) {
			v := core.Violation("not-a-prefix", fmt.Sprintf("%s of %q (%s): the writer accepted %q, which is not a prefix of the successful output %q", what, name, c.Src, got, want))
			return &v
		}
		if r.w.afterFail > 0 {
			v := core.Violation("write-after-failure", fmt.Sprintf("%s of %q (%s): %d Write call(s) after the failed write; chunks %q", what, name, c.Src, r.w.afterFail, r.w.chunks))
			return &v
		}
		return nil
	}
	switch c.Fam {
	case "nofault":
		if strings.HasPrefix(name, "fail:") && ref.err == nil {
			return core.Violation("error-swallowed", fmt.Sprintf("%q (%s) cannot be parsed, loaded or executed to the end, but Execute returned nil and wrote %q", name, c.Src, full))
		}
		s := c17Exec(c.Src, true, 0, 0, 0)
		if s.pan != "" {
			return core.Violation("panic", "ExecuteSafe panicked: "+s.pan)
		}
		if (ref.err == nil) != (s.err == nil) {
			return core.Violation("safe-differs", fmt.Sprintf("%q: Execute error %v, ExecuteSafe error %v", name, ref.err, s.err))
		}
		if ref.err == nil && s.w.accepted.String() != full {
			return core.Violation("safe-differs", fmt.Sprintf("%q: ExecuteSafe delivered %q, Execute %q", name, s.w.accepted.String(), full))
		}
		if ref.err != nil && s.w.calls != 0 {
			return core.Violation("safe-wrote-on-failure", fmt.Sprintf("%q (%s): rendering failed (%v) but ExecuteSafe wrote %q", name, c.Src, ref.err, s.w.chunks))
		}
		return core.Okay(true, full+errStr(ref.err))
	case "write":
		k, f := c.N[0], c.N[1]
		r := c17Exec(c.Src, false, k, f, 0)
		if v := checkPrefix(fmt.Sprintf("Execute with the writer failing at write %d (flavour %d)", k, f), r, full); v != nil {
			return *v
		}
		if r.w.failed && r.err == nil {
			return core.Violation("error-swallowed", fmt.Sprintf("Execute of %q (%s): write %d of %d failed (chunk %q) but Execute returned nil", name, c.Src, k, ref.w.calls, r.w.chunks[k-1]))
		}
		// ExecuteSafe with the same writer plan: rendering succeeds or fails as without the fault
		s := c17Exec(c.Src, true, k, f, 0)
		if v := checkPrefix("ExecuteSafe with the same writer", s, full); v != nil {
			return *v
		}
		if ref.err != nil && s.w.calls != 0 {
			return core.Violation("safe-wrote-on-failure", fmt.Sprintf("%q: rendering fails (%v) but ExecuteSafe wrote %q", name, ref.err, s.w.chunks))
		}
		if s.w.failed && s.err == nil {
			return core.Violation("error-swallowed", fmt.Sprintf("ExecuteSafe of %q: the destination write failed but nil was returned", name))
		}
		return core.Okay(true, fmt.Sprint(r.w.accepted.String(), r.err != nil))
	case "load":
		j := c.N[0]
		r := c17Exec(c.Src, false, 0, 0, j)
		if v := checkPrefix(fmt.Sprintf("Execute with the loader failing at load %d", j), r, full); v != nil {
			return *v
		}
		if r.err == nil {
			return core.Violation("error-swallowed", fmt.Sprintf("Execute of %q (%s): load %d (%v) failed but Execute returned nil", name, c.Src, j, r.l.names))
		}
		s := c17Exec(c.Src, true, 0, 0, j)
		if s.pan != "" {
			return core.Violation("panic", "ExecuteSafe panicked: "+s.pan)
		}
		if s.err == nil || s.w.calls != 0 {
			return core.Violation("safe-wrote-on-failure", fmt.Sprintf("ExecuteSafe of %q with load %d failing: err=%v, wrote %q", name, j, s.err, s.w.chunks))
		}
		return core.Okay(true, fmt.Sprint(r.w.accepted.String(), j))
	case "twice":
		// the same failing template loaded again on the same environment (directly, through include, through
		// ExecuteSafe): it fails every time, and what is written is a prefix every time
		tpls := c17Tpls_(c.Src)
		tpls["wrap"] = "w[{% include 'main' %}]"
		env := stick.New(&stick.MemoryLoader{Templates: tpls})
		addStdCallbacks(env)
		firstOut := map[string]string{}
		for round := 1; round <= 3; round++ {
			for _, entry := range []string{"main", "wrap"} {
				for _, safe := range []bool{false, true} {
					var buf bytes.Buffer
					var err error
					pan := ""
					func() {
						defer func() {
							if p := recover(); p != nil {
								pan = panicInfo(p)
							}
						}()
						if safe {
							err = env.ExecuteSafe(entry, &buf, stdCtx())
						} else {
							err = env.Execute(entry, &buf, stdCtx())
						}
					}()
					if pan != "" {
						return core.Violation("panic", fmt.Sprintf("%q (%s, safe=%v, round %d) panicked: %s", c.Src, entry, safe, round, pan))
					}
					if err == nil {
						return core.Violation("error-swallowed", fmt.Sprintf("%q cannot be parsed or executed to the end; loaded for the %d. time on one environment (%s, safe=%v) it returns nil and writes %q", c.Src, round, entry, safe, buf.String()))
					}
					if safe && buf.Len() > 0 {
						return core.Violation("safe-wrote-on-failure", fmt.Sprintf("ExecuteSafe of %q (%s, round %d) wrote %q", c.Src, entry, round, buf.String()))
					}
					key := fmt.Sprint(entry, safe)
					if round == 1 {
						firstOut[key] = buf.String()
					} else if buf.String() != firstOut[key] {
						return core.Violation("not-a-prefix", fmt.Sprintf("%q (%s, safe=%v): round 1 wrote %q, round %d wrote %q", c.Src, entry, safe, firstOut[key], round, buf.String()))
					}
				}
			}
		}
		return core.Okay(true, "fails-every-time")
	case "safememo":
		// ExecuteSafe on one environment: complete renderings first, then the same template failing (another context
		// value, an included template gone from the loader, a host function that fails now): nothing is written
		k := c.N[0]
		tpls := map[string]string{"inc": "I", "main": []string{
			"before|{{ 10 / d }}|{% if d == 0 %}{{ 1 % d }}{% endif %}after",
			"a{% for i in l %}{{ i }}{% endfor %}{% include 'inc' %}b",
			"x{{ flaky() }}y{{ flaky() }}z",
			"{% extends 'base2' %}{% block a %}o{{ 10 // d }}{% if d == 0 %}{{ nofunc() }}{% endif %}{% endblock %}",
		}[k], "base2": "B<{% block a %}{% endblock %}>"}
		failNow := false
		env := stick.New(&stick.MemoryLoader{Templates: tpls})
		env.Functions["flaky"] = func(ctx stick.Context, args ...stick.Value) stick.Value {
			if failNow {
				panic("flaky host function")
			}
			return "f"
		}
		run := func(ctx map[string]stick.Value) (string, error, bool) {
			var buf bytes.Buffer
			var err error
			panicked := false
			func() {
				defer func() {
					if recover() != nil {
						panicked = true
					}
				}()
				err = env.ExecuteSafe("main", &buf, ctx)
			}()
			return buf.String(), err, panicked
		}
		okCtx := map[string]stick.Value{"d": 2, "l": []stick.Value{1, 2}}
		var first string
		for i := 0; i < c.N[1]; i++ {
			out, err, pn := run(okCtx)
			if err != nil || pn {
				return core.Violation("error", fmt.Sprintf("%q with %v: %v", tpls["main"], okCtx, err))
			}
			if i == 0 {
				first = out
			} else if out != first {
				return core.Violation("safe-differs", fmt.Sprintf("ExecuteSafe of %q: rendering %d gives %q, the first %q", tpls["main"], i+1, out, first))
			}
		}
		badCtx := map[string]stick.Value{"d": 0, "l": 5}
		switch k {
		case 1:
			delete(tpls, "inc")
			badCtx = okCtx
		case 2:
			failNow = true
			badCtx = okCtx
		}
		out, err, pn := run(badCtx)
		if err == nil && !pn {
			return core.Violation("error-swallowed", fmt.Sprintf("ExecuteSafe of %q after %d complete renderings: the failing call returned nil and wrote %q", tpls["main"], c.N[1], out))
		}
		if out != "" {
			return core.Violation("safe-wrote-on-failure", fmt.Sprintf("ExecuteSafe of %q: after %d complete renderings on the same environment a failing call (%v) wrote %q", tpls["main"], c.N[1], err, out))
		}
		return core.Okay(true, "nothing-written")
	case "hostpanic":
		// a callback of the host panics in the middle of a rendering: the panic reaches the caller or is reported as an
		// error - the call never returns nil as if the (truncated) output were complete
		tpl := c17PanicTpls[c.N[0]]
		for _, safe := range []bool{false, true} {
			env := stick.New(&stick.MemoryLoader{Templates: c17Tpls_(tpl)})
			addStdCallbacks(env)
			env.Functions["boom"] = func(ctx stick.Context, args ...stick.Value) stick.Value { panic("boom in a host function") }
			env.Filters["boomf"] = func(ctx stick.Context, val stick.Value, args ...stick.Value) stick.Value {
				panic("boom in a host filter")
			}
			env.Tests["boomt"] = func(ctx stick.Context, val stick.Value, args ...stick.Value) bool { panic("boom in a host test") }
			var buf bytes.Buffer
			var err error
			panicked := false
			func() {
				defer func() {
					if p := recover(); p != nil {
						panicked = true
					}
				}()
				ctx := map[string]stick.Value{"x": 1, "bs": c17BoomStringer{}, "l": []stick.Value{1, 2}}
				if safe {
					err = env.ExecuteSafe("main", &buf, ctx)
				} else {
					err = env.Execute("main", &buf, ctx)
				}
			}()
			if !panicked && err == nil {
				return core.Violation("error-swallowed", fmt.Sprintf("%q (safe=%v): a host callback panicked while rendering, yet the call returned nil after writing %q", tpl, safe, buf.String()))
			}
			if safe && buf.Len() != 0 {
				return core.Violation("safe-wrote-on-failure", fmt.Sprintf("ExecuteSafe of %q wrote %q although rendering was cut short by a panic", tpl, buf.String()))
			}
		}
		return core.Okay(true, "panic-reported")
	case "loadlate":
		// the loader fails at a load that a single rendering never reaches: a call that succeeds delivers the complete
		// output, one that fails (an implementation may load more often) delivers a prefix - nothing, for ExecuteSafe
		j := c.N[0]
		if ref.err != nil {
			return core.Skipped("self-failing")
		}
		for _, safe := range []bool{false, true} {
			r := c17Exec(c.Src, safe, 0, 0, j)
			if r.pan != "" {
				return core.Violation("panic", fmt.Sprintf("safe=%v panicked: %s", safe, r.pan))
			}
			got := r.w.accepted.String()
			if r.err != nil && safe && r.w.calls != 0 {
				return core.Violation("safe-wrote-on-failure", fmt.Sprintf("ExecuteSafe of %q with the loader failing at load %d (a fault-free rendering makes %d loads): err=%v after writing %q", name, j, ref.l.calls, r.err, r.w.chunks))
			}
			if r.err != nil {
				// an implementation that loads more often than once per template may fail here; what it wrote is then a prefix (nothing, for ExecuteSafe)
				if !strings.HasPrefix(full, got) {
					return core.Violation("not-a-prefix", fmt.Sprintf("safe=%v: %q with the loader failing at load %d returns %v after writing %q, not a prefix of %q", safe, name, j, r.err, got, full))
				}
				continue
			}
			if got != full {
				return core.Violation("not-a-prefix", fmt.Sprintf("safe=%v: %q with the loader failing at load %d (a fault-free rendering makes %d loads) returns nil and writes %q, want %q", safe, name, j, ref.l.calls, got, full))
			}
		}
		return core.Okay(true, "late-load")
	case "once":
		// ExecuteSafe renders once: stateful callbacks are called as often as by Execute, a root-level set that reads
		// its own previous value sees the same value, and the bytes delivered are Execute's
		tpl := c17OnceTpls[c.N[0]]
		run := func(safe bool) (string, error, int, string) {
			calls := 0
			env := stick.New(&stick.MemoryLoader{Templates: c17Tpls_(tpl)})
			addStdCallbacks(env)
			env.Functions["count"] = func(ctx stick.Context, args ...stick.Value) stick.Value {
				calls++
				return calls
			}
			var buf bytes.Buffer
			var err error
			pan := ""
			func() {
				defer func() {
					if p := recover(); p != nil {
						pan = panicInfo(p)
					}
				}()
				ctx := map[string]stick.Value{"n": 1, "s": "s", "l": []stick.Value{1, 2}}
				if safe {
					err = env.ExecuteSafe("main", &buf, ctx)
				} else {
					err = env.Execute("main", &buf, ctx)
				}
			}()
			return buf.String(), err, calls, pan
		}
		o1, e1, c1, p1 := run(false)
		o2, e2, c2, p2 := run(true)
		if p1 != "" || p2 != "" {
			return core.Violation("panic", fmt.Sprintf("%q panicked: %s %s", tpl, p1, p2))
		}
		if e1 != nil {
			if e2 == nil || o2 != "" {
				return core.Violation("safe-wrote-on-failure", fmt.Sprintf("%q: Execute fails (%v) but ExecuteSafe returns %v and writes %q", tpl, e1, e2, o2))
			}
			return core.Okay(true, "fails")
		}
		if e2 != nil || o2 != o1 {
			return core.Violation("safe-differs", fmt.Sprintf("%q: Execute writes %q, ExecuteSafe on the same inputs returns %v and writes %q", tpl, o1, e2, o2))
		}
		if c1 != c2 {
			return core.Violation("safe-differs", fmt.Sprintf("%q: Execute calls the function %d time(s), ExecuteSafe %d time(s)", tpl, c1, c2))
		}
		return core.Okay(true, o1)
	case "rt":
		site, kind := c.N[0], c.N[1]
		if site > len(c.Src) {
			return core.Skipped("site")
		}
		probe := c.Src[:site] + c17MarkForm + c.Src[site:]
		p := c17Exec(probe, false, 0, 0, 0)
		if p.pan != "" {
			return core.Skipped("probe-panics")
		}
		mut := c.Src[:site] + c17RtForms[kind] + c.Src[site:]
		r := c17Exec(mut, false, 0, 0, 0)
		// the marked template's own successful output is the reference (mark() prints nothing)
		want := p.w.accepted.String()
		if p.err != nil {
			// the template fails on its own before/after the site: only the prefix law applies
			if v := checkPrefix("Execute with a run-time error injected", r, want); v != nil && v.Why != "not-a-prefix" {
				return *v
			}
			return core.Okay(false, "self-failing")
		}
		if p.marked == 0 {
			// the position is not executed (dead branch, child text outside blocks, verbatim body): nothing to claim
			return core.Okay(false, "not-executed")
		}
		if v := checkPrefix(fmt.Sprintf("Execute with %s injected at offset %d", c17RtForms[kind], site), r, want); v != nil {
			return *v
		}
		if p.marked > 0 && r.err == nil {
			return core.Violation("error-swallowed", fmt.Sprintf("%q with %s injected at offset %d (%s): the position is executed (%d times) but Execute returned nil and wrote %q", name, c17RtForms[kind], site, mut, p.marked, r.w.accepted.String()))
		}
		if p.marked == 0 && r.err != nil {
			return core.Okay(false, "parse-or-other-error")
		}
		s := c17Exec(mut, true, 0, 0, 0)
		if s.pan != "" {
			return core.Violation("panic", "ExecuteSafe panicked: "+s.pan)
		}
		if r.err != nil && (s.err == nil || s.w.calls != 0) {
			return core.Violation("safe-wrote-on-failure", fmt.Sprintf("ExecuteSafe of %q with %s at offset %d: err=%v, wrote %q", name, c17RtForms[kind], site, s.err, s.w.chunks))
		}
		if r.err == nil && s.w.accepted.String() != r.w.accepted.String() {
			return core.Violation("safe-differs", fmt.Sprintf("%q: ExecuteSafe delivered %q, Execute %q", name, s.w.accepted.String(), r.w.accepted.String()))
		}
		return core.Okay(p.marked > 0, fmt.Sprint(r.w.accepted.String(), r.err != nil))
	case "pair":
		k, j := c.N[0], c.N[1]
		r := c17Exec(c.Src, false, k, 0, j)
		if v := checkPrefix(fmt.Sprintf("Execute with write %d and load %d failing", k, j), r, full); v != nil {
			return *v
		}
		if (r.w.failed || r.l.calls >= j) && r.err == nil {
			return core.Violation("error-swallowed", fmt.Sprintf("Execute of %q: write %d / load %d failed but nil was returned", name, k, j))
		}
		return core.Okay(true, fmt.Sprint(r.w.accepted.String(), r.err != nil))
	}
	return core.Skipped("unknown-family")
}

func init() {
	core.Register(&core.Check{
		ID:       "C17",
		Category: "fault_enumeration",
		Rule: "for every template of a corpus (text/prints at every nesting, filter sections, captures, includes, embeds, inheritance, macros, broken and missing includes; tag corpus also nested in a for and a block body): the fault-free run records W writes and L loads; then every single fault: " +
			"writer failing at write k=1..W in 3 flavours (persistent zero-byte, partial write, fails once then accepts: exposes writes after a failure), loader failing at load j=1..L, a run-time error of 3 kinds injected at every position outside delimiters and inside an expression position of every tag kind (with-hash, template name, condition, sequence, argument, capture, macro body; a probe run with a marker function tells whether the position is executed); thorough adds all (k, j) pairs. " +
			"Oracle: Execute returns an error; accepted bytes are a prefix of the fault-free output; no Write after a failed one; ExecuteSafe writes nothing when rendering fails and is byte-identical to Execute otherwise. distinct = distinct (template, fault plan); non-trivial = the fault point is reached",
		Assumptions: []string{"the corpus is finite (about 150 templates); faults are single (pairs in the thorough tier)"},
		Levels:      c17Levels,
		Run:         c17Run,
		Budget:      budget(4*time.Minute, 15*time.Minute),
	})
}
