package checks

import (
	"fmt"
	"github.com/tyler-sommer/stick/twig"
	"math"
	"regexp"
	"strconv"
	"strings"
	"time"

	"github.com/shopspring/decimal"
	"github.com/tyler-sommer/stick"

	"verif/core"
)

// C05 — expressions evaluate to the documented values. A small reference evaluator defines the
// value of an expression only inside the region where stick's documented coercions and Twig agree
// (DESIGN.md appendix A); everything else is "unspecified" (skipped and counted by reason).

const (
	vNull = iota
	vBool
	vNum
	vStr
	vArr
	vHash
)

type rv struct {
	k   int
	n   float64
	s   string
	b   bool
	arr []rv
	hk  []string
	hv  []rv
}

func rNum(n float64) rv        { return rv{k: vNum, n: n} }
func rStr(s string) rv         { return rv{k: vStr, s: s} }
func rBool(b bool) rv          { return rv{k: vBool, b: b} }
func rArr(a ...rv) rv          { return rv{k: vArr, arr: a} }
func rHash1(k string, v rv) rv { return rv{k: vHash, hk: []string{k}, hv: []rv{v}} }

type unspec struct{ why string }

func bail(why string) { panic(unspec{why}) }

// printable numbers: finite, |x| < 1e6, not negative zero, at most 6 fractional digits in shortest form
func numStr(x float64) string {
	if math.IsNaN(x) || math.IsInf(x, 0) {
		bail("inf-nan")
	}
	if x == 0 && math.Signbit(x) {
		bail("neg-zero")
	}
	if math.Abs(x) >= 1e6 {
		bail("abs>=1e6")
	}
	s := strconv.FormatFloat(x, 'f', -1, 64)
	if i := strings.IndexByte(s, '.'); i >= 0 && len(s)-i-1 > 6 {
		bail("float-not-dyadic")
	}
	if x != 0 && math.Abs(x) < 1e-4 {
		bail("float-not-dyadic")
	}
	return s
}

var canonNum = regexp.MustCompile(`^-?(0|[1-9][0-9]*)(\.[0-9]*[1-9])?$`)

func (v rv) str() string {
	switch v.k {
	case vNull:
		return ""
	case vBool:
		if v.b {
			return "1"
		}
		return ""
	case vNum:
		return numStr(v.n)
	case vStr:
		return v.s
	}
	bail("array-to-string")
	return ""
}

func (v rv) num(why string) float64 {
	switch v.k {
	case vNull:
		return 0
	case vBool:
		if v.b {
			return 1
		}
		return 0
	case vNum:
		return v.n
	case vStr:
		if canonNum.MatchString(v.s) {
			f, _ := strconv.ParseFloat(v.s, 64)
			return f
		}
	}
	bail(why)
	return 0
}

func (v rv) truthy() bool {
	switch v.k {
	case vNull:
		return false
	case vBool:
		return v.b
	case vNum:
		if v.n < 0 {
			bail("truthy-negative")
		}
		return v.n > 0
	case vStr:
		if v.s == "0" {
			bail("truthy-string-0")
		}
		return v.s != ""
	}
	bail("truthy-array")
	return false
}

func rEqual(a, b rv) bool {
	// negative zero is outside the comparison region: stick compares the string forms ("-0" / "0"), Twig the numbers
	for _, v := range []rv{a, b} {
		if v.k == vNum && v.n == 0 && math.Signbit(v.n) {
			bail("neg-zero")
		}
	}
	switch {
	case a.k == vNum && b.k == vNum:
		return a.n == b.n
	case a.k == vStr && b.k == vStr:
		return a.s == b.s
	case a.k == vBool && b.k == vBool:
		return a.b == b.b
	case a.k == vNull && b.k == vNull:
		return true
	case a.k == vNum && b.k == vStr && canonNum.MatchString(b.s):
		return numStr(a.n) == b.s
	case a.k == vStr && b.k == vNum && canonNum.MatchString(a.s):
		return numStr(b.n) == a.s
	case (a.k == vNull && b.k == vBool && !b.b) || (b.k == vNull && a.k == vBool && !a.b):
		return true
	}
	bail("eq-mixed-types")
	return false
}

func cmpOperand(v rv) float64 {
	if v.k == vNum || (v.k == vStr && canonNum.MatchString(v.s)) {
		return v.num("cmp-non-numeric")
	}
	bail("cmp-non-numeric")
	return 0
}

func bitOperand(v rv) int {
	if v.k != vNum || v.n != math.Trunc(v.n) || v.n < 0 || v.n >= 1<<31 {
		bail("bitwise-operand")
	}
	return int(v.n)
}

// expression terms
type cx struct {
	kind string // lit name un bin tern arr hash dot idx call filt test interp
	op   string
	v    rv     // literal value / bound value for names
	src  string // literal source / name
	kids []*cx
}

func (e *cx) print() string {
	p := func(k *cx) string {
		switch k.kind {
		case "lit", "name", "arr", "hash", "hashp", "call", "interp":
			return k.print()
		}
		return "(" + k.print() + ")"
	}
	switch e.kind {
	case "lit", "name":
		return e.src
	case "un":
		return e.op + " " + p(e.kids[0])
	case "bin":
		return p(e.kids[0]) + " " + e.op + " " + p(e.kids[1])
	case "tern":
		return p(e.kids[0]) + " ? " + p(e.kids[1]) + " : " + p(e.kids[2])
	case "arr":
		var parts []string
		for _, k := range e.kids {
			parts = append(parts, k.print())
		}
		return "[" + strings.Join(parts, ", ") + "]"
	case "hash":
		return "{" + e.op + ": " + e.kids[0].print() + "}"
	case "hashp": // the key is an expression in parentheses: the value of the variable kn
		return "{(kn): " + e.kids[0].print() + ", (kn ~ '2'): 'second'}"
	case "dot":
		return p(e.kids[0]) + "." + e.op
	case "idx":
		return p(e.kids[0]) + "[" + e.kids[1].print() + "]"
	case "call", "filt", "test":
		var parts []string
		first := 0
		if e.kind != "call" {
			first = 1
		}
		for _, k := range e.kids[first:] {
			parts = append(parts, k.print())
		}
		args := "(" + strings.Join(parts, ", ") + ")"
		switch e.kind {
		case "call":
			return e.op + args
		case "filt":
			if len(parts) == 0 {
				args = ""
			}
			return p(e.kids[0]) + "|" + e.op + args
		default:
			if len(parts) == 0 {
				args = ""
			}
			return p(e.kids[0]) + " is " + e.op + args
		}
	case "interp":
		s := "\""
		for _, k := range e.kids {
			if k.kind == "lit" && k.v.k == vStr {
				s += k.v.s
			} else {
				s += "#{" + k.print() + "}"
			}
		}
		return s + "\""
	}
	return "?"
}

type c05Ref struct {
	log []string
}

func rvRepr(v rv) string {
	switch v.k {
	case vArr:
		var p []string
		for _, e := range v.arr {
			p = append(p, rvRepr(e))
		}
		return "[" + strings.Join(p, ",") + "]"
	case vHash:
		var p []string
		for i := range v.hk {
			p = append(p, v.hk[i]+":"+rvRepr(v.hv[i]))
		}
		return "{" + strings.Join(p, ",") + "}"
	case vNull:
		return "null"
	case vBool:
		return fmt.Sprint(v.b)
	case vStr:
		return "'" + v.s + "'"
	}
	return v.str()
}

func (r *c05Ref) eval(e *cx) rv {
	switch e.kind {
	case "lit", "name":
		return e.v
	case "un":
		x := r.eval(e.kids[0])
		switch e.op {
		case "not":
			return rBool(!x.truthy())
		case "-":
			if x.k != vNum {
				bail("unary-non-number")
			}
			return rNum(-x.n)
		case "+":
			if x.k != vNum {
				bail("unary-non-number")
			}
			return rNum(x.n)
		}
	case "bin":
		l := r.eval(e.kids[0])
		if (e.op == "and" || e.op == "or") && c05HasCall(e.kids[1]) {
			bail("short-circuit")
		}
		rt := r.eval(e.kids[1])
		return c05Bin(e.op, l, rt)
	case "tern":
		c := r.eval(e.kids[0])
		if c.truthy() {
			return r.eval(e.kids[1])
		}
		return r.eval(e.kids[2])
	case "arr":
		var a []rv
		for _, k := range e.kids {
			a = append(a, r.eval(k))
		}
		return rv{k: vArr, arr: a}
	case "hash":
		return rHash1(e.op, r.eval(e.kids[0]))
	case "hashp":
		return rv{k: vHash, hk: []string{"dyn", "dyn2"}, hv: []rv{r.eval(e.kids[0]), rStr("second")}}
	case "dot", "idx":
		c := r.eval(e.kids[0])
		var key rv
		if e.kind == "dot" {
			key = rStr(e.op)
		} else {
			key = r.eval(e.kids[1])
		}
		switch c.k {
		case vHash:
			if key.k != vStr && key.k != vNum {
				bail("hash-key-type")
			}
			for i, k := range c.hk {
				if k == key.str() {
					return c.hv[i]
				}
			}
			bail("missing-attr")
		case vArr:
			if key.k == vNull {
				bail("index-null") // PHP uses the key "" for null, stick the index 0: not specified here
			}
			n := key.num("index-non-numeric")
			if key.k == vStr && e.kind == "idx" {
				bail("index-non-numeric")
			}
			if n != math.Trunc(n) || n < 0 || int(n) >= len(c.arr) {
				bail("missing-attr")
			}
			return c.arr[int(n)]
		}
		bail("attr-of-scalar")
	case "call":
		var args []rv
		for _, k := range e.kids {
			args = append(args, r.eval(k))
		}
		return r.callback(e.op, args)
	case "filt":
		var args []rv
		for _, k := range e.kids {
			args = append(args, r.eval(k))
		}
		return r.callback(e.op, args)
	case "test":
		// stick evaluates the test's arguments only after the subject; Twig too
		subj := r.eval(e.kids[0])
		var args []rv
		for _, k := range e.kids[1:] {
			args = append(args, r.eval(k))
		}
		return r.callback(e.op, append([]rv{subj}, args...))
	case "interp":
		s := ""
		for _, k := range e.kids {
			s += r.eval(k).str()
		}
		return rStr(s)
	}
	bail("unknown-term")
	return rv{}
}

func c05HasCall(e *cx) bool {
	if e.kind == "call" || e.kind == "filt" || e.kind == "test" {
		return true
	}
	for _, k := range e.kids {
		if c05HasCall(k) {
			return true
		}
	}
	return false
}

// callbacks: r(x) returns x; g(x, a...) (filter) returns x; t(x, a...) (test) returns whether x's string form is neither empty nor "0";
// j joins an array; every call is logged with its evaluated arguments.
func (r *c05Ref) callback(name string, args []rv) rv {
	var parts []string
	for _, a := range args {
		parts = append(parts, rvRepr(a))
	}
	r.log = append(r.log, name+"("+strings.Join(parts, ";")+")")
	switch name {
	case "r", "g":
		if len(args) == 0 {
			return rv{}
		}
		return args[0]
	case "t":
		if len(args) == 0 || args[0].k == vArr || args[0].k == vHash {
			return rBool(false)
		}
		sf := args[0].str()
		return rBool(sf != "" && sf != "0")
	case "j":
		if len(args) == 0 || args[0].k != vArr {
			bail("join-non-array")
		}
		var p []string
		for _, el := range args[0].arr {
			p = append(p, el.str())
		}
		return rStr(strings.Join(p, ","))
	}
	return rv{}
}

func c05Bin(op string, l, r rv) rv {
	arith := func(v rv) float64 {
		if v.k == vArr || v.k == vHash {
			bail("arith-non-numeric")
		}
		return v.num("arith-non-numeric")
	}
	switch op {
	case "+":
		return rNum(arith(l) + arith(r))
	case "-":
		return rNum(arith(l) - arith(r))
	case "*":
		return rNum(arith(l) * arith(r))
	case "/":
		d := arith(r)
		n := arith(l)
		if d == 0 {
			bail("div-by-zero")
		}
		return rNum(n / d)
	case "//":
		d := arith(r)
		n := arith(l)
		if d == 0 {
			bail("div-by-zero")
		}
		return rNum(math.Floor(n / d))
	case "%":
		d := arith(r)
		n := arith(l)
		if int(d) == 0 {
			bail("div-by-zero")
		}
		return rNum(float64(int(n) % int(d)))
	case "**":
		b, e := arith(l), arith(r)
		if l.k != vNum || r.k != vNum || e != math.Trunc(e) || e < 0 || e > 6 {
			bail("power-operands")
		}
		res := 1.0
		for i := 0; i < int(e); i++ {
			res *= b
		}
		return rNum(res)
	case "~":
		return rStr(l.str() + r.str())
	case "==":
		return rBool(rEqual(l, r))
	case "!=":
		return rBool(!rEqual(l, r))
	case "<":
		return rBool(cmpOperand(l) < cmpOperand(r))
	case "<=":
		return rBool(cmpOperand(l) <= cmpOperand(r))
	case ">":
		return rBool(cmpOperand(l) > cmpOperand(r))
	case ">=":
		return rBool(cmpOperand(l) >= cmpOperand(r))
	case "and":
		a, b := l.truthy(), r.truthy()
		return rBool(a && b)
	case "or":
		a, b := l.truthy(), r.truthy()
		return rBool(a || b)
	case "in", "not in":
		var els []rv
		switch r.k {
		case vArr:
			els = r.arr
		case vHash:
			els = r.hv
		default:
			bail("in-scalar")
		}
		if l.k == vArr || l.k == vHash {
			bail("in-array-needle")
		}
		found := false
		for _, el := range els {
			if el.k != l.k {
				bail("in-mixed-types")
			}
			if rEqual(el, l) {
				found = true
			}
		}
		return rBool(found == (op == "in"))
	case "starts with", "ends with":
		if l.k != vStr || r.k != vStr {
			bail("affix-non-string")
		}
		if op == "starts with" {
			return rBool(strings.HasPrefix(l.s, r.s))
		}
		return rBool(strings.HasSuffix(l.s, r.s))
	case "matches":
		if l.k != vStr || r.k != vStr {
			bail("matches-non-string")
		}
		ok := false
		for _, p := range []string{"a", "^a", "b$", "a.b", "[0-9]+"} {
			if r.s == p {
				ok = true
			}
		}
		if !ok {
			bail("matches-pattern")
		}
		return rBool(regexp.MustCompile(r.s).MatchString(l.s))
	case "..":
		if l.k != vNum || r.k != vNum || l.n != math.Trunc(l.n) || r.n != math.Trunc(r.n) || l.n > r.n || r.n-l.n > 16 {
			bail("range-shape")
		}
		var a []rv
		for x := l.n; x <= r.n; x++ {
			a = append(a, rNum(x))
		}
		return rv{k: vArr, arr: a}
	case "b-and":
		return rNum(float64(bitOperand(l) & bitOperand(r)))
	case "b-or":
		return rNum(float64(bitOperand(l) | bitOperand(r)))
	case "b-xor":
		return rNum(float64(bitOperand(l) ^ bitOperand(r)))
	}
	bail("unknown-op")
	return rv{}
}

// operand alphabet
type c05Leaf struct {
	src string
	v   rv
	gv  stick.Value // Go value when bound to a name
}

func c05Leaves() []c05Leaf {
	return []c05Leaf{
		{"0", rNum(0), 0}, {"1", rNum(1), 1}, {"2", rNum(2), int64(2)}, {"3", rNum(3), uint8(3)}, {"7", rNum(7), 7.0}, {"(-1)", rNum(-1), -1},
		{"0.5", rNum(0.5), 0.5}, {"2.25", rNum(2.25), float32(2.25)},
		{"''", rStr(""), ""}, {"'a'", rStr("a"), "a"}, {"\"ab\"", rStr("ab"), "ab"}, {"'b'", rStr("b"), "b"}, {"'3'", rStr("3"), "3"},
		{"true", rBool(true), true}, {"false", rBool(false), false}, {"null", rv{}, nil},
		{"[1, 2]", rArr(rNum(1), rNum(2)), []stick.Value{1, 2}}, {"['a']", rArr(rStr("a")), []string{"a"}}, {"[]", rArr(), []stick.Value{}},
		{"{'k': 1}", rHash1("k", rNum(1)), map[string]stick.Value{"k": 1}},
		// numbers carried by decimal.Decimal (a type with a String method): zero, negative, positive
		{"0", rNum(0), decimal.Zero}, {"(-1.5)", rNum(-1.5), decimal.New(-15, -1)}, {"2.25", rNum(2.25), decimal.New(225, -2)},
	}
}

// all leaves: literal form and name-bound form
func c05Operands() ([]*cx, map[string]stick.Value) {
	ctx := map[string]stick.Value{}
	var ops []*cx
	for i, l := range c05Leaves() {
		kind := "lit"
		if l.v.k == vArr {
			kind = "arr"
		} else if l.v.k == vHash {
			kind = "hash"
		}
		lit := &cx{kind: "lit", v: l.v, src: l.src}
		_ = kind
		ops = append(ops, lit)
		name := "n" + itoa(i)
		ctx[name] = l.gv
		ops = append(ops, &cx{kind: "name", v: l.v, src: name})
	}
	ctx["kn"] = "dyn" // the name of a hash key held by a variable: {(kn): x}
	return ops, ctx
}

var c05BinOps = []string{"+", "-", "*", "/", "//", "%", "**", "~", "==", "!=", "<", "<=", ">", ">=", "and", "or", "in", "not in",
	"starts with", "ends with", "matches", "..", "b-and", "b-or", "b-xor"}

var c05CoreOps = []string{"+", "-", "*", "/", "//", "%", "~", "==", "<", "and", "or", "**"}

func c05Env(log *[]string) *stick.Env {
	env := stick.New(nil)
	repr := func(v stick.Value) string { return goRepr(v) }
	record := func(name string, args []stick.Value) {
		var parts []string
		for _, a := range args {
			parts = append(parts, repr(a))
		}
		*log = append(*log, name+"("+strings.Join(parts, ";")+")")
	}
	env.Functions["r"] = func(ctx stick.Context, args ...stick.Value) stick.Value {
		record("r", args)
		if len(args) == 0 {
			return nil
		}
		return args[0]
	}
	env.Filters["g"] = func(ctx stick.Context, val stick.Value, args ...stick.Value) stick.Value {
		record("g", append([]stick.Value{val}, args...))
		return val
	}
	env.Filters["j"] = func(ctx stick.Context, val stick.Value, args ...stick.Value) stick.Value {
		record("j", append([]stick.Value{val}, args...))
		var parts []string
		stick.Iterate(val, func(k, v stick.Value, l stick.Loop) (bool, error) {
			parts = append(parts, stick.CoerceString(v))
			return false, nil
		})
		return strings.Join(parts, ",")
	}
	env.Tests["t"] = func(ctx stick.Context, val stick.Value, args ...stick.Value) bool {
		record("t", append([]stick.Value{val}, args...))
		sf := stick.CoerceString(val)
		return sf != "" && sf != "0" && (val == nil || !stick.IsIterable(val))
	}
	return env
}

// goRepr renders a Go value the way rvRepr renders the reference value.
func goRepr(v stick.Value) string {
	switch x := v.(type) {
	case nil:
		return "null"
	case bool:
		return fmt.Sprint(x)
	case string:
		return "'" + x + "'"
	case map[string]stick.Value:
		var p []string
		for k, e := range x {
			p = append(p, k+":"+goRepr(e))
		}
		return "{" + strings.Join(p, ",") + "}"
	}
	if stick.IsArray(v) {
		var p []string
		stick.Iterate(v, func(k, e stick.Value, l stick.Loop) (bool, error) {
			p = append(p, goRepr(e))
			return false, nil
		})
		return "[" + strings.Join(p, ",") + "]"
	}
	return stick.CoerceString(v)
}

var (
	c05Ops_ []*cx
	c05Ctx_ map[string]stick.Value
)

func c05Operand(i int) *cx {
	if c05Ops_ == nil {
		c05Ops_, c05Ctx_ = c05Operands()
	}
	return c05Ops_[i]
}

// c05Term decodes a term from the case parameters (prefix encoding).
// 0 i: operand i | 1 op a b: binary | 2 u a: unary (0 not,1 -,2 +) | 3 c a b: ternary | 4 a: array of one | 5 a b: array of two
// 6 a: hash {k: a} | 7 a: a.k | 8 a b: a[b] | 9 n args..: r(args) | 10 a n args..: a|g(args) | 11 a n args..: a is t(args) | 12 a: a|j | 13 n parts..: interpolation
func c05Decode(n []int, p *int) *cx {
	tag := n[*p]
	*p++
	next := func() *cx { return c05Decode(n, p) }
	switch tag {
	case 0:
		i := n[*p]
		*p++
		return c05Operand(i)
	case 1:
		op := c05BinOps[n[*p]]
		*p++
		a := next()
		b := next()
		return &cx{kind: "bin", op: op, kids: []*cx{a, b}}
	case 2:
		op := []string{"not", "-", "+"}[n[*p]]
		*p++
		return &cx{kind: "un", op: op, kids: []*cx{next()}}
	case 3:
		c := next()
		a := next()
		b := next()
		return &cx{kind: "tern", kids: []*cx{c, a, b}}
	case 4:
		return &cx{kind: "arr", kids: []*cx{next()}}
	case 5:
		a := next()
		b := next()
		return &cx{kind: "arr", kids: []*cx{a, b}}
	case 6:
		return &cx{kind: "hash", op: "k", kids: []*cx{next()}}
	case 7:
		return &cx{kind: "dot", op: "k", kids: []*cx{next()}}
	case 8:
		a := next()
		b := next()
		return &cx{kind: "idx", kids: []*cx{a, b}}
	case 9, 10, 11:
		var kids []*cx
		if tag != 9 {
			kids = append(kids, next())
		}
		cnt := n[*p]
		*p++
		for i := 0; i < cnt; i++ {
			kids = append(kids, next())
		}
		return &cx{kind: []string{"call", "filt", "test"}[tag-9], op: []string{"r", "g", "t"}[tag-9], kids: kids}
	case 12:
		return &cx{kind: "filt", op: "j", kids: []*cx{next()}}
	case 13:
		cnt := n[*p]
		*p++
		var kids []*cx
		for i := 0; i < cnt; i++ {
			kids = append(kids, next())
		}
		return &cx{kind: "interp", kids: kids}
	case 14:
		return &cx{kind: "dot", op: "0", kids: []*cx{next()}}
	case 15:
		return &cx{kind: "hashp", kids: []*cx{next()}}
	case 16:
		return &cx{kind: "dot", op: "dyn", kids: []*cx{next()}}
	case 17:
		return &cx{kind: "dot", op: "dyn2", kids: []*cx{next()}}
	case 18:
		return &cx{kind: "dot", op: "kn", kids: []*cx{next()}}
	}
	panic("bad term encoding")
}

// number literals in unusual but legal spellings: the value is the decimal reading of the digits
var c05NumLits = []struct {
	src string
	v   float64
}{{"010", 10}, {"0100", 100}, {"0777", 777}, {"007", 7}, {"08", 8}, {"019", 19}, {"00", 0}, {"0", 0}, {"1.50", 1.5}, {"001.5", 1.5}, {"010.50", 10.5},
	{"0.10", 0.1}, {"10", 10}, {"1000000", 1000000}, {"123456789", 123456789}, {"0.000001", 0.000001}, {"00.5", 0.5}, {"9007199254740993", 9007199254740993}}

func c05NumLit(i int) core.Result {
	l := c05NumLits[i]
	var log []string
	env := c05Env(&log)
	src := "{{ " + l.src + " }}|{{ " + l.src + " + 1 }}|{{ r(" + l.src + ") }}|{{ [" + l.src + "][0] == " + strconv.FormatFloat(l.v, 'f', -1, 64) + " ? 'eq' : 'ne' }}|"
	want := fmt.Sprintf("%v|%v|%v|eq|", l.v, l.v+1, l.v)
	if l.v == math.Trunc(l.v) && l.v >= 1 && l.v <= 1000 {
		src += "{% for i in 1.." + l.src + " %}x{% endfor %}"
		want += strings.Repeat("x", int(l.v))
	}
	out, err, pan := tryExec(env, src, nil)
	if pan != "" {
		return core.Violation("panic", src+" panicked: "+pan)
	}
	if err != nil {
		return core.Violation("error", fmt.Sprintf("%q fails: %v", src, err))
	}
	if out != want {
		return core.Violation("value", fmt.Sprintf("%q renders %q, want %q", src, out, want))
	}
	if len(log) != 1 || log[0] != "r("+goRepr(l.v)+")" {
		return core.Violation("callbacks", fmt.Sprintf("%q: the function saw %v, want one call with %s", src, log, goRepr(l.v)))
	}
	return core.Okay(true, out)
}

// c05EnvIsolation: callbacks registered on one environment are not visible to, and do not replace those of, another
// environment (two environments of each constructor, the same names registered on both in either order).
func c05EnvIsolation(n int) core.Result {
	mk := []func() *stick.Env{func() *stick.Env { return stick.New(nil) }, func() *stick.Env { return twig.New(nil) }}
	kindA, kindB, order, what := n%2, (n/2)%2, (n/4)%2, (n/8)%3
	a, b := mk[kindA](), mk[kindB]()
	reg := func(e *stick.Env, tag string) {
		switch what {
		case 0:
			e.Filters["cb"] = func(ctx stick.Context, v stick.Value, args ...stick.Value) stick.Value {
				return tag + ":" + stick.CoerceString(v)
			}
		case 1:
			e.Functions["cb"] = func(ctx stick.Context, args ...stick.Value) stick.Value { return tag + ":x" }
		default:
			e.Tests["cb"] = func(ctx stick.Context, v stick.Value, args ...stick.Value) bool { return tag == "A" }
		}
	}
	if order == 0 {
		reg(a, "A")
		reg(b, "B")
	} else {
		reg(b, "B")
		reg(a, "A")
	}
	c := mk[kindA]() // a third environment, created last, on which nothing was registered
	src := []string{"{{ 'x'|cb }}", "{{ cb() }}", "{{ 1 is cb ? 'A:x' : 'B:x' }}"}[what]
	oa, ea, pa := tryExec(a, src, nil)
	ob, eb, pb := tryExec(b, src, nil)
	_, ec, pc := tryExec(c, src, nil)
	desc := fmt.Sprintf("%s on environments A (%d), B (%d), registration order %d", src, kindA, kindB, order)
	if pa != "" || pb != "" || pc != "" {
		return core.Violation("panic", desc+" panicked: "+pa+pb+pc)
	}
	if ea != nil || eb != nil || oa != "A:x" || ob != "B:x" {
		return core.Violation("callbacks", fmt.Sprintf("%s: A renders %q (%v), B renders %q (%v); want A:x and B:x", desc, oa, ea, ob, eb))
	}
	if ec == nil {
		return core.Violation("callbacks", desc+": a fresh environment on which nothing was registered knows the callback")
	}
	return core.Okay(true, oa+ob)
}

// c05RangeIn: membership in ranges of every length up to 45 (and 100, 1000): numbers inside and outside, numeric and
// non-numeric strings.
func c05RangeIn(lo, n, ni int) core.Result {
	hi := lo + n - 1
	needles := []struct {
		src string
		num float64
		isN bool
	}{{"0", 0, true}, {"5", 5, true}, {itoa(hi), float64(hi), true}, {itoa(hi + 1), float64(hi + 1), true}, {itoa(lo - 1), float64(lo - 1), true}, {"2.5", 2.5, true},
		{"'abc'", 0, false}, {"''", 0, false}, {"'n/a'", 0, false}, {"'3'", 3, true}, {"'0'", 0, true}, {"'-1'", -1, true}}
	nd := needles[ni]
	in := nd.isN && nd.num == math.Trunc(nd.num) && nd.num >= float64(lo) && nd.num <= float64(hi)
	src := "{{ " + nd.src + " in (" + itoa(lo) + ".." + itoa(hi) + ") ? 'y' : 'n' }}{{ " + nd.src + " not in (" + itoa(lo) + ".." + itoa(hi) + ") ? 'y' : 'n' }}"
	if n == 0 {
		return core.Skipped("empty-range")
	}
	want := "ny"
	if in {
		want = "yn"
	}
	out, err, pan := tryExec(stick.New(nil), src, nil)
	if pan != "" || err != nil {
		return core.Violation("error", fmt.Sprintf("%q: %v %s", src, err, pan))
	}
	if out != want {
		return core.Violation("value", fmt.Sprintf("%q renders %q, the documented value is %q", src, out, want))
	}
	return core.Okay(true, out)
}

// c05PatternChurn: the result of 'matches' does not depend on how many other patterns the process has used since the
// pattern was first seen.
func c05PatternChurn(round int) core.Result {
	env := stick.New(nil)
	probe := func(tag string) (string, string) {
		src := "{{ '/admin/users' matches '^/admin(/|$|" + tag + ")' ? 'y' : 'n' }}{{ 'x" + tag + "' matches '^x" + tag + "$' ? 'y' : 'n' }}{{ 'ab' matches 'a(" + tag + ")?b' ? 'y' : 'n' }}{{ 'zz' matches '^q" + tag + "' ? 'y' : 'n' }}"
		out, err, pan := tryExec(env, src, nil)
		if err != nil {
			out += " ERR " + err.Error()
		}
		return out + pan, src
	}
	tag := "r" + itoa(round)
	first, src := probe(tag)
	if first != "yyyn" {
		return core.Violation("value", fmt.Sprintf("%q renders %q, want yyyn", src, first))
	}
	for _, churn := range []int{10, 100, 127, 128, 129, 300, 1100} {
		for i := 0; i < churn; i++ {
			tryExec(env, "{{ 'k' matches '^other"+tag+"_"+itoa(churn)+"_"+itoa(i)+"$' }}", nil)
		}
		if again, _ := probe(tag); again != first {
			return core.Violation("value", fmt.Sprintf("%q rendered %q, and %q after %d other patterns had been used in the process", src, first, again, churn))
		}
		if fresh, _ := probe(tag + "f" + itoa(churn)); fresh != "yyyn" {
			return core.Violation("value", fmt.Sprintf("new patterns after %d others render %q, want yyyn", churn, fresh))
		}
	}
	return core.Okay(true, first)
}

// c05UnaryPostfix: a filter, attribute access or call written directly after an operand binds to the operand, a
// unary operator in front applies to the result: -5|g is -(5|g), the callback sees 5.
func c05UnaryPostfix(i int) core.Result {
	cases := []struct{ src, out, log string }{
		{"{{ -5|g }}", "-5", "g(5)"}, {"{{ -2.5|g(1) }}", "-2.5", "g(2.5;1)"}, {"{{ - 5|g }}", "-5", "g(5)"}, {"{{ (-5)|g }}", "-5", "g(-5)"},
		{"{{ -n|g }}", "-7", "g(7)"}, {"{{ +5|g }}", "5", "g(5)"}, {"{{ -5|g|g }}", "-5", "g(5) g(5)"}, {"{{ 3 -5|g }}", "-2", "g(5)"}, {"{{ 3 - -5|g }}", "8", "g(5)"},
		{"{{ -r(5) }}", "-5", "r(5)"}, {"{{ -[5][0]|g }}", "-5", "g(5)"}, {"{{ not 0|g ? 'y' : 'n' }}", "y", "g(0)"}, {"{{ -5 is t(1) ? 'y' : 'n' }}", "y", "t(-5;1)"},
		{"{{ r(-5) }}", "-5", "r(-5)"}, {"{{ [-5, -n]|j }}", "-5,-7", "j([-5,-7])"}, {"{{ 2 * -3|g }}", "-6", "g(3)"}, {"{{ -1|g }}", "-1", "g(1)"},
	}
	cs := cases[i]
	var log []string
	out, err, pan := tryExec(c05Env(&log), cs.src, map[string]stick.Value{"n": 7})
	if pan != "" || err != nil {
		return core.Violation("error", fmt.Sprintf("%q: %v %s", cs.src, err, pan))
	}
	got := strings.Join(log, " ")
	norm := func(s string) string { return strings.NewReplacer("float64(", "", "int(", "", ")", "").Replace(s) }
	if out != cs.out || norm(got) != norm(cs.log) {
		return core.Violation("callbacks", fmt.Sprintf("%q renders %q with the callbacks seeing %q; want %q and %q", cs.src, out, got, cs.out, cs.log))
	}
	return core.Okay(true, out)
}

const c05UnaryPostfixN = 17

// c05Ladder: conditionals written one after the other without parentheses. shape 0 is the else-ladder
// c1 ? a1 : c2 ? a2 : ... : z, which yields the result of the first true condition and evaluates only the conditions up
// to it and that one result; shape 1 nests in the true branch: c1 ? c2 ? a : b : z. bits gives the conditions' values.
func c05Ladder(shape, k, bits int) core.Result {
	cond := func(i int) (string, bool) {
		if bits>>uint(i)&1 == 1 {
			return "r(" + itoa(100+i) + ")", true
		}
		return "r(0)", false
	}
	src, want := "", ""
	var wantLog []string
	if shape == 0 {
		done := false
		for i := 0; i < k; i++ {
			cs, cv := cond(i)
			src += cs + " ? r(" + itoa(10+i) + ") : "
			if !done {
				wantLog = append(wantLog, cs)
				if cv {
					done = true
					want = itoa(10 + i)
					wantLog = append(wantLog, "r("+itoa(10+i)+")")
				}
			}
		}
		src += "r(99)"
		if !done {
			want = "99"
			wantLog = append(wantLog, "r(99)")
		}
	} else {
		// c0 ? c1 ? ... ? r(50) : r(60+k-1) ... : r(60)
		tail := ""
		for i := 0; i < k; i++ {
			cs, _ := cond(i)
			src += cs + " ? "
			tail = " : r(" + itoa(60+i) + ")" + tail
		}
		src += "r(50)" + tail
		want = "50"
		for i := 0; i < k; i++ {
			cs, cv := cond(i)
			wantLog = append(wantLog, cs)
			if !cv {
				want = itoa(60 + i)
				break
			}
		}
		wantLog = append(wantLog, "r("+want+")")
	}
	src = "{{ " + src + " }}"
	var log []string
	out, err, pan := tryExec(c05Env(&log), src, nil)
	if pan != "" || err != nil {
		return core.Violation("error", fmt.Sprintf("%q: %v %s", src, err, pan))
	}
	norm := func(s string) string { return strings.NewReplacer("float64(", "", "int(", "", ")", "").Replace(s) }
	if got := strings.Join(log, " "); out != want || norm(got) != norm(strings.Join(wantLog, " ")) {
		return core.Violation("callbacks", fmt.Sprintf("%q renders %q with the callbacks seeing %q; want %q and %q", src, out, got, want, strings.Join(wantLog, " ")))
	}
	return core.Okay(true, out)
}

// c05Needles: membership with needles whose text is empty (the empty string, null, false) and their neighbours, in lists
// of 0..3 elements of the needle's own kind: found exactly when an element is the same value. kind 0 strings (empty, a, b),
// 1 numbers (0 1 2), 2 booleans, 3 null; code spells the list (length and elements); carrier 0 a literal list, 1 the
// values of a literal hash, 2 a Go slice of the kind's type, 3 a []Value; the needle a literal (0) or a variable (1).
var c05NeedleSrc = [][]string{{"''", "'a'", "'b'"}, {"0", "1", "2"}, {"false", "true"}, {"null"}}
var c05NeedleVal = [][]stick.Value{{"", "a", "b"}, {0, 1, 2}, {false, true}, {nil}}

func c05NeedleLists(kind int) [][]int {
	n := len(c05NeedleSrc[kind])
	out := [][]int{{}}
	level := [][]int{{}}
	for l := 1; l <= 3; l++ {
		var next [][]int
		for _, pre := range level {
			for v := 0; v < n; v++ {
				next = append(next, append(append([]int{}, pre...), v))
			}
		}
		out = append(out, next...)
		level = next
	}
	return out
}

func c05Needles(kind, needle, code, carrier, nform int) core.Result {
	els := c05NeedleLists(kind)[code]
	found := false
	var lits []string
	var vals []stick.Value
	for _, e := range els {
		found = found || e == needle
		lits = append(lits, c05NeedleSrc[kind][e])
		vals = append(vals, c05NeedleVal[kind][e])
	}
	ctx := map[string]stick.Value{"nd": c05NeedleVal[kind][needle]}
	hay := "[" + strings.Join(lits, ", ") + "]"
	switch carrier {
	case 1:
		var ents []string
		for i, l := range lits {
			ents = append(ents, "'k"+itoa(i)+"': "+l)
		}
		hay = "{" + strings.Join(ents, ", ") + "}"
	case 2:
		hay = "xs"
		switch kind {
		case 0:
			xs := []string{}
			for _, v := range vals {
				xs = append(xs, v.(string))
			}
			ctx["xs"] = xs
		case 1:
			xs := []int{}
			for _, v := range vals {
				xs = append(xs, v.(int))
			}
			ctx["xs"] = xs
		case 2:
			xs := []bool{}
			for _, v := range vals {
				xs = append(xs, v.(bool))
			}
			ctx["xs"] = xs
		default:
			xs := []interface{}{}
			for _, v := range vals {
				xs = append(xs, v)
			}
			ctx["xs"] = xs
		}
	case 3:
		hay = "xs"
		ctx["xs"] = append([]stick.Value{}, vals...)
	}
	nd := c05NeedleSrc[kind][needle]
	if nform == 1 {
		nd = "nd"
	}
	src := "{{ " + nd + " in " + hay + " ? 'y' : 'n' }}{{ " + nd + " not in " + hay + " ? 'y' : 'n' }}{% if " + nd + " in " + hay + " %}Y{% else %}N{% endif %}"
	want := "nyN"
	if found {
		want = "ynY"
	}
	var log []string
	out, err, pan := tryExec(c05Env(&log), src, ctx)
	if pan != "" || err != nil || out != want {
		return core.Violation("value", fmt.Sprintf("%s (needle %#v, list %#v) renders %q (%v %s), want %q", src, ctx["nd"], vals, out, err, pan, want))
	}
	return core.Okay(true, out)
}

func c05Run(c core.Case) core.Result {
	if c.Fam == "unpost" {
		return c05UnaryPostfix(c.N[0])
	}
	if c.Fam == "needles" {
		return c05Needles(c.N[0], c.N[1], c.N[2], c.N[3], c.N[4])
	}
	if c.Fam == "intdiv" {
		// floor division of whole numbers of either sign carried by Go integer types (and by the results of bitwise
		// operators): the floor of the quotient, whatever the carriers
		a, b, ta, tb := c.N[0], c.N[1], c.N[2], c.N[3]
		carry := func(v, t int) stick.Value {
			switch t {
			case 0:
				return v
			case 1:
				return int64(v)
			case 2:
				return int8(v)
			case 3:
				return float64(v)
			}
			return int32(v)
		}
		want := itoa(int(math.Floor(float64(a) / float64(b))))
		src := "{{ a // b }}|{{ (a // b) + 0 }}|{% set q = a // b %}{{ q }}"
		if ta == 5 {
			src = "{{ (a b-or 0) // (b b-or 0) }}|{{ ((a b-and -1) // (b b-xor 0)) + 0 }}|{% set q = (a b-or 0) // (b b-or 0) %}{{ q }}"
		}
		var log []string
		out, err, pan := tryExec(c05Env(&log), src, map[string]stick.Value{"a": carry(a, ta), "b": carry(b, tb)})
		if w := want + "|" + want + "|" + want; pan != "" || err != nil || out != w {
			return core.Violation("value", fmt.Sprintf("%s with a = %#v, b = %#v renders %q (%v %s), want %q", src, carry(a, ta), carry(b, tb), out, err, pan, w))
		}
		return core.Okay(true, out)
	}
	if c.Fam == "corner" {
		// rare corners with results known by construction: names that only look like keywords, membership in hashes
		// (by value, never by key), numeric strings compared with each other
		cs := []struct{ src, want string }{
			{"{{ None }}|{{ None + 1 }}|{{ True }}|{{ Null ~ 'x' }}|{{ nOnE }}|{{ False ? 'y' : 'n' }}", "5|6|yes|7x|9|y"},
			{"{{ r(None, False) }}{{ {None: 'v'}['None'] }}{{ {'k': None}.k }}", "5v5"},
			{"{{ none }}|{{ NONE }}|{{ true }}|{{ TRUE }}|{{ false }}|{{ FALSE }}|{{ null }}|{{ NULL }}", "||1|1||||"},
			{"{{ 'k' in {'k': 1} ? 'y' : 'n' }}{{ 'k' not in {'k': 'x'} ? 'y' : 'n' }}{{ 2 in {2: 'two'} ? 'y' : 'n' }}{{ 'x' in {'k': 'x'} ? 'y' : 'n' }}{{ 'a' in h ? 'y' : 'n' }}{{ 'x' in h ? 'y' : 'n' }}{{ 'a' not in h ? 'y' : 'n' }}", "nynynyy"},
			{"{{ '10' > '9' ? 'y' : 'n' }}{{ '100' <= '20' ? 'y' : 'n' }}{{ '7' >= '7.0' ? 'y' : 'n' }}{{ '10' > 9 ? 'y' : 'n' }}{{ 10 > '9' ? 'y' : 'n' }}{{ s10 > s9 ? 'y' : 'n' }}{{ s9 < s10 ? 'y' : 'n' }}", "ynyyyyy"},
		}[c.N[0]]
		var log []string
		out, err, pan := tryExec(c05Env(&log), cs.src, map[string]stick.Value{"None": 5, "True": "yes", "Null": 7, "nOnE": 9, "False": "f", "h": map[string]stick.Value{"a": "x"}, "s10": "10", "s9": "9"})
		if pan != "" || err != nil || out != cs.want {
			return core.Violation("value", fmt.Sprintf("%s renders %q (%v %s), want %q", cs.src, out, err, pan, cs.want))
		}
		return core.Okay(true, out)
	}
	if c.Fam == "rangepair" {
		// two ranges evaluated one after the other in the same process (and the same execution): same start and
		// length, opposite directions; same bounds twice - each is what it is alone
		a, d := c.N[0], c.N[1]
		list := func(lo, hi int) string {
			var parts []string
			if lo <= hi {
				for i := lo; i <= hi; i++ {
					parts = append(parts, itoa(i))
				}
			} else {
				for i := lo; i >= hi; i-- {
					parts = append(parts, itoa(i))
				}
			}
			return strings.Join(parts, ",")
		}
		first, second := [2]int{a, a + d}, [2]int{a, a - d}
		if c.N[2] == 1 {
			first, second = second, first
		}
		sp := func(b [2]int) string { return "(" + itoa(b[0]) + ")..(" + itoa(b[1]) + ")" }
		src := "{{ (" + sp(first) + ")|j }}|{{ (" + sp(second) + ")|j }}|{{ (" + sp(first) + ")|j }}|{{ (" + sp(second) + ")[" + itoa(d) + "] }}|{{ (" + itoa(second[1]) + ") in (" + sp(second) + ") ? 'y' : 'n' }}"
		want := list(first[0], first[1]) + "|" + list(second[0], second[1]) + "|" + list(first[0], first[1]) + "|" + itoa(second[1]) + "|y"
		var log []string
		out, err, pan := tryExec(c05Env(&log), src, nil)
		if pan != "" || err != nil || out != want {
			return core.Violation("value", fmt.Sprintf("%s renders %q (%v %s), want %q", src, out, err, pan, want))
		}
		return core.Okay(true, out)
	}
	if c.Fam == "ladder" {
		return c05Ladder(c.N[0], c.N[1], c.N[2])
	}
	if c.Fam == "rangein" {
		return c05RangeIn(c.N[0], c.N[1], c.N[2])
	}
	if c.Fam == "churn" {
		return c05PatternChurn(c.N[0])
	}
	if c.Fam == "numlit" {
		return c05NumLit(c.N[0])
	}
	if c.Fam == "envs" {
		return c05EnvIsolation(c.N[0])
	}
	p := 0
	term := c05Decode(c.N, &p)
	ref := &c05Ref{}
	var want rv
	why := ""
	func() {
		defer func() {
			if x := recover(); x != nil {
				if u, ok := x.(unspec); ok {
					why = u.why
					return
				}
				panic(x)
			}
		}()
		want = ref.eval(term)
		// observe arrays / hashes through a joining filter
		if want.k == vArr {
			term = &cx{kind: "filt", op: "j", kids: []*cx{term}}
			want = ref.callback("j", []rv{want})
		} else if want.k == vHash {
			bail("hash-result")
		}
		_ = want.str()
	}()
	if why != "" {
		return core.Skipped(why)
	}
	src := "{{ " + term.print() + " }}"
	wantStr := want.str()
	switch c.Fam {
	case "termw":
		// state carried within one execution: the same expression after a warm-up print that has already
		// called a function and a filter with three arguments each
		src = "{{ r(7, 8, 9)|g(6, 5, 4) }}|" + src
		ref.log = append([]string{"r(7;8;9)", "g(7;6;5;4)"}, ref.log...)
		wantStr = "7|" + wantStr
	case "terml":
		// ... and evaluated in two consecutive loop iterations
		src = "{% for i in [1, 2] %}" + src + ";{% endfor %}"
		ref.log = append(append([]string{}, ref.log...), ref.log...)
		wantStr = wantStr + ";" + wantStr + ";"
	}
	var log []string
	out, err, pan := tryExec(c05Env(&log), src, c05Ctx_)
	if pan != "" {
		return core.Violation("panic", src+" panicked: "+pan)
	}
	if err != nil {
		return core.Violation("error", fmt.Sprintf("%s fails: %v (the documented value is %q)", src, err, wantStr))
	}
	if out != wantStr {
		return core.Violation("value", fmt.Sprintf("%s renders %q, the documented value is %q", src, out, wantStr))
	}
	if strings.Join(log, " ") != strings.Join(ref.log, " ") {
		return core.Violation("callbacks", fmt.Sprintf("%s invoked callbacks %q, want %q (each once, evaluated arguments, source order)", src, log, ref.log))
	}
	res := core.Okay(true, out)
	top := term.kind
	if term.op != "" {
		top += " " + term.op
	}
	res.Cnt = map[string]int64{"in-region: " + top: 1}
	return res
}

func c05Levels(tier string) []core.Level {
	nOps := len(c05Leaves()) * 2
	lv := []core.Level{
		{Name: "number literals in 18 spellings (leading zeros, trailing zeros, large) printed, added to, passed to a function, compared, as a range bound; callbacks registered on one of two environments (core / twig, either order) stay with it", Gen: func(emit func(core.Case)) {
			for i := range c05NumLits {
				emit(core.Case{Fam: "numlit", N: []int{i}})
			}
			for n := 0; n < 24; n++ {
				emit(core.Case{Fam: "envs", N: []int{n}})
			}
		}},
		{Name: "size and history: 12 needles in ranges of every length 1..45, 100 and 1000 from 4 lower bounds; 'matches' re-evaluated after 10..1100 other patterns were used in the process", Gen: func(emit func(core.Case)) {
			lens := []int{100, 1000}
			for n := 1; n <= 45; n++ {
				lens = append(lens, n)
			}
			for _, lo := range []int{-50, 0, 1, 3} {
				for _, n := range lens {
					for ni := 0; ni < 12; ni++ {
						emit(core.Case{Fam: "rangein", N: []int{lo, n, ni}})
					}
				}
			}
			for r := 0; r < 16; r++ {
				emit(core.Case{Fam: "churn", N: []int{r}})
			}
			for i := 0; i < c05UnaryPostfixN; i++ {
				emit(core.Case{Fam: "unpost", N: []int{i}})
			}
			for k := 0; k < 5; k++ {
				emit(core.Case{Fam: "corner", N: []int{k}})
			}
			// floor division over Go integer carriers of either sign
			for a := -9; a <= 9; a++ {
				for b := -4; b <= 4; b++ {
					if a == 0 || b == 0 {
						continue
					}
					for _, t := range [][2]int{{0, 0}, {1, 0}, {0, 1}, {2, 4}, {0, 3}, {3, 0}, {4, 4}, {5, 5}} {
						emit(core.Case{Fam: "intdiv", N: []int{a, b, t[0], t[1]}})
					}
				}
			}
			// membership with needles of empty text: '' / null / false and their neighbours in lists of their own kind
			for kind := 0; kind < 4; kind++ {
				for code := range c05NeedleLists(kind) {
					for needle := range c05NeedleSrc[kind] {
						for carrier := 0; carrier < 4; carrier++ {
							for nform := 0; nform < 2; nform++ {
								emit(core.Case{Fam: "needles", N: []int{kind, needle, code, carrier, nform}})
							}
						}
					}
				}
			}
			for a := -3; a <= 7; a++ {
				for d := 0; d <= 70; d++ {
					if d > 8 && d != 63 && d != 64 && d != 65 && d != 70 {
						continue
					}
					emit(core.Case{Fam: "rangepair", N: []int{a, d, 0}})
					emit(core.Case{Fam: "rangepair", N: []int{a, d, 1}})
				}
			}
			for shape := 0; shape < 2; shape++ {
				for k := 1; k <= 6; k++ {
					for bits := 0; bits < 1<<uint(k); bits++ {
						emit(core.Case{Fam: "ladder", N: []int{shape, k, bits}})
					}
				}
			}
		}},
		{Name: "every operand alone (20 values as literal and as variable), every unary operator on it, array/hash literal and access forms", Gen: func(emit func(core.Case)) {
			for i := 0; i < nOps; i++ {
				emit(core.Case{Fam: "term", N: []int{0, i}})
				for u := 0; u < 3; u++ {
					emit(core.Case{Fam: "term", N: []int{2, u, 0, i}})
				}
				emit(core.Case{Fam: "term", N: []int{4, 0, i}})
				emit(core.Case{Fam: "term", N: []int{7, 6, 0, i}})             // {k: x}.k
				emit(core.Case{Fam: "term", N: []int{16, 15, 0, i}})           // {(kn): x, (kn ~ '2'): 'second'}.dyn - the key is the variable's value
				emit(core.Case{Fam: "term", N: []int{17, 15, 0, i}})           // ....dyn2
				emit(core.Case{Fam: "term", N: []int{9, 1, 15, 0, i}})         // r({(kn): x, ..}): the callback receives the hash with the evaluated keys
				emit(core.Case{Fam: "term", N: []int{8, 6, 0, i, 0, 18}})      // {k: x}['k'] via 'k'? operand 18 = 'a'.. uses key a: missing
				emit(core.Case{Fam: "term", N: []int{8, 4, 0, i, 0, 0}})       // [x][0]
				emit(core.Case{Fam: "term", N: []int{14, 4, 0, i}})            // [x].0
				emit(core.Case{Fam: "term", N: []int{8, 5, 0, i, 0, 2, 0, 2}}) // [x, 1][1]
				emit(core.Case{Fam: "term", N: []int{8, 0, i, 0, 0}})          // x[0]
				for j := 0; j < nOps; j++ {
					emit(core.Case{Fam: "term", N: []int{8, 0, i, 0, j}})          // x[y]: every operand as the subscript (true / false / integral floats select 1 / 0 / that element)
					emit(core.Case{Fam: "term", N: []int{8, 5, 0, i, 0, 2, 0, j}}) // [x, 1][y]
				}
				emit(core.Case{Fam: "term", N: []int{7, 0, i}})                   // x.k
				emit(core.Case{Fam: "term", N: []int{13, 3, 0, 18, 0, i, 0, 22}}) // "a#{x}b"
				// a string consisting of exactly one interpolation is still a string: type-sensitive consumers
				emit(core.Case{Fam: "term", N: []int{10, 13, 1, 0, i, 0}})                    // "#{x}"|g
				emit(core.Case{Fam: "term", N: []int{9, 1, 13, 1, 0, i}})                     // r("#{x}")
				emit(core.Case{Fam: "term", N: []int{11, 13, 1, 0, i, 0}})                    // "#{x}" is t
				emit(core.Case{Fam: "term", N: []int{3, 13, 1, 0, i, 0, 2, 0, 4}})            // "#{x}" ? 1 : 2
				emit(core.Case{Fam: "term", N: []int{1, 8, 13, 1, 0, i, 13, 1, 0, i}})        // "#{x}" == "#{x}"
				emit(core.Case{Fam: "term", N: []int{10, 13, 2, 0, i, 0, i, 1, 13, 1, 0, i}}) // "#{x}#{x}"|g("#{x}")
			}
		}},
		{Name: "every binary operator (25) over every pair of operands (40 x 40)", Gen: func(emit func(core.Case)) {
			for op := range c05BinOps {
				for a := 0; a < nOps; a++ {
					for b := 0; b < nOps; b++ {
						emit(core.Case{Fam: "term", N: []int{1, op, 0, a, 0, b}})
					}
				}
			}
		}},
		{Name: "conditional over 8 x 8 x 8 operands; interpolation with 0..2 holes", Gen: func(emit func(core.Case)) {
			sel := []int{0, 2, 16, 18, 26, 28, 30, 32}
			for _, c := range sel {
				for _, a := range sel {
					for _, b := range sel {
						emit(core.Case{Fam: "term", N: []int{3, 0, c, 0, a, 0, b}})
					}
				}
			}
			for _, a := range sel {
				emit(core.Case{Fam: "term", N: []int{13, 1, 0, a}})
				for _, b := range sel {
					emit(core.Case{Fam: "term", N: []int{13, 3, 0, a, 0, 18, 0, b}})
				}
			}
		}},
		{Name: "depth 2: (x op1 y) op2 z and x op1 (y op2 z) over 12 operators and 8 operands; matches with 5 patterns", Gen: func(emit func(core.Case)) {
			sel := []int{0, 2, 4, 6, 12, 14, 18, 24}
			idx := func(op string) int {
				for i, o := range c05BinOps {
					if o == op {
						return i
					}
				}
				return 0
			}
			for _, o1 := range c05CoreOps {
				for _, o2 := range c05CoreOps {
					for _, x := range sel {
						for _, y := range sel {
							for _, z := range sel {
								emit(core.Case{Fam: "term", N: []int{1, idx(o2), 1, idx(o1), 0, x, 0, y, 0, z}})
								emit(core.Case{Fam: "term", N: []int{1, idx(o1), 0, x, 1, idx(o2), 0, y, 0, z}})
							}
						}
					}
				}
			}
		}},
		{Name: "callbacks: f(e1..en), e|g(e1..en), e is t(e1..en) for n <= 3 (each alone, after a warm-up print with 3-argument calls, and in two loop iterations) with arguments that are literals, recording calls, filtered recording calls or filters with their own (recording) arguments; inside operators, arrays, conditionals", Gen: func(emit0 func(core.Case)) {
			emit := func(c core.Case) {
				emit0(c)
				emit0(core.Case{Fam: "termw", N: c.N})
				emit0(core.Case{Fam: "terml", N: c.N})
			}
			// argument shapes: literal i; r(i); r(i)|g
			arg := func(shape, i int) []int {
				lit := []int{0, 2 * i} // operand literal i (0,1,2,3)
				rcall := append([]int{9, 1}, lit...)
				switch shape {
				case 0:
					return lit
				case 1:
					return rcall
				case 2:
					return append(append([]int{10}, rcall...), 0) // r(i)|g
				case 3:
					return append(append(append([]int{10}, lit...), 1), rcall...) // i|g(r(i))
				default:
					return append(append(append(append([]int{10}, rcall...), 2), lit...), rcall...) // r(i)|g(i, r(i))
				}
			}
			const shapes = 5
			for n := 0; n <= 3; n++ {
				total := 1
				for i := 0; i < n; i++ {
					total *= shapes
				}
				for m := 0; m < total; m++ {
					var args []int
					x := m
					for i := 0; i < n; i++ {
						args = append(args, arg(x%shapes, i+1)...)
						x /= shapes
					}
					emit(core.Case{Fam: "term", N: append([]int{9, n}, args...)})
					for subj := 0; subj < 3; subj++ {
						s := arg(subj, 0)
						emit(core.Case{Fam: "term", N: append(append(append([]int{10}, s...), n), args...)})
						emit(core.Case{Fam: "term", N: append(append(append([]int{11}, s...), n), args...)})
					}
				}
			}
			r := func(i int) []int { return []int{9, 1, 0, 2 * i} }
			cat := func(xs ...[]int) []int {
				var o []int
				for _, x := range xs {
					o = append(o, x...)
				}
				return o
			}
			for op := range c05BinOps {
				if c05BinOps[op] == "and" || c05BinOps[op] == "or" {
					continue
				}
				emit(core.Case{Fam: "term", N: cat([]int{1, op}, r(1), r(2))})
				emit(core.Case{Fam: "term", N: cat([]int{1, op}, cat([]int{1, op}, r(1), r(2)), r(3))})
			}
			emit(core.Case{Fam: "term", N: cat([]int{5}, r(1), r(2))})
			emit(core.Case{Fam: "term", N: cat([]int{3}, r(1), r(2), r(3))})
			emit(core.Case{Fam: "term", N: cat([]int{3}, r(0), r(2), r(3))})
			emit(core.Case{Fam: "term", N: cat([]int{7, 6}, r(1))})
			emit(core.Case{Fam: "term", N: cat([]int{13, 3}, r(1), []int{0, 18}, r(2))})
			emit(core.Case{Fam: "term", N: cat([]int{8, 5}, r(1), r(2), r(0))})
			emit(core.Case{Fam: "term", N: cat([]int{2, 1}, r(1))})
		}},
	}
	{
		lv = append(lv, core.Level{Name: "depth 3 over 6 operators and 5 operands (left- and right-nested and balanced shapes)", Gen: func(emit func(core.Case)) {
			ops := []int{0, 1, 2, 3, 7, 8}
			sel := []int{2, 4, 12, 18, 26}
			for _, o1 := range ops {
				for _, o2 := range ops {
					for _, o3 := range ops {
						for _, a := range sel {
							for _, b := range sel {
								for _, c := range sel {
									for _, d := range sel {
										emit(core.Case{Fam: "term", N: []int{1, o3, 1, o2, 1, o1, 0, a, 0, b, 0, c, 0, d}})
										emit(core.Case{Fam: "term", N: []int{1, o1, 0, a, 1, o2, 0, b, 1, o3, 0, c, 0, d}})
										emit(core.Case{Fam: "term", N: []int{1, o2, 1, o1, 0, a, 0, b, 1, o3, 0, c, 0, d}})
									}
								}
							}
						}
					}
				}
			}
		}})
	}
	if thorough(tier) {
		idx := func(op string) int {
			for i, o := range c05BinOps {
				if o == op {
					return i
				}
			}
			return 0
		}
		lv = append(lv, core.Level{Name: "depth 3 over 12 operators and 6 operands (three shapes)", Gen: func(emit func(core.Case)) {
			sel := []int{0, 2, 4, 12, 18, 26}
			for _, a1 := range c05CoreOps {
				for _, a2 := range c05CoreOps {
					for _, a3 := range c05CoreOps {
						o1, o2, o3 := idx(a1), idx(a2), idx(a3)
						for _, a := range sel {
							for _, b := range sel {
								for _, c := range sel {
									for _, d := range sel {
										emit(core.Case{Fam: "term", N: []int{1, o3, 1, o2, 1, o1, 0, a, 0, b, 0, c, 0, d}})
										emit(core.Case{Fam: "term", N: []int{1, o1, 0, a, 1, o2, 0, b, 1, o3, 0, c, 0, d}})
										emit(core.Case{Fam: "term", N: []int{1, o2, 1, o1, 0, a, 0, b, 1, o3, 0, c, 0, d}})
									}
								}
							}
						}
					}
				}
			}
		}})
		lv = append(lv, core.Level{Name: "depth 4 over 6 operators and 4 operands (left-nested, right-nested, balanced-left, balanced-right)", Gen: func(emit func(core.Case)) {
			ops := []int{0, 1, 2, 3, 7, 8}
			sel := []int{2, 4, 12, 18}
			for _, o1 := range ops {
				for _, o2 := range ops {
					for _, o3 := range ops {
						for _, o4 := range ops {
							for _, a := range sel {
								for _, b := range sel {
									for _, c := range sel {
										for _, d := range sel {
											for _, e := range sel {
												emit(core.Case{Fam: "term", N: []int{1, o4, 1, o3, 1, o2, 1, o1, 0, a, 0, b, 0, c, 0, d, 0, e}})
												emit(core.Case{Fam: "term", N: []int{1, o1, 0, a, 1, o2, 0, b, 1, o3, 0, c, 1, o4, 0, d, 0, e}})
												emit(core.Case{Fam: "term", N: []int{1, o3, 1, o2, 1, o1, 0, a, 0, b, 0, c, 1, o4, 0, d, 0, e}})
												emit(core.Case{Fam: "term", N: []int{1, o2, 1, o1, 0, a, 0, b, 1, o4, 1, o3, 0, c, 0, d, 0, e}})
											}
										}
									}
								}
							}
						}
					}
				}
			}
		}})
	}
	return lv
}

func init() {
	core.Register(&core.Check{
		ID:       "C05",
		Category: "exploration",
		Rule: "expression terms over 20 operand values (0 1 2 3 7 -1 0.5 2.25 '' 'a' 'ab' 'b' '3' true false null [1,2] ['a'] [] {'k':1}), each as a literal and as a variable bound to a Go value of varying numeric type: every operand alone, under every unary operator and in array / hash literal and .k / [k] / .0 access forms; every binary operator over every operand pair; the conditional over 8^3 operands; interpolation with 0-2 holes; depth 2 over 12 operators x 8 operands in both shapes, depth 3 over 6 operators x 5 operands in three shapes (thorough: depth 3 over 12 x 6, depth 4 over 6 x 4 in four shapes); " +
			"callback expressions f(e..), e|g(e..), e is t(e..) with <= 3 arguments that are literals, recording calls or filtered recording calls, also inside operators, arrays, conditionals and interpolation; every callback expression is evaluated alone, after a warm-up print that already called a function and a filter with three arguments, and in two consecutive loop iterations (state carried inside one execution). " +
			"Oracle: a reference evaluator defined only where stick's documented coercions and Twig agree (other cases skipped by reason); rendered value and recorded call log (name, evaluated arguments, order, exactly once) must match. distinct = distinct term; non-trivial = inside the comparison region",
		Assumptions: []string{
			"comparison region as in DESIGN.md appendix A; array results are observed through a joining harness filter",
			"the statement's depth ~6 is not reached exhaustively: depth 3 is",
		},
		Levels:  c05Levels,
		Run:     c05Run,
		NoDedup: true,
		Budget:  budget(4*time.Minute, 20*time.Minute),
		Init:    func() { c05Operand(0) },
	})
}
