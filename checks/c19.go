package checks

import (
	"bytes"
	"fmt"
	"os"
	"path/filepath"
	"runtime"
	"runtime/debug"
	"sort"
	"strings"
	"time"

	"github.com/tyler-sommer/stick"
	"github.com/tyler-sommer/stick/twig"

	"verif/core"
)

// C19 — no goroutine or descriptor is left behind. Explicit enumeration of call histories
// (DESIGN.md section 5): after every call of every history the resource vector
// (stick goroutines still alive, open descriptors) relative to the start of the history
// must be zero.

type c19Op struct {
	name string
	run  func(e *c19Envs) error
}

type c19Envs struct {
	str, mem, fs, twfs *stick.Env
	dir                string
}

const c19Base = "a{% if x %}b{{ y|up }}{% for i in z %}c{{ i }}{% endfor %}{% endif %}{# c #}d{% set q = [1, {k: 'v'}] %}"

var c19Files = map[string]string{
	"valid.twig":       c19Base,
	"base.twig":        "B[{% block b %}base{% endblock %}]",
	"child.twig":       "{% extends 'base.twig' %}{% block b %}child {{ parent() }}{% endblock %}",
	"inc.twig":         "i<{% include 'valid.twig' %}>",
	"syntax.twig":      "x{% if %}",
	"lexerr.twig":      "x{{ $ }}y{{ z }}",
	"incbad.twig":      "pre{% include 'syntax.twig' %}post",
	"incmissing.twig":  "pre{% include 'nofile.twig' %}post",
	"rt.twig":          "pre{{ x|nofilter }}post",
	"incthenrt.twig":   "{% include 'valid.twig' %}{{ x|nofilter }}",
	"rttheninc.twig":   "{{ x|nofilter }}{% include 'valid.twig' %}",
	"extbad.twig":      "{% extends 'syntax.twig' %}{% block b %}{% endblock %}",
	"macros.twig":      "{% macro m(a) %}[{{ a }}]{% endmacro %}",
	"usemacro.twig":    "{% import 'macros.twig' as mm %}{{ mm.m(1) }}{% from 'macros.twig' import m %}{{ m(2) }}",
	"embed.twig":       "{% embed 'base.twig' %}{% block b %}e{% endblock %}{% endembed %}",
	"unclosed.twig":    "{% for i in z %}never closed",
	"unclosedstr.twig": "{{ \"abc }} tail {{ x }}",
	// names that resolve to a directory (pages/ exists below the loader's root), directly and through include / extends
	"pages/sub.twig":    "sub {{ x }}",
	"incsub.twig":       "a{% include 'pages/sub.twig' %}b",
	"incdir.twig":       "a{% include 'pages' %}b",
	"incemptyname.twig": "a{% include nosuchvar %}b",
	"extdir.twig":       "{% extends 'pages' %}{% block a %}{% endblock %}",
	"embdir.twig":       "a{% embed 'pages/' %}{% endembed %}b",
	// more output than any in-memory buffer of a safe execution would hold, then a failure
	"hugert.twig":  "{{ huge }}{{ huge }}{{ nofunc() }}",
	"hugeok.twig":  "{{ huge }}{{ huge }}",
	"hugeinc.twig": "{{ huge }}{% include 'nofile.twig' %}",
	// loops and membership tests that stop before the last element (a failure in the body, a match)
	"forrt.twig":     "{% for i in [1, 2, 3] %}{{ i|nosuchfilter }}{% endfor %}",
	"forrtmap.twig":  "{% for k, v in {'a': 1, 'b': 2, 'c': 3} %}{{ nofunc() }}{% endfor %}",
	"forinc.twig":    "{% for i in z %}{% include 'nofile.twig' %}{% endfor %}",
	"inmatch.twig":   "{% if 1 in z %}y{% endif %}{{ 2 in [1, 2, 3] ? 'a' : 'b' }}{{ 'a' in {'k': 'a', 'j': 'b'} ? 1 : 0 }}{{ 9 not in [9, 8, 7] ? 1 : 0 }}",
	"fornested.twig": "{% for i in [1, 2] %}{% for j in [1, 2, 3] %}{% if j in [1, 2, 3] %}{{ j }}{% endif %}{% endfor %}{% endfor %}{% for q in 1..5 %}{{ q|nosuchfilter }}{% endfor %}",
	// every operator and every built-in filter once (the first use of a feature in a process must not leave a
	// helper behind either); a pattern that does not compile
	"allops.twig": "{{ 1 + 2 - 3 * 4 / 5 // 6 % 7 ** 2 }}{{ 'a' ~ 'b' }}{{ 1 == 1 and 2 != 3 or 4 < 5 }}{{ 1 <= 2 }}{{ 3 > 2 }}{{ 3 >= 2 }}{{ not x }}{{ 1 in [1] }}{{ 1 not in [2] }}" +
		"{{ 'abc' starts with 'a' }}{{ 'abc' ends with 'c' }}{{ 'abc' matches '^a.c$' }}{{ 'x1' matches '[0-9]+' }}{{ 1..3|length }}{{ 5 b-and 3 }}{{ 5 b-or 3 }}{{ 5 b-xor 3 }}" +
		"{{ x ? 'a' : 'b' }}{{ \"i#{1 + 1}\" }}{{ [1, 2][0] }}{{ {'k': 'v'}.k }}{{ -1 }}{{ +1 }}",
	"badpattern.twig": "a{{ 'abc' matches '([' }}b",
	"allfilters.twig": "{{ -1|abs }}{{ x|default('d') }}{{ [1, 2, 3]|batch(2)|length }}{{ 'ab'|capitalize }}{{ 'now'|date('Y')|length }}{{ [1]|first }}{{ 'a%s'|format('b') }}{{ [1, 2]|join(',') }}" +
		"{{ [1]|json_encode }}{{ {'k': 1}|keys|join }}{{ [1]|last }}{{ 'abc'|length }}{{ 'AB'|lower }}{{ [1]|merge([2])|length }}{{ 'a\nb'|nl2br }}{{ 1234.5|number_format }}{{ '<b>'|raw }}" +
		"{{ 'ab'|replace({'a': 'b'}) }}{{ 'ab'|reverse }}{{ 2.5|round }}{{ 'abc'|slice(1, 1) }}{{ [2, 1]|sort|join }}{{ 'a b'|split(' ')|length }}{{ '<b>x</b>'|striptags }}{{ 'a b'|title }}{{ ' a '|trim }}" +
		"{{ 'ab'|upper }}{{ 'a b'|url_encode }}{{ 'x'|convert_encoding('UTF-8', 'ISO-8859-1') }}{{ '<'|escape }}{{ '<'|escape('js') }}",
	// several use tags in one child: all fine, the first / the middle one failing (missing, malformed, an alias for a
	// block that is not there), the last failing
	"blocksA.twig":    "{% block b %}A{% endblock %}",
	"blocksB.twig":    "{% block c %}B{% endblock %}",
	"use3ok.twig":     "{% extends 'base.twig' %}{% use 'blocksA.twig' %}{% use 'blocksB.twig' %}{% use 'blocksA.twig' with b as b2 %}",
	"use3first.twig":  "{% extends 'base.twig' %}{% use 'nofile.twig' %}{% use 'blocksA.twig' %}{% use 'blocksB.twig' %}",
	"use3middle.twig": "{% extends 'base.twig' %}{% use 'blocksA.twig' %}{% use 'syntax.twig' %}{% use 'blocksB.twig' %}",
	"use3alias.twig":  "{% extends 'base.twig' %}{% use 'blocksA.twig' with nosuch as x %}{% use 'blocksB.twig' %}{% use 'blocksA.twig' %}",
	"use3last.twig":   "{% extends 'base.twig' %}{% use 'blocksA.twig' %}{% use 'blocksB.twig' %}{% use 'nofile.twig' %}",
	"inc3first.twig":  "a{% include 'nofile.twig' %}{% include 'valid.twig' %}{% include 'base.twig' %}",
	"imp3first.twig":  "{% import 'nofile.twig' as a %}{% import 'macros.twig' as b %}{% from 'macros.twig' import m %}",
	// sources that are not valid UTF-8 (they render on the pinned tree; whatever is done with them, nothing stays behind)
	"latin1.twig":   "caf\xe9 {{ x }} {% if x %}\xe9t\xe9{% endif %}",
	"badutf8.twig":  "{{ '\x80' }}{# \xff #}\xe2\x82{% for i in z %}\xc3{% endfor %}",
	"inclatin.twig": "a{% include 'latin1.twig' %}b",
	// reached through symbolic links (created by the setup below)
	"inclink.twig": "a{% include 'link.twig' %}{% include 'linkbad.twig' %}b",
}

// symbolic links in the loader's root: name -> target
var c19Links = map[string]string{"link.twig": "valid.twig", "linkbad.twig": "syntax.twig", "linkrt.twig": "rt.twig", "dangling.twig": "nosuchtarget.twig", "linkdir": "pages", "pages/uplink.twig": "../valid.twig"}

func c19Setup() *c19Envs {
	e := &c19Envs{}
	e.dir = filepath.Join(core.WorkDir, "c19fs")
	if core.WorkDir == "" {
		e.dir, _ = os.MkdirTemp("", "c19fs")
	}
	os.MkdirAll(e.dir, 0o755)
	for n, s := range c19Files {
		os.MkdirAll(filepath.Dir(filepath.Join(e.dir, n)), 0o755)
		os.WriteFile(filepath.Join(e.dir, n), []byte(s), 0o644)
	}
	for n, target := range c19Links {
		os.Remove(filepath.Join(e.dir, n))
		os.Symlink(target, filepath.Join(e.dir, n))
	}
	e.str = stick.New(nil)
	addStdCallbacks(e.str)
	e.mem = stick.New(&stick.MemoryLoader{Templates: c19Files})
	addStdCallbacks(e.mem)
	e.fs = stick.New(stick.NewFilesystemLoader(e.dir))
	addStdCallbacks(e.fs)
	e.twfs = twig.New(stick.NewFilesystemLoader(e.dir))
	return e
}

var c19Ctx = map[string]stick.Value{"x": 1, "y": "v", "z": []stick.Value{1, 2}, "huge": strings.Repeat("0123456789abcdef", 80000)}

func c19Exec(env *stick.Env, name string) error {
	var buf bytes.Buffer
	return env.Execute(name, &buf, c19Ctx)
}

func c19ExecSafe(env *stick.Env, name string) error {
	var buf bytes.Buffer
	return env.ExecuteSafe(name, &buf, c19Ctx)
}

func c19Ops() []c19Op {
	var ops []c19Op
	add := func(name string, run func(e *c19Envs) error) { ops = append(ops, c19Op{name, run}) }
	// named templates through the memory, filesystem and twig+filesystem environments
	var names []string
	for n := range c19Files {
		names = append(names, n)
	}
	sort.Strings(names)
	names = append(names, "nofile.twig", "pages", "pages/", "", ".", "pages/nofile.twig", "valid.twig/x")
	var links []string
	for n := range c19Links {
		links = append(links, n)
	}
	sort.Strings(links)
	names = append(names, links...)
	for _, n := range names {
		n := n
		add("exec/mem/"+n, func(e *c19Envs) error { return c19Exec(e.mem, n) })
		add("exec/fs/"+n, func(e *c19Envs) error { return c19Exec(e.fs, n) })
		add("parse/fs/"+n, func(e *c19Envs) error { _, err := e.fs.Parse(n); return err })
		add("safe/fs/"+n, func(e *c19Envs) error { return c19ExecSafe(e.fs, n) })
	}
	for _, n := range []string{"valid.twig", "child.twig", "syntax.twig", "incbad.twig", "nofile.twig", "lexerr.twig", "allops.twig", "allfilters.twig", "badpattern.twig"} {
		n := n
		add("exec/twigfs/"+n, func(e *c19Envs) error { return c19Exec(e.twfs, n) })
		add("parse/mem/"+n, func(e *c19Envs) error { _, err := e.mem.Parse(n); return err })
	}
	// string loader: the base template with one syntax error injected at each token boundary
	toks := scanTokens(c19Base)
	add("exec/str/valid", func(e *c19Envs) error { return c19Exec(e.str, c19Base) })
	for i, src := range []string{"caf\xe9 {{ x }}", "{{ '\x80' }}", "\xff", "{% if x %}\xe2\x82{% endif %}" + strings.Repeat("{{ a }} t\xe9xt ", 50)} {
		src := src
		add(fmt.Sprintf("exec/str/invalid-utf8#%d", i), func(e *c19Envs) error { return c19Exec(e.str, src) })
		add(fmt.Sprintf("parse/str/invalid-utf8#%d", i), func(e *c19Envs) error { _, err := e.str.Parse(src); return err })
	}
	for i := 0; i <= len(toks); i++ {
		for _, frag := range []string{"$", "{%", "\"", "{{ ("} {
			src := strings.Join(toks[:i], "") + frag + strings.Join(toks[i:], "")
			add(fmt.Sprintf("exec/str/inject@%d:%s", i, frag), func(e *c19Envs) error { return c19Exec(e.str, src) })
		}
	}
	// every kind of malformed source (each hits a different error site of the parser; some of those build their error
	// with errors.New / fmt.Errorf instead of a typed parse error), alone and followed by a long remainder
	for i, b := range c17Broken {
		b := b
		add(fmt.Sprintf("exec/str/broken#%d", i), func(e *c19Envs) error { return c19Exec(e.str, b) })
		long := b + strings.Repeat("{{ a }} text {% if a %}x{% endif %}", 40)
		add(fmt.Sprintf("exec/str/broken#%d+tail", i), func(e *c19Envs) error { return c19Exec(e.str, long) })
		add(fmt.Sprintf("parse/str/broken#%d+tail", i), func(e *c19Envs) error { _, err := e.str.Parse(long); return err })
		// ... the same behind and in front of delimiters that carry whitespace-control markers
		marked := "{{- a -}} {%- if a -%} x {%- endif -%} {#- c -#}" + b + strings.Repeat(" {{- a -}} text {%- if a -%}x{%- endif -%}", 40)
		add(fmt.Sprintf("exec/str/broken#%d+markers", i), func(e *c19Envs) error { return c19Exec(e.str, marked) })
	}
	// an early error followed by a long remainder: whatever the lexer still has to deliver after the parser gave up
	tails := map[string]func(n int) string{
		"emptystrings": func(n int) string { return "{{ [" + strings.TrimSuffix(strings.Repeat("'', ", n), ", ") + "] }}" },
		"sum":          func(n int) string { return "{{ a" + strings.Repeat(" + a", n) + " }}" },
		"prints":       func(n int) string { return strings.Repeat("{{ a }}", n) },
		"tags":         func(n int) string { return strings.Repeat("{% if a %}x{% endif %}", n) },
		"text":         func(n int) string { return strings.Repeat("lorem ipsum ", n) },
		"strings":      func(n int) string { return strings.Repeat("{{ \"x#{a}y\" }}", n) },
	}
	var tnames []string
	for k := range tails {
		tnames = append(tnames, k)
	}
	sort.Strings(tnames)
	for _, head := range []string{"{{ a b }}", "{% nosuchtag %}", "{{ $ }}", "{% if %}", "{{ 'x' 'y' }}"} {
		for _, tn := range tnames {
			for _, n := range []int{1, 10, 50, 400} {
				src := head + tails[tn](n)
				add(fmt.Sprintf("exec/str/%s+%s*%d", head, tn, n), func(e *c19Envs) error { return c19Exec(e.str, src) })
			}
		}
	}
	return ops
}

// c19Core: the reduced alphabet used for deeper histories (one op per behaviour class)
func c19CoreOps(all []c19Op) []int {
	want := []string{"exec/mem/valid.twig", "exec/fs/valid.twig", "parse/fs/valid.twig", "exec/fs/child.twig", "exec/fs/syntax.twig", "parse/fs/syntax.twig",
		"exec/fs/lexerr.twig", "exec/fs/incbad.twig", "exec/fs/incmissing.twig", "exec/fs/rt.twig", "exec/fs/incthenrt.twig", "exec/fs/nofile.twig",
		"exec/mem/syntax.twig", "exec/mem/unclosedstr.twig", "exec/twigfs/valid.twig", "exec/twigfs/syntax.twig", "exec/str/valid",
		"exec/str/inject@3:$", "exec/str/inject@9:{%", "exec/str/inject@14:\"", "exec/fs/extbad.twig", "exec/fs/usemacro.twig", "exec/fs/embed.twig", "exec/fs/unclosed.twig"}
	var idx []int
	for _, w := range want {
		for i, o := range all {
			if o.name == w {
				idx = append(idx, i)
			}
		}
	}
	return idx
}

type c19Vec struct {
	gor int // stick goroutines still alive (parked) beyond the baseline
	fds int // open descriptors beyond the baseline
	sig string
}

func countFDs() int {
	ents, err := os.ReadDir("/proc/self/fd")
	if err != nil {
		return -1
	}
	return len(ents)
}

// stickGoroutines returns the goroutines with a stick frame: (parked, active, signatures).
func stickGoroutines() (parked, active int, sigs []string) {
	buf := make([]byte, 1<<20)
	n := runtime.Stack(buf, true)
	for _, g := range strings.Split(string(buf[:n]), "\n\n") {
		if !strings.Contains(g, "tyler-sommer/stick") {
			continue
		}
		head := g
		if i := strings.Index(g, "\n"); i > 0 {
			head = g[:i]
		}
		// the measuring goroutine itself runs harness code only; a goroutine with stick frames that is
		// "running" is the caller still inside the library - cannot happen between calls.
		st := ""
		if i := strings.Index(head, "["); i >= 0 {
			st = strings.Trim(head[i:], "[]:")
		}
		fn := ""
		for _, ln := range strings.Split(g, "\n") {
			if strings.Contains(ln, "tyler-sommer/stick") && !strings.HasPrefix(ln, "\t") {
				fn = ln
				if j := strings.Index(fn, "("); j > 0 && strings.Contains(fn[:j], ".") {
					// keep receiver form e.g. parse.(*lexer).emit
				}
				if j := strings.LastIndex(fn, "/"); j >= 0 {
					fn = fn[j+1:]
				}
				if j := strings.LastIndex(fn, "("); j > 0 {
					fn = fn[:j]
				}
				break
			}
		}
		if strings.HasPrefix(st, "running") || strings.HasPrefix(st, "runnable") {
			active++
		} else {
			parked++
			sigs = append(sigs, st+" in "+fn)
		}
	}
	sort.Strings(sigs)
	return
}

type c19Base_ struct {
	gor, fds int
}

func c19Baseline() c19Base_ {
	return c19Base_{runtime.NumGoroutine(), countFDs()}
}

// c19Measure waits until no stick goroutine is runnable any more (a repair that drains the
// lexer asynchronously is given the time it needs) and returns the resource vector.
func c19Measure(b c19Base_) c19Vec {
	deadline := time.Now().Add(8 * time.Second)
	for {
		if runtime.NumGoroutine() <= b.gor {
			return c19Vec{0, countFDs() - b.fds, ""}
		}
		parked, active, sigs := stickGoroutines()
		if active == 0 && (parked > 0 || time.Now().After(deadline)) {
			return c19Vec{parked, countFDs() - b.fds, strings.Join(sigs, "; ")}
		}
		if active == 0 && parked == 0 {
			// extra goroutines without stick frames (exiting goroutine not yet reaped): wait briefly
			if runtime.NumGoroutine() <= b.gor || time.Now().After(deadline.Add(-7900*time.Millisecond)) {
				return c19Vec{0, countFDs() - b.fds, ""}
			}
		}
		if time.Now().After(deadline) {
			return c19Vec{parked + active, countFDs() - b.fds, "still running: " + strings.Join(sigs, "; ")}
		}
		runtime.Gosched()
		time.Sleep(50 * time.Microsecond)
	}
}

var (
	c19envs    *c19Envs
	c19ops     []c19Op
	c19selfOK  bool
	c19selfMsg string
)

func c19Init() {
	debug.SetGCPercent(-1) // finalizers must not close a leaked *os.File behind the observer's back
	c19envs = c19Setup()
	c19ops = c19Ops()
	// observer self-test: a deliberately leaked descriptor and a goroutine parked in the lexer must be seen
	b := c19Baseline()
	f, err := os.Open("/dev/null")
	if err == nil {
		v := c19Measure(b)
		c19selfOK = v.fds == 1
		f.Close()
		if v2 := c19Measure(b); v2.fds != 0 {
			c19selfOK = false
		}
	}
	if !c19selfOK {
		c19selfMsg = "observer self-test failed: an extra open descriptor was not seen"
	}
}

func c19Run(c core.Case) core.Result {
	if c19envs == nil {
		c19Init()
	}
	if !c19selfOK {
		return core.Violation("harness", c19selfMsg)
	}
	ops := c19ops
	idx := c.N
	reps := 1
	if c.Fam == "repeat" {
		reps = c.N[1]
		idx = c.N[:1]
	}
	b := c19Baseline()
	var trans int64
	vecs := map[string]bool{}
	var names []string
	for r := 0; r < reps; r++ {
		for _, oi := range idx {
			if oi >= len(ops) {
				return core.Skipped("index")
			}
			op := ops[oi]
			names = append(names, op.name)
			var pan string
			func() {
				defer func() {
					if p := recover(); p != nil {
						pan = panicInfo(p)
					}
				}()
				op.run(c19envs)
			}()
			trans++
			v := c19Measure(b)
			vecs[fmt.Sprint(v.gor, v.fds)] = true
			if v.gor != 0 || v.fds != 0 {
				if len(names) > 6 {
					names = append(names[:2], append([]string{"..."}, names[len(names)-2:]...)...)
				}
				what := fmt.Sprintf("after history %v (call %d: %s): %d goroutine(s) and %d descriptor(s) left behind", names, len(names), op.name, v.gor, v.fds)
				if v.sig != "" {
					what += " [" + v.sig + "]"
				}
				if pan != "" {
					what += " (the call panicked: " + pan + ")"
				}
				r := core.Violation("leak", what)
				r.Trans = trans
				r.States = int64(len(vecs))
				return r
			}
		}
	}
	r := core.Okay(true, strings.Join(names, "|")[:min(len(strings.Join(names, "|")), 200)])
	r.Trans = trans
	r.States = 1
	r.Traces = 1
	return r
}

func c19Levels(tier string) []core.Level {
	all := c19Ops()
	coreIdx := c19CoreOps(all)
	lv := []core.Level{
		{Name: fmt.Sprintf("histories of length 1 over all %d operations", len(all)), Gen: func(emit func(core.Case)) {
			for i := range all {
				emit(core.Case{Fam: "hist", N: []int{i}, Args: []string{all[i].name}})
			}
		}},
		{Name: "every operation repeated 50 times (a leak of one per call grows linearly)", Gen: func(emit func(core.Case)) {
			for i := range all {
				emit(core.Case{Fam: "repeat", N: []int{i, 50}, Args: []string{all[i].name}})
			}
		}},
		{Name: fmt.Sprintf("all histories of length 2 over the %d-operation core alphabet", len(coreIdx)), Gen: func(emit func(core.Case)) {
			for _, i := range coreIdx {
				for _, j := range coreIdx {
					emit(core.Case{Fam: "hist", N: []int{i, j}, Args: []string{all[i].name, all[j].name}})
				}
			}
		}},
	}
	if thorough(tier) {
		lv = append(lv, core.Level{Name: fmt.Sprintf("all histories of length 2 over all %d operations", len(all)), Gen: func(emit func(core.Case)) {
			for i := range all {
				for j := range all {
					emit(core.Case{Fam: "hist", N: []int{i, j}, Args: []string{all[i].name, all[j].name}})
				}
			}
		}})
		lv = append(lv, core.Level{Name: fmt.Sprintf("all histories of length 3 over the %d-operation core alphabet", len(coreIdx)), Gen: func(emit func(core.Case)) {
			for _, i := range coreIdx {
				for _, j := range coreIdx {
					for _, k := range coreIdx {
						emit(core.Case{Fam: "hist", N: []int{i, j, k}, Args: []string{all[i].name, all[j].name, all[k].name}})
					}
				}
			}
		}})
	}
	return lv
}

func init() {
	core.Register(&core.Check{
		ID:       "C19",
		Category: "model_checking",
		Rule: "explicit enumeration of call histories: every operation alone and repeated 50 times, all histories of length 2 (thorough: 3) over a core alphabet (thorough: length 2 over the full alphabet); operations = Execute/Parse through string, memory, filesystem and twig+filesystem loaders of valid templates, " +
			"templates with a syntax error injected at every token boundary (4 error fragments), lexer errors, run-time failures before/after an include, missing names, includes/extends of broken or missing files. " +
			"State = (stick goroutines still alive, open descriptors) relative to the start of the history, measured after every call with GC disabled; every reachable state must be the zero vector. states = distinct vectors observed, transitions = calls executed, traces validated = histories replayed on the real code",
		Assumptions: []string{
			"a goroutine counts as left behind if it has a stick frame and is parked (not runnable) after the call returned; runnable ones are waited for",
			"the garbage collector is disabled during the check so that *os.File finalizers cannot hide a leaked descriptor",
			"the observer is self-tested at start (a deliberately leaked descriptor must be seen)",
		},
		Levels:     c19Levels,
		Run:        c19Run,
		NoDedup:    true,
		MaxWorkers: 8,
		Budget:     budget(4*time.Minute, 20*time.Minute),
	})
}
