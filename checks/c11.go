package checks

import (
	"fmt"
	"strings"
	"time"

	"github.com/tyler-sommer/stick"
	"github.com/tyler-sommer/stick/twig"

	"verif/core"
)

// C11 — macros bind arguments by position and return their output as a value.

func c11MacroDef(name string, p int) string {
	var params, body []string
	for i := 1; i <= p; i++ {
		params = append(params, "p"+itoa(i))
		body = append(body, "p"+itoa(i)+"={{ p"+itoa(i)+" }}")
	}
	return "{% macro " + name + "(" + strings.Join(params, ", ") + ") %}(" + strings.Join(body, ";") + ";n={{ name() }}){% endmacro %}"
}

func c11MacroExpect(p, a int, tpl string) string {
	var body []string
	for i := 1; i <= p; i++ {
		v := ""
		if i <= a {
			v = "s" + itoa(i)
		}
		body = append(body, "p"+itoa(i)+"="+v)
	}
	return "(" + strings.Join(body, ";") + ";n=" + tpl + ")"
}

func c11Args(a int) string {
	var args []string
	for i := 1; i <= a; i++ {
		args = append(args, "'s"+itoa(i)+"'")
	}
	return strings.Join(args, ", ")
}

// c11Name is the name of the macro under test ("m" unless a case sets a name style): 1 a camel-case name with a
// sibling macro that differs from it only by case defined after it, 2 an upper-case name with such a sibling defined
// before it, 3 a name with digits and underscores. Macro names are identifiers: they are matched exactly.
var c11Name = "m"

var c11NameStyles = []string{"m", "renderRow", "M", "m_2x"}

// c11Defs returns the definition of the macro under test with p parameters plus, for the name styles with a sibling,
// the sibling (which prints something else).
func c11Defs(style, p int) string {
	def := c11MacroDef(c11Name, p)
	switch style {
	case 1:
		return def + "{% macro renderrow(q) %}LOWER{% endmacro %}{% macro RENDERROW(q) %}UPPER{% endmacro %}"
	case 2:
		return "{% macro m(q) %}LOWER{% endmacro %}" + def
	}
	return def
}

// forms: 0 _self, 1 import alias, 2 from import, 3 from import renamed, 4 from import renamed to a registered function's name
func c11Call(form int, args string) (prelude, call, tpl string) {
	switch form {
	case 0:
		return "", "_self." + c11Name + "(" + args + ")", "main"
	case 1:
		return "{% import 'mac' as i %}", "i." + c11Name + "(" + args + ")", "mac"
	case 2:
		return "{% from 'mac' import " + c11Name + " %}", c11Name + "(" + args + ")", "mac"
	case 3:
		return "{% from 'mac' import " + c11Name + " as g %}", "g(" + args + ")", "mac"
	default: // renamed to the name of a registered function: the imported macro is what the call refers to
		return "{% from 'mac' import " + c11Name + " as fn9 %}", "fn9(" + args + ")", "mac"
	}
}

const c11Forms = 5

const c11Uses = 10

func c11Use(u int, call, r string) (src, out string) {
	switch u {
	case 0:
		return "{{ " + call + " }}", r
	case 1:
		return "{% set r = " + call + " %}{{ r }}|{{ r }}", r + "|" + r
	case 2:
		return "{{ " + call + " ~ \"x\" }}", r + "x"
	case 3:
		return "{{ _self.w(" + call + ") }}", "<" + r + ">"
	case 4:
		return "{{ rec(" + call + ", 'z') }}", "rec(" + r + ",z)"
	case 5:
		return "{% for q in [1, 2] %}{{ " + call + " }}{% endfor %}", r + r
	case 6:
		return "{% set c %}{{ " + call + " }}{% endset %}[{{ c }}]", "[" + r + "]"
	case 7:
		return "{% if " + call + " %}T{% else %}F{% endif %}{{ " + call + "|up }}", "T" + strings.ToUpper(r)
	case 8: // the result is a plain string value for whoever receives it (a callback that looks at the Go type)
		return "{{ gotype(" + call + ") }}{% set r = " + call + " %}{{ gotype(r) }}{{ " + call + "|gotypef }}", "stringstringstring"
	default: // many calls in one execution (no per-execution limit is hit by looping)
		return "{% for q in 1..150 %}{{ " + call + " }}{% endfor %}", strings.Repeat(r, 150)
	}
}

func c11Env(tpls map[string]string, log *[]string) *stick.Env {
	env := stick.New(&stick.MemoryLoader{Templates: tpls})
	env.Functions["name"] = func(ctx stick.Context, args ...stick.Value) stick.Value { return ctx.Name() }
	env.Functions["gotype"] = func(ctx stick.Context, args ...stick.Value) stick.Value { return fmt.Sprintf("%T", args[0]) }
	env.Filters["gotypef"] = func(ctx stick.Context, val stick.Value, args ...stick.Value) stick.Value {
		return fmt.Sprintf("%T", val)
	}
	env.Functions["fn9"] = func(ctx stick.Context, args ...stick.Value) stick.Value { return "FN9" } // only ever shadowed by an import alias
	env.Functions["rec"] = func(ctx stick.Context, args ...stick.Value) stick.Value {
		var parts []string
		for _, a := range args {
			parts = append(parts, stick.CoerceString(a))
		}
		s := "rec(" + strings.Join(parts, ",") + ")"
		*log = append(*log, s)
		return s
	}
	env.Filters["up"] = func(ctx stick.Context, val stick.Value, args ...stick.Value) stick.Value {
		return strings.ToUpper(stick.CoerceString(val))
	}
	return env
}

func c11Exec(tpls map[string]string) (string, error, string, []string) {
	var log []string
	out, err, pan := tryExec(c11Env(tpls, &log), "main", nil)
	return out, err, pan, log
}

// c11ArgKinds: what can stand as an argument of a macro call, with the text and truth value the parameter then has
var c11ArgKinds = [][3]string{{"true", "1", "T"}, {"false", "", "F"}, {"TRUE", "1", "T"}, {"null", "", "F"}, {"none", "", "F"}, {"1", "1", "T"}, {"1.5", "1.5", "T"}, {"'s'", "s", "T"},
	{"x", "VX", "T"}, {"-1", "-1", "F"}, {"(true)", "1", "T"}, {"not false", "1", "T"}, {"{'k': 'v'}.k", "v", "T"}, {"[7][0]", "7", "T"}, {"x ~ 'y'", "VXy", "T"}, {"true ? 'a' : 'b'", "a", "T"}}

func c11Run(c core.Case) core.Result {
	switch c.Fam {
	case "argkinds":
		// every kind of argument (keyword literals in either case, numbers, strings, variables, compound expressions)
		// at the first, middle and last position of every call form binds its value to the parameter at that position
		form, pos, kind := c.N[0], c.N[1], c.N[2]
		args := []string{"'a1'", "'a2'", "'a3'"}
		args[pos] = c11ArgKinds[kind][0]
		wantP := []string{"a1:T", "a2:T", "a3:T"}
		wantP[pos] = c11ArgKinds[kind][1] + ":" + c11ArgKinds[kind][2]
		prelude, call, _ := c11Call(form, strings.Join(args, ", "))
		def := "{% macro m(p1, p2, p3) %}[{{ p1 }}:{{ p1 ? 'T' : 'F' }}|{{ p2 }}:{{ p2 ? 'T' : 'F' }}|{{ p3 }}:{{ p3 ? 'T' : 'F' }}]{% endmacro %}"
		tpls := map[string]string{"mac": def, "main": def + prelude + "{{ " + call + " }}{% for q in [1] %}{{ " + call + " }}{% endfor %}"}
		var log []string
		out, err, pan := tryExec(c11Env(tpls, &log), "main", map[string]stick.Value{"x": "VX"})
		want := "[" + strings.Join(wantP, "|") + "]"
		if want += want; pan != "" || err != nil || out != want {
			return core.Violation("binding", fmt.Sprintf("%q renders %q (%v %s), want %q", tpls["main"], out, err, pan, want))
		}
		return core.Okay(true, out)
	case "call":
		p, a, form, use := c.N[0], c.N[1], c.N[2], c.N[3]
		style := 0
		if len(c.N) > 4 {
			style = c.N[4]
		}
		c11Name = c11NameStyles[style]
		defer func() { c11Name = "m" }()
		prelude, call, tpl := c11Call(form, c11Args(a))
		r := c11MacroExpect(p, a, tpl)
		src, want := c11Use(use, call, r)
		tpls := map[string]string{"mac": "text in the macro file " + c11Defs(style, p) + c11MacroDef("other", 1)}
		main := "{% macro w(a) %}<{{ a }}>{% endmacro %}"
		if form == 0 {
			main += c11Defs(style, p)
		}
		tpls["main"] = main + prelude + "A" + src + "Z"
		want = "A" + want + "Z"
		out, err, pan, log := c11Exec(tpls)
		desc := fmt.Sprintf("main=%q mac=%q", tpls["main"], tpls["mac"])
		if pan != "" {
			return core.Violation("panic", "panicked: "+pan+"\n    "+desc)
		}
		if err != nil {
			return core.Violation("error", fmt.Sprintf("fails: %v (want %q)\n    %s", err, want, desc))
		}
		if out != want {
			return core.Violation("macro", fmt.Sprintf("renders\n    %q, want\n    %q\n    %s", out, want, desc))
		}
		if use == 4 && (len(log) != 1 || log[0] != "rec("+r+",z)") {
			return core.Violation("callback-args", fmt.Sprintf("the recording function saw %q, want one call rec(%s,z)\n    %s", log, r, desc))
		}
		// differential: the call forms agree with each other (modulo the defining template's name)
		norm := strings.NewReplacer("n=main", "n=*", "n=mac", "n=*", "N=MAIN", "N=*", "N=MAC", "N=*")
		return core.Okay(true, norm.Replace(out))
	case "diff":
		p, a, use := c.N[0], c.N[1], c.N[2]
		tw := len(c.N) > 3 && c.N[3] == 1 // the twig environment, markup in the macro body and in the arguments
		norm := strings.NewReplacer("n=main", "n=*", "n=mac", "n=*", "N=MAIN", "N=*", "N=MAC", "N=*")
		var first, firstSrc string
		for form := 0; form < c11Forms; form++ {
			args := c11Args(a)
			def := c11MacroDef("m", p)
			if tw {
				args = strings.ReplaceAll(args, "'s", "'<s>&")
				def = strings.Replace(def, "%}(", "%}<b>&amp;(", 1)
			}
			prelude, call, _ := c11Call(form, args)
			src, _ := c11Use(use, call, "")
			tpls := map[string]string{"mac": def}
			main := "{% macro w(a) %}<{{ a }}>{% endmacro %}"
			if form == 0 {
				main += def
			}
			tpls["main"] = main + prelude + src
			var out string
			var err error
			var pan string
			if tw {
				var log []string
				env := c11Env(tpls, &log)
				tenv := twig.New(env.Loader)
				for k, f := range env.Functions {
					tenv.Functions[k] = f
				}
				for k, f := range env.Filters {
					if _, has := tenv.Filters[k]; !has {
						tenv.Filters[k] = f
					}
				}
				out, err, pan = tryExec(tenv, "main", nil)
			} else {
				out, err, pan, _ = c11Exec(tpls)
			}
			if pan != "" {
				return core.Violation("panic", "panicked: "+pan+"\n    "+tpls["main"])
			}
			got := norm.Replace(out) + " err=" + fmt.Sprint(err != nil)
			if form == 0 {
				first, firstSrc = got, tpls["main"]
			} else if got != first {
				return core.Violation("call-forms-differ", fmt.Sprintf("%q gives %q but %q gives %q (twig environment: %v)", firstSrc, first, tpls["main"], got, tw))
			}
		}
		return core.Okay(true, first)
	case "collide":
		// arguments that are caller variables named like the macro's parameters: evaluated in the caller's scope
		form := c.N[0]
		sel := c.N[1:]
		callerVals := map[string]string{"a": "va", "b": "vb", "c": "vc"}
		atoms := []string{"a", "b", "c", "'lit'", "a ~ b"}
		atomVal := []string{"va", "vb", "vc", "lit", "vavb"}
		var args, vals []string
		for _, i := range sel {
			args = append(args, atoms[i])
			vals = append(vals, atomVal[i])
		}
		def := "{% macro m(a, b, c) %}(a={{ a }};b={{ b }};c={{ c }}){% endmacro %}"
		prelude, call, _ := c11Call(form, strings.Join(args, ", "))
		tpls := map[string]string{"mac": def}
		main := ""
		if form == 0 {
			main = def
		}
		tpls["main"] = main + prelude + "{% set a = 'va' %}{% set b = 'vb' %}{% set c = 'vc' %}{{ " + call + " }}|{{ a }}{{ b }}{{ c }}"
		get := func(i int) string {
			if i < len(vals) {
				return vals[i]
			}
			return ""
		}
		want := "(a=" + get(0) + ";b=" + get(1) + ";c=" + get(2) + ")|" + callerVals["a"] + callerVals["b"] + callerVals["c"]
		out, err, pan, _ := c11Exec(tpls)
		if pan != "" {
			return core.Violation("panic", "panicked: "+pan+"\n    "+tpls["main"])
		}
		if err != nil {
			return core.Violation("error", fmt.Sprintf("%q fails: %v", tpls["main"], err))
		}
		if out != want {
			return core.Violation("macro", fmt.Sprintf("%q renders\n    %q, want\n    %q", tpls["main"], out, want))
		}
		return core.Okay(true, out)
	case "nestargs":
		// arguments that are themselves macro calls with arguments, after an earlier call in the same execution
		form := c.N[0]
		shapes := c.N[1:]
		atomSrc := func(i, shape int, pfx string) (string, string) {
			l := "'s" + itoa(i) + "'"
			v := "s" + itoa(i)
			switch shape {
			case 0:
				return l, v
			case 1:
				return pfx + "wrap(" + l + ")", "<" + v + ">"
			case 2:
				return pfx + "pair(" + l + ", 'q')", "[" + v + "|q]"
			case 3:
				return pfx + "wrap(" + pfx + "pair('p', " + l + "))", "<[p|" + v + "]>"
			case 4: // zero-argument calls whose bodies call other macros with plain arguments
				return pfx + "dash()", "<->"
			case 5:
				return pfx + "plain()", "-"
			case 6:
				return pfx + "deep()", "(a=d1;b=d2;c=d3)"
			default: // the same through a dotted alias whatever the call form of the outer macro
				return map[bool]string{true: "_self.", false: "i."}[form == 0] + "dash()", "<->"
			}
		}
		pfx := map[int]string{0: "_self.", 1: "i.", 2: "", 3: ""}[form]
		defs := "{% macro m3(a, b, c) %}(a={{ a }};b={{ b }};c={{ c }}){% endmacro %}{% macro wrap(x) %}<{{ x }}>{% endmacro %}{% macro pair(x, y) %}[{{ x }}|{{ y }}]{% endmacro %}{% macro plain() %}-{% endmacro %}"
		if form == 0 {
			defs += "{% macro dash() %}{{ _self.wrap('-') }}{% endmacro %}{% macro deep() %}{{ _self.m3('d1', 'd2', 'd3') }}{% endmacro %}"
		} else {
			defs += "{% macro dash() %}{% import 'mac' as h %}{{ h.wrap('-') }}{% endmacro %}{% macro deep() %}{% from 'mac' import m3 %}{{ m3('d1', 'd2', 'd3') }}{% endmacro %}"
		}
		fromAll := "{% from 'mac' import m3, wrap, pair, dash, plain, deep %}{% import 'mac' as i %}"
		prelude := map[int]string{0: "", 1: "{% import 'mac' as i %}", 2: fromAll, 3: fromAll}[form]
		var args, vals []string
		for i, sh := range shapes {
			a, v := atomSrc(i+1, sh, pfx)
			args = append(args, a)
			vals = append(vals, v)
		}
		get := func(i int) string {
			if i < len(vals) {
				return vals[i]
			}
			return ""
		}
		call := "{{ " + pfx + "m3(" + strings.Join(args, ", ") + ") }}"
		warm := "{{ " + pfx + "m3('w1', 'w2', 'w3') }}{{ " + pfx + "pair('w4', 'w5') }}"
		want := "(a=w1;b=w2;c=w3)[w4|w5]|"
		one := "(a=" + get(0) + ";b=" + get(1) + ";c=" + get(2) + ")"
		if form == 3 { // the same call in two loop iterations instead of after a warm-up
			warm, want = "", "|"
			call = "{% for q in [1, 2] %}" + call + "{% endfor %}"
			one += one
		}
		tpls := map[string]string{"mac": defs}
		main := ""
		if form == 0 {
			main = defs
		}
		tpls["main"] = main + prelude + warm + "|" + call
		out, err, pan, _ := c11Exec(tpls)
		if pan != "" {
			return core.Violation("panic", "panicked: "+pan+"\n    "+tpls["main"])
		}
		if err != nil {
			return core.Violation("error", fmt.Sprintf("%q fails: %v", tpls["main"], err))
		}
		if out != want+one {
			return core.Violation("macro", fmt.Sprintf("%q renders\n    %q, want\n    %q", tpls["main"], out, want+one))
		}
		return core.Okay(true, out)
	case "nested":
		// macros calling macros through _self in the defining template, depth 2, arity mismatch inside
		p, a := c.N[0], c.N[1]
		inner := c11MacroExpect(p, a, "main")
		tpls := map[string]string{"main": c11MacroDef("m", p) +
			"{% macro outer(x, y) %}o[{{ x }}|{{ _self.m(" + c11Args(a) + ") }}|{{ y }}]{% endmacro %}" +
			"{% macro top(x) %}t<{{ _self.outer(x, 'yy', 'surplus') }}>{% endmacro %}" +
			"{{ _self.top('xx') }}{{ _self.outer() }}"}
		want := "t<o[xx|" + inner + "|yy]>" + "o[|" + inner + "|]"
		out, err, pan, _ := c11Exec(tpls)
		if pan != "" {
			return core.Violation("panic", "panicked: "+pan+"\n    "+tpls["main"])
		}
		if err != nil {
			return core.Violation("error", fmt.Sprintf("%q fails: %v", tpls["main"], err))
		}
		if out != want {
			return core.Violation("macro", fmt.Sprintf("%q renders\n    %q, want\n    %q", tpls["main"], out, want))
		}
		return core.Okay(true, out)
	case "hosted":
		// a template that defines a macro and calls it through _self inside a block, rendered directly, as the
		// parent of an extending child, through embed and through include: the call finds the macro every time
		p, a, how, use := c.N[0], c.N[1], c.N[2], c.N[3]
		r := c11MacroExpect(p, a, "host")
		src, want := c11Use(use, "_self.m("+c11Args(a)+")", r)
		tpls := map[string]string{
			"host": "{% macro w(a) %}<{{ a }}>{% endmacro %}" + c11MacroDef("m", p) + "H[{% block body %}" + src + "{% endblock %}|{% block other %}o{% endblock %}]",
		}
		want = "H[" + want + "|o]"
		switch how {
		case 0:
			tpls["main"] = "{% extends 'host' %}"
		case 1:
			tpls["main"] = "{% extends 'host' %}{% block other %}O2{% endblock %}"
			want = strings.Replace(want, "|o]", "|O2]", 1)
		case 2:
			tpls["main"] = "A{% embed 'host' %}{% endembed %}Z"
			want = "A" + want + "Z"
		case 3:
			tpls["main"] = "A{% embed 'host' %}{% block other %}O2{% endblock %}{% endembed %}Z"
			want = "A" + strings.Replace(want, "|o]", "|O2]", 1) + "Z"
		case 4:
			tpls["main"] = "A{% include 'host' %}Z"
			want = "A" + want + "Z"
		case 6: // the child's overriding block makes the call; the macro is the parent's
			tpls["host"] = "{% macro w(a) %}<{{ a }}>{% endmacro %}" + c11MacroDef("m", p) + "H[{% block body %}-{% endblock %}|{% block other %}o{% endblock %}]"
			tpls["main"] = "{% extends 'host' %}{% block body %}" + src + "{% endblock %}"
		case 7: // an embed's override block calls the embedded template's macro
			tpls["host"] = "{% macro w(a) %}<{{ a }}>{% endmacro %}" + c11MacroDef("m", p) + "H[{% block body %}-{% endblock %}|{% block other %}o{% endblock %}]"
			tpls["main"] = "A{% embed 'host' %}{% block body %}" + src + "{% endblock %}{% endembed %}Z"
			want = "A" + want + "Z"
		case 5:
			tpls["main"] = "{% extends 'mid' %}"
			tpls["mid"] = "{% extends 'host' %}{% block other %}O2{% endblock %}"
			want = strings.Replace(want, "|o]", "|O2]", 1)
		}
		out, err, pan, _ := c11Exec(tpls)
		desc := fmt.Sprintf("main=%q host=%q", tpls["main"], tpls["host"])
		if pan != "" {
			return core.Violation("panic", "panicked: "+pan+"\n    "+desc)
		}
		if err != nil {
			return core.Violation("error", fmt.Sprintf("fails: %v (want %q)\n    %s", err, want, desc))
		}
		if out != want {
			return core.Violation("macro", fmt.Sprintf("renders\n    %q, want\n    %q\n    %s", out, want, desc))
		}
		return core.Okay(true, out)
	case "afterfail":
		// an execution fails inside a macro body that has already produced output (30 rounds, same / fresh
		// environment); the next macro call returns its own rendering only
		fail, same := c.N[0], c.N[1] == 1
		tpls := map[string]string{
			"mac":  "{% macro m(a) %}<div>{{ a }} / {{ tok }} / {% for q in 5 %}{% endfor %}</div>{% endmacro %}{% macro ok(a) %}[{{ a }}]{% endmacro %}{% macro f2(a) %}pre-{{ a }}-{{ nofunc() }}{% endmacro %}",
			"bad0": "{% import 'mac' as i %}{{ i.m('alice') }}",
			"bad1": "{% from 'mac' import f2 %}x{{ f2('alice') }}",
			"bad2": "{% macro w(a) %}W{{ a }}{{ boom() }}{% endmacro %}{{ _self.w('alice') }}",
			"good": "{% import 'mac' as i %}{% from 'mac' import ok %}{{ i.ok('bob') }}|{{ ok('carol') }}|{% macro own(a) %}({{ a }}){% endmacro %}{{ _self.own('dan') }}",
		}
		want := "[bob]|[carol]|(dan)"
		var log []string
		mk := func() *stick.Env {
			e := c11Env(tpls, &log)
			e.Functions["boom"] = func(ctx stick.Context, args ...stick.Value) stick.Value { panic("boom") }
			return e
		}
		env := mk()
		for round := 0; round < 30; round++ {
			fenv, genv := env, env
			if !same {
				fenv, genv = mk(), mk()
			}
			if _, err, pan := tryExec(fenv, "bad"+itoa(fail), map[string]stick.Value{"tok": "token-0"}); err == nil && pan == "" {
				return core.Violation("error", "the failing template bad"+itoa(fail)+" rendered without error")
			}
			out, err, pan := tryExec(genv, "good", nil)
			if pan != "" || err != nil || out != want {
				return core.Violation("macro", fmt.Sprintf("round %d: after an execution that failed inside a macro body (%q), %q renders %q (%v %s), want %q", round, tpls["bad"+itoa(fail)], tpls["good"], out, err, pan, want))
			}
		}
		return core.Okay(true, want)
	case "samelocal":
		// the same local name bound by several import / from tags of one source - inside two macro bodies, in both
		// branches of an if, in a loop body: every binding is fine where it stands
		tpls := map[string]string{"mac": c11MacroDef("m", 1) + "{% macro n(a) %}N<{{ a }}>{% endmacro %}"}
		r1, r2 := c11MacroExpect(1, 1, "mac"), strings.Replace(c11MacroExpect(1, 1, "mac"), "s1", "s2", 1)
		_ = r2
		src, want := "", ""
		switch c.N[0] {
		case 0:
			src = "{% macro a() %}{% from 'mac' import m %}{{ m('s1') }}{% endmacro %}{% macro b() %}{% from 'mac' import m %}{{ m('s1') }}{% endmacro %}{{ _self.a() }}|{{ _self.b() }}"
			want = r1 + "|" + r1
		case 1:
			src = "{% if true %}{% import 'mac' as lib %}{{ lib.m('s1') }}{% else %}{% import 'mac' as lib %}{{ lib.n(1) }}{% endif %}|{% if false %}{% import 'mac' as lib %}{% else %}{% import 'mac' as lib %}{{ lib.n(2) }}{% endif %}"
			want = r1 + "|N<2>"
		case 2:
			src = "{% for q in [1, 2] %}{% from 'mac' import n as m %}{{ m(q) }}{% endfor %}|{% from 'mac' import m %}{{ m('s1') }}"
			want = "N<1>N<2>|" + r1
		case 3:
			src = "{% import 'mac' as lib %}{% import 'mac' as lib %}{{ lib.n(3) }}|{% from 'mac' import n %}{% from 'mac' import n %}{{ n(4) }}"
			want = "N<3>|N<4>"
		}
		tpls["main"] = src
		out, err, pan, _ := c11Exec(tpls)
		if pan != "" || err != nil || out != want {
			return core.Violation("macro", fmt.Sprintf("%q renders %q (%v %s), want %q", src, out, err, pan, want))
		}
		return core.Okay(true, out)
	case "stateful":
		// a macro whose body calls a counting host function, called n times with equal arguments (and with the outer
		// text between the calls changing): the body is rendered for every call
		n, form := c.N[0], c.N[1]
		calls := 0
		tpls := map[string]string{"mac": "{% macro m(a) %}<{{ a }}:{{ count() }}>{% endmacro %}"}
		prelude, call, _ := c11Call(form, "'k'")
		def := ""
		if form == 0 {
			def = tpls["mac"]
		}
		tpls["main"] = def + prelude + "{% for q in 1.." + itoa(n) + " %}{{ " + call + " }}{% endfor %}|{{ " + call + " }}"
		var log []string
		env := c11Env(tpls, &log)
		env.Functions["count"] = func(ctx stick.Context, args ...stick.Value) stick.Value { calls++; return calls }
		want := ""
		for i := 1; i <= n; i++ {
			want += "<k:" + itoa(i) + ">"
		}
		want += "|<k:" + itoa(n+1) + ">"
		out, err, pan := tryExec(env, "main", nil)
		if pan != "" || err != nil || out != want {
			return core.Violation("macro", fmt.Sprintf("%q renders %q (%v %s), want %q (the body is rendered at every call)", tpls["main"], tail(out, 80), err, pan, tail(want, 80)))
		}
		return core.Okay(true, itoa(n))
	case "inline":
		// the macro file is an inline template (the default StringLoader: a template's name is its source): a callback
		// inside the macro body still sees the name of the template that defines the macro - that source
		form, p, a := c.N[0], c.N[1], c.N[2]
		macSrc := c11MacroDef("m", p) + "{% macro other() %}o{% endmacro %}"
		args := c11Args(a)
		var prelude, call string
		switch form {
		case 0:
			prelude, call = "{% import '"+macSrc+"' as i %}", "i.m("+args+")"
		case 1:
			prelude, call = "{% from '"+macSrc+"' import m %}", "m("+args+")"
		default:
			prelude, call = "{% from '"+macSrc+"' import m as g %}", "g("+args+")"
		}
		main := prelude + "A{{ " + call + " }}|{{ name() == _self.templateName ? 'own' : 'other' }}Z"
		want := "A" + c11MacroExpect(p, a, macSrc) + "|ownZ"
		var log []string
		env := c11Env(nil, &log)
		env.Loader = &stick.StringLoader{}
		out, err, pan := tryExec(env, main, nil)
		if pan != "" || err != nil {
			return core.Violation("error", fmt.Sprintf("inline template %q: %v %s", main, err, pan))
		}
		if out != want {
			return core.Violation("macro", fmt.Sprintf("inline template %q renders\n    %q, want\n    %q", main, out, want))
		}
		return core.Okay(true, "inline")
	case "between":
		// what a template imported stays what it is across an embed / include of a template that imports other macros
		// under the same local names
		p, a, how, rename := c.N[0], c.N[1], c.N[2], c.N[3] == 1
		local := "m"
		imp := "{% from 'mac' import m %}"
		if rename {
			local = "g"
			imp = "{% from 'mac' import m as g %}"
		}
		r := c11MacroExpect(p, a, "mac")
		args := c11Args(a)
		other := []string{"{% embed 'o' %}{% endembed %}", "{% include 'o' %}", "{% embed 'o' %}{% block ob %}OB{% endblock %}{% endembed %}", "{% include 'o' only %}",
			"{% for q in [1, 2] %}{% embed 'o' %}{% endembed %}{% endfor %}"}[how]
		otherOut := "o(N<z>N<z>)"
		switch how {
		case 2:
			otherOut = "o(N<z>N<z>OB)"
		case 4:
			otherOut += otherOut
		}
		tpls := map[string]string{
			"mac":  c11MacroDef("m", p) + "{% macro n(q) %}WRONG{% endmacro %}",
			"mac2": "{% macro n(q) %}N<{{ q }}>{% endmacro %}{% macro m(q) %}WRONG2{% endmacro %}",
			"o":    "{% from 'mac2' import n as " + local + " %}{% import 'mac2' as i %}o({{ " + local + "('z') }}{{ i.n('z') }}{% block ob %}{% endblock %})",
			"main": imp + "{% import 'mac' as i %}B[{{ " + local + "(" + args + ") }}]" + other + "A[{{ " + local + "(" + args + ") }}|{{ i.m(" + args + ") }}]",
		}
		want := "B[" + r + "]" + otherOut + "A[" + r + "|" + r + "]"
		out, err, pan, _ := c11Exec(tpls)
		desc := fmt.Sprintf("main=%q o=%q mac=%q mac2=%q", tpls["main"], tpls["o"], tpls["mac"], tpls["mac2"])
		if pan != "" || err != nil {
			return core.Violation("error", fmt.Sprintf("fails: %v %s (want %q)\n    %s", err, pan, want, desc))
		}
		if out != want {
			return core.Violation("macro", fmt.Sprintf("renders\n    %q, want\n    %q\n    %s", out, want, desc))
		}
		return core.Okay(true, out)
	case "ctxreuse":
		// one context map passed to executions on two environments whose macro libraries have the same name and
		// different bodies (and parameter orders): each execution calls its own environment's macros
		form, order := c.N[0], c.N[1]
		libs := []string{"{% macro m(a, b) %}v1<{{ a }}|{{ b }}>{% endmacro %}", "{% macro m(b, a) %}v2<{{ a }}|{{ b }}>{% endmacro %}{% macro extra() %}x{% endmacro %}"}
		wants := []string{"v1<1|2>", "v2<2|1>"}
		prelude, call, _ := c11Call(form%4, "'1', '2'")
		main := prelude + "{{ " + call + " }}"
		ctx := map[string]stick.Value{}
		if order == 1 {
			libs[0], libs[1] = libs[1], libs[0]
			wants[0], wants[1] = wants[1], wants[0]
		}
		for i := 0; i < 2; i++ {
			m := main
			if form%4 == 0 {
				m = libs[i] + main
			}
			var log []string
			out, err, pan := tryExec(c11Env(map[string]string{"mac": libs[i], "main": m}, &log), "main", ctx)
			if pan != "" || err != nil {
				return core.Violation("error", fmt.Sprintf("execution %d of %q with library %q: %v %s", i+1, m, libs[i], err, pan))
			}
			if out != wants[i] {
				return core.Violation("macro", fmt.Sprintf("execution %d with the context map of the previous execution: %q with library %q renders %q, want %q", i+1, m, libs[i], out, wants[i]))
			}
		}
		return core.Okay(true, "ok")
	case "unknown":
		srcs := []string{
			"{% import 'mac' as i %}a{{ i.nosuch(1) }}b",
			"{% import 'mac' as i %}a{{ i.nosuch }}b",
			"{% from 'mac' import nosuch %}ab",
			"{% from 'mac' import m, nosuch as q %}ab",
			"{% import 'mac' as i %}{% set r = i.nosuch('x') %}ab",
			// ... inside loop bodies, loops inside macro bodies, captures, other calls' arguments, without arguments
			"{% import 'mac' as i %}a{% for q in [1, 2] %}{{ i.nosuch(q) }}{% endfor %}b",
			"{% import 'mac' as i %}a{% for q in [1] %}{% for r in [1] %}{{ i.nosuch() }}{% endfor %}{% endfor %}b",
			"{% import 'mac' as i %}{% macro w(a) %}{% import 'mac' as j %}{% for q in [1] %}{{ j.nosuch(a) }}{% endfor %}{% endmacro %}a{{ _self.w(1) }}b",
			"{% import 'mac' as i %}a{% set c %}{% for q in [1] %}{{ i.nosuch() }}{% endfor %}{% endset %}b",
			"{% import 'mac' as i %}a{{ i.m(i.nosuch()) }}b",
			"{% import 'mac' as i %}a{{ i.nosuch() }}b",
			"{% import 'mac' as i %}a{% for k, v in {'x': 1} %}{% if v %}{{ i.nosuch(v) }}{% endif %}{% endfor %}b",
		}
		tpls := map[string]string{"mac": c11MacroDef("m", 1), "main": srcs[c.N[0]]}
		_, err, pan, _ := c11Exec(tpls)
		if pan != "" {
			return core.Violation("panic", "panicked: "+pan+"\n    "+tpls["main"])
		}
		if err == nil {
			return core.Violation("missing-error", fmt.Sprintf("%q: calling/importing an unknown macro of an imported set returned no error", tpls["main"]))
		}
		return core.Okay(true, "err")
	}
	return core.Skipped("unknown-family")
}

func c11Levels(tier string) []core.Level {
	return []core.Level{
		{Name: "macro with 0..4 (thorough 0..8) parameters x call with 0..6 (thorough 0..12) arguments x 5 call forms x 10 uses of the result", Gen: func(emit func(core.Case)) {
			maxP, maxA := 4, 6
			if thorough(tier) {
				maxP, maxA = 8, 12
			}
			for p := 0; p <= maxP; p++ {
				for a := 0; a <= maxA; a++ {
					for form := 0; form < c11Forms; form++ {
						for use := 0; use < c11Uses; use++ {
							emit(core.Case{Fam: "call", N: []int{p, a, form, use}})
							if p <= 4 && a <= 6 && (use <= 1 || use == 8) {
								// macro names in other styles: camel case / upper case next to a macro that differs only by case; digits and underscores
								for style := 1; style < len(c11NameStyles); style++ {
									emit(core.Case{Fam: "call", N: []int{p, a, form, use, style}})
								}
							}
						}
					}
				}
			}
		}},
		{Name: "differential: the five call forms give identical results (modulo the template name) for every arity and use, in the core environment and - with markup in the macro body and in the arguments - in the twig environment", Gen: func(emit func(core.Case)) {
			for p := 0; p <= 4; p++ {
				for a := 0; a <= 6; a++ {
					for use := 0; use < c11Uses; use++ {
						emit(core.Case{Fam: "diff", N: []int{p, a, use}})
						emit(core.Case{Fam: "diff", N: []int{p, a, use, 1}})
					}
				}
			}
		}},
		{Name: "arguments that are caller variables named like the parameters: every argument list of length <= 3 over {a, b, c, literal, a ~ b} x 4 call forms", Gen: func(emit func(core.Case)) {
			for form := 0; form < 4; form++ {
				for n := 0; n <= 3; n++ {
					total := 1
					for i := 0; i < n; i++ {
						total *= 5
					}
					for m := 0; m < total; m++ {
						N := []int{form}
						x := m
						for i := 0; i < n; i++ {
							N = append(N, x%5)
							x /= 5
						}
						emit(core.Case{Fam: "collide", N: N})
					}
				}
			}
		}},
		{Name: "arguments that are literals, macro calls with their own arguments, or zero-argument calls of macros whose bodies call further macros (8 shapes, <= 3 arguments), after an earlier call in the same execution or in two loop iterations x 4 call forms", Gen: func(emit func(core.Case)) {
			maxN := 3
			if thorough(tier) {
				maxN = 4
			}
			for form := 0; form < 4; form++ {
				for n := 1; n <= maxN; n++ {
					total := 1
					for i := 0; i < n; i++ {
						total *= 8
					}
					for m := 0; m < total; m++ {
						N := []int{form}
						x := m
						for i := 0; i < n; i++ {
							N = append(N, x%8)
							x /= 8
						}
						emit(core.Case{Fam: "nestargs", N: N})
					}
				}
			}
		}},
		{Name: "macros calling macros through _self (depth 3) with every inner arity", Gen: func(emit func(core.Case)) {
			for p := 0; p <= 4; p++ {
				for a := 0; a <= 6; a++ {
					emit(core.Case{Fam: "nested", N: []int{p, a}})
				}
			}
		}},
		{Name: "a template calling its own macro through _self inside a block, rendered as parent (child with / without overrides, two levels; the call written in the child's overriding block), through embed (with / without overrides; the call written in the override block) and through include: 0..4 parameters x 0..6 arguments x 10 uses", Gen: func(emit func(core.Case)) {
			for p := 0; p <= 4; p++ {
				for a := 0; a <= 6; a++ {
					for how := 0; how < 8; how++ {
						for use := 0; use < c11Uses; use++ {
							emit(core.Case{Fam: "hosted", N: []int{p, a, how, use}})
						}
					}
				}
			}
		}},
		{Name: "histories and repetitions: executions failing inside a macro body that has produced output, then good macro calls (3 failures x same / fresh environment x 30 rounds); one local name bound by several import / from tags of one source (4 shapes); a macro with a counting callback in its body called 1..6, 101, 150 times with equal arguments x 4 call forms", Gen: func(emit func(core.Case)) {
			for f := 0; f < 3; f++ {
				for same := 0; same < 2; same++ {
					emit(core.Case{Fam: "afterfail", N: []int{f, same}})
				}
			}
			for k := 0; k < 4; k++ {
				emit(core.Case{Fam: "samelocal", N: []int{k}})
			}
			for _, n := range []int{1, 2, 3, 4, 5, 6, 101, 150} {
				for form := 0; form < 4; form++ {
					emit(core.Case{Fam: "stateful", N: []int{n, form}})
				}
			}
			for form := 0; form < 4; form++ {
				for pos := 0; pos < 3; pos++ {
					for kind := range c11ArgKinds {
						emit(core.Case{Fam: "argkinds", N: []int{form, pos, kind}})
					}
				}
			}
		}},
		{Name: "macro file given as an inline template (StringLoader): import alias / from-import / renamed x 0..3 parameters x 0..4 arguments; the callback in the macro body sees the defining template's name", Gen: func(emit func(core.Case)) {
			for form := 0; form < 3; form++ {
				for p := 0; p <= 3; p++ {
					for a := 0; a <= 4; a++ {
						emit(core.Case{Fam: "inline", N: []int{form, p, a}})
					}
				}
			}
		}},
		{Name: "imports survive an embed / include of a template that imports other macros under the same local names (embed, include, embed with an override, include only, embed in a loop) x plain / renamed from-import x 0..3 parameters x 0..4 arguments", Gen: func(emit func(core.Case)) {
			for p := 0; p <= 3; p++ {
				for a := 0; a <= 4; a++ {
					for how := 0; how < 5; how++ {
						for rn := 0; rn < 2; rn++ {
							emit(core.Case{Fam: "between", N: []int{p, a, how, rn}})
						}
					}
				}
			}
		}},
		{Name: "one context map reused by executions on two environments with same-named, different macro libraries x 4 call forms x both orders", Gen: func(emit func(core.Case)) {
			for form := 0; form < 4; form++ {
				for order := 0; order < 2; order++ {
					emit(core.Case{Fam: "ctxreuse", N: []int{form, order}})
				}
			}
		}},
		{Name: "unknown macro of an imported set is an error (12 forms: printed, as an attribute, imported, assigned; inside loops, loops in macro bodies, captures, other calls' arguments, without arguments)", Gen: func(emit func(core.Case)) {
			for i := 0; i < 12; i++ {
				emit(core.Case{Fam: "unknown", N: []int{i}})
			}
		}},
	}
}

func init() {
	core.Register(&core.Check{
		ID:       "C11",
		Category: "exploration",
		Rule: "macro definitions with 0..4 parameters x calls with 0..6 distinct arguments x call form (_self, import alias, from-import, renamed from-import, from-import renamed to the name of a registered function) x use of the result (print, assign and print twice, concatenate, argument of another macro, argument of a recording function, in a 2-iteration loop, in a capture, as condition and filter input, handed to callbacks that report its Go type, 150 times in a loop); argument lists built from caller variables named like the macro's own parameters; arguments that are themselves macro calls (with arguments, or zero-argument calls of macros whose bodies call further macros), in every position, evaluated after earlier calls in the same execution; macros calling macros through _self to depth 3 with every inner arity; a template calling its own macro through _self while rendered as a parent, through embed and through include; unknown macros of an imported set must fail. " +
			"Every macro body prints each parameter and Context.Name(). Expected output by construction (positional binding, missing = null, surplus ignored, name = defining template); the distinct-outcome count shows the four call forms agree modulo the template name. distinct = distinct configuration; non-trivial = all",
		Assumptions: []string{"a macro called through an import does not itself refer to _self (stated divergence)", "macros are defined before use in a non-extending template"},
		Levels:      c11Levels,
		Run:         c11Run,
		NoDedup:     true,
		Budget:      budget(3*time.Minute, 10*time.Minute),
	})
}
