// Package vsync stands in for package sync when the library under test is built for the cooperative
// scheduler (run.sh rewrites the import in an overlay; /repo is untouched): every lock, unlock, once and
// map operation becomes a scheduling point, so that the explorer can preempt a thread between two critical
// sections. Without an installed hook every type behaves exactly like its sync counterpart.
package vsync

import (
	"sync"
	"sync/atomic"
)

var hook atomic.Pointer[func()]

// SetHook installs (or, with nil, removes) the function called at every synchronisation operation.
func SetHook(f func()) {
	if f == nil {
		hook.Store(nil)
		return
	}
	hook.Store(&f)
}

// Point calls the installed hook, if any.
func Point() {
	if f := hook.Load(); f != nil {
		(*f)()
	}
}

type Locker = sync.Locker
type WaitGroup = sync.WaitGroup
type Pool = sync.Pool
type Cond = sync.Cond

func NewCond(l Locker) *Cond { return sync.NewCond(l) }

type Mutex struct{ m sync.Mutex }

func (m *Mutex) Lock()         { Point(); m.m.Lock() }
func (m *Mutex) Unlock()       { m.m.Unlock(); Point() }
func (m *Mutex) TryLock() bool { Point(); return m.m.TryLock() }

type RWMutex struct{ m sync.RWMutex }

func (m *RWMutex) Lock()          { Point(); m.m.Lock() }
func (m *RWMutex) Unlock()        { m.m.Unlock(); Point() }
func (m *RWMutex) RLock()         { Point(); m.m.RLock() }
func (m *RWMutex) RUnlock()       { m.m.RUnlock(); Point() }
func (m *RWMutex) TryLock() bool  { Point(); return m.m.TryLock() }
func (m *RWMutex) TryRLock() bool { Point(); return m.m.TryRLock() }
func (m *RWMutex) RLocker() Locker {
	return rlocker{m}
}

type rlocker struct{ m *RWMutex }

func (r rlocker) Lock()   { r.m.RLock() }
func (r rlocker) Unlock() { r.m.RUnlock() }

type Once struct{ o sync.Once }

func (o *Once) Do(f func()) { Point(); o.o.Do(f); Point() }

func OnceFunc(f func()) func() {
	g := sync.OnceFunc(f)
	return func() { Point(); g(); Point() }
}

func OnceValue[T any](f func() T) func() T {
	g := sync.OnceValue(f)
	return func() T { Point(); defer Point(); return g() }
}

func OnceValues[T1, T2 any](f func() (T1, T2)) func() (T1, T2) {
	g := sync.OnceValues(f)
	return func() (T1, T2) { Point(); defer Point(); return g() }
}

type Map struct{ m sync.Map }

func (m *Map) Load(key any) (any, bool) { Point(); return m.m.Load(key) }
func (m *Map) Store(key, value any)     { Point(); m.m.Store(key, value) }
func (m *Map) LoadOrStore(key, value any) (any, bool) {
	Point()
	return m.m.LoadOrStore(key, value)
}
func (m *Map) LoadAndDelete(key any) (any, bool) { Point(); return m.m.LoadAndDelete(key) }
func (m *Map) Delete(key any)                    { Point(); m.m.Delete(key) }
func (m *Map) Swap(key, value any) (any, bool)   { Point(); return m.m.Swap(key, value) }
func (m *Map) CompareAndSwap(key, old, new any) bool {
	Point()
	return m.m.CompareAndSwap(key, old, new)
}
func (m *Map) CompareAndDelete(key, old any) bool { Point(); return m.m.CompareAndDelete(key, old) }
func (m *Map) Range(f func(key, value any) bool)  { Point(); m.m.Range(f) }
func (m *Map) Clear()                             { Point(); m.m.Clear() }
