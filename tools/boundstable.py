#!/usr/bin/env python3
"""boundstable.py: print the markdown table of DESIGN.md 10.2 from evidence/*.json (whatever tier they were last run at)."""
import json, glob, os
root = os.path.dirname(os.path.dirname(os.path.abspath(__file__)))
def n(x):
    return f"{x/1e6:.2f} M" if x >= 1e6 else (f"{x/1e3:.1f} k" if x >= 1e4 else str(x))
print("| id | tier | cases executed | distinct outcomes >= | wall | levels completed (cases per level) |")
print("|---|---|---|---|---|---|")
for f in sorted(glob.glob(os.path.join(root, "evidence", "C*.json"))):
    d = json.load(open(f)); c = d["coverage"]
    lv = "; ".join(f"{b['bound'][:60].rstrip()}{'...' if len(b['bound'])>60 else ''} ({n(b['executed'])}{'' if b['completed'] else ', cut'})" for b in c["bounds"])
    print(f"| {d['property_id']} | {d['tier']} | {n(c['evaluations'])} | {n(c['distinct_outcomes_at_least'])} | {d['wall_s']:.0f} s | {lv} |")
