#!/bin/bash
# tools/seedcheck.sh <id> <demo dir relative to repo root> <demo run regex> <check id>...
# Confirms an independently written property-breaking change (patch + demo) in a scratch worktree of /repo HEAD,
# then runs the named quick checks against that worktree (VERIF_REPO). Results are appended to seeded/<id>/confirm.log
set -u
cd "$(dirname "$0")/.."
. ./env.sh
id="$1"; ddir="$2"; rx="$3"; shift 3
src=${SEED_SRC:-/tmp/seed}
out=seeded/$id${SEED_SUFFIX:-}; mkdir -p "$out"
pfx=$id${SEED_VARIANT:+-$SEED_VARIANT}   # round 4: two changes per property, files <id>-A-..., <id>-B-...
cp $src/$pfx-patch.diff "$out/patch.diff"; cp $src/$pfx-demo_test.go "$out/demo_test.go"; cp $src/$pfx-report.md "$out/agent-report.md" 2>/dev/null
log="$out/confirm.log"; : > "$log"
wt=/tmp/sc-$id${SEED_VARIANT:-}
git -C /repo worktree remove --force $wt 2>/dev/null; git -C /repo worktree add -q --detach $wt HEAD
( cd $wt
  git apply "$OLDPWD/$out/patch.diff" || { echo "PATCH DOES NOT APPLY to $(git rev-parse --short HEAD)"; exit 1; }
  echo "== with the change, at /repo $(git rev-parse --short HEAD)"
  go build ./... && go vet ./... && echo "build+vet: ok"
  go test -count=1 ./... > /tmp/sc-$id.tests 2>&1 && echo "repo tests: pass" || { echo "repo tests: FAIL"; tail -5 /tmp/sc-$id.tests; }
  cp "$OLDPWD/$out/demo_test.go" "$ddir/zz_seed_demo_test.go"
  timeout 600 go test -count=1 -run "$rx" "./$ddir" > /tmp/sc-$id.demo1 2>&1 && echo "demo with change: PASS (unexpected)" || echo "demo with change: fails (expected)"
  git checkout -q -- . 
  timeout 600 go test -count=1 -run "$rx" "./$ddir" > /tmp/sc-$id.demo2 2>&1 && echo "demo without change: passes (expected)" || { echo "demo without change: FAILS (unexpected)"; tail -5 /tmp/sc-$id.demo2; }
) 2>&1 | tee -a "$log"
# the checks run against the scratch worktree with the change applied (VERIF_REPO): /repo, evidence/ and replays/ stay untouched
git -C $wt apply "$PWD/$out/patch.diff" || { echo "does not apply" | tee -a "$log"; git -C /repo worktree remove --force $wt; exit 1; }
for c in "$@"; do
  o=$(VERIF_REPO=$wt timeout 3000 ./run.sh "$c" quick 2>&1); rc=$?
  echo "check $c quick: exit=$rc, $(echo "$o" | grep -c '^VIOLATION') VIOLATION line(s)" | tee -a "$log"
  echo "$o" | grep -A3 '^VIOLATION' | head -8 | cut -c1-400 | sed "s#$PWD/.work/alt-[0-9]*/##" | tee -a "$log"
done
git -C /repo worktree remove --force $wt
