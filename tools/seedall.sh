#!/bin/bash
# tools/seedall.sh [dir...] - re-run every independently written change kept under seeded/ against the current checks:
# each patch that still applies to /repo HEAD is applied, the quick tier of the checks named in its meta.json
# is run (until one reports it), and the patch is undone. One line per seed; nothing is written under seeded/.
set -u
cd "$(dirname "$0")/.."
. ./env.sh
[ -z "$(git -C /repo status --porcelain)" ] || { echo "/repo is not clean"; exit 2; }
dirs=("$@"); [ ${#dirs[@]} -gt 0 ] || dirs=(seeded/*/)
for d in "${dirs[@]}"; do
  d=${d%/}; n=$(basename "$d")
  [ -f "$d/patch.diff" ] || continue
  if ! git -C /repo apply --check "$PWD/$d/patch.diff" 2>/dev/null; then echo "$n: does not apply to HEAD any more"; continue; fi
  git -C /repo apply "$PWD/$d/patch.diff"
  res="MISSED"
  for c in $(jq -r '.checks_run[]' "$d/meta.json" 2>/dev/null); do
    o=$(timeout 3000 ./run.sh "$c" quick 2>&1); rc=$?
    if [ $rc -eq 1 ] && echo "$o" | grep -q '^VIOLATION'; then
      res="caught by $c: $(echo "$o" | grep -m1 'class=' | sed 's/ case=.*//' | tr -s ' ')"; break
    fi
  done
  git -C /repo checkout -- .
  echo "$n: $res"
done
