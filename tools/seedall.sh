#!/bin/bash
# tools/seedall.sh [dir...] - re-run every independently written change kept under seeded/ against the current checks:
# each patch that still applies to /repo HEAD is applied in a scratch worktree, the quick tier of the checks named in
# its meta.json is run against that worktree (VERIF_REPO; until one reports it). One line per seed; /repo, evidence/
# and seeded/ are not touched. SEEDALL_JOBS seeds are checked at a time (default 3).
set -u
cd "$(dirname "$0")/.."
. ./env.sh
dirs=("$@"); [ ${#dirs[@]} -gt 0 ] || dirs=(seeded/*/)
one() {
  d=${1%/}; n=$(basename "$d")
  [ -f "$d/patch.diff" ] || return
  wt=/tmp/sa-$n
  git -C /repo worktree remove --force $wt 2>/dev/null
  git -C /repo worktree add -q --detach $wt HEAD
  if ! git -C $wt apply "$PWD/$d/patch.diff" 2>/dev/null; then echo "$n: does not apply to HEAD any more"; git -C /repo worktree remove --force $wt; return; fi
  res="MISSED"
  for c in $(jq -r '.checks_run[]' "$d/meta.json" 2>/dev/null); do
    o=$(VERIF_REPO=$wt timeout 3000 ./run.sh "$c" quick 2>&1); rc=$?
    if [ $rc -eq 2 ]; then res="BUILD FAILED"; break; fi
    if [ $rc -eq 1 ] && echo "$o" | grep -q '^VIOLATION'; then
      res="caught by $c: $(echo "$o" | grep -m1 'class=' | sed 's/ case=.*//' | tr -s ' ')"; break
    fi
  done
  git -C /repo worktree remove --force $wt
  echo "$n: $res"
}
jobs=${SEEDALL_JOBS:-3}
for d in "${dirs[@]}"; do
  while [ "$(jobs -rp | wc -l)" -ge "$jobs" ]; do sleep 0.5; done
  one "$d" &
done
wait
