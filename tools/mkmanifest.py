#!/usr/bin/env python3
"""Regenerates /verif/MANIFEST.json from tools/checks_table.json (one entry per claimed property)."""
import json, os, sys
root = os.path.dirname(os.path.dirname(os.path.abspath(__file__)))
table = json.load(open(os.path.join(root, "tools", "checks_table.json")))
props = [json.loads(l)["id"] for l in open(os.path.join(root, "properties.jsonl")) if l.strip()]
checks = []
for pid in props:
    if pid not in table["claimed"]:
        continue
    e = table["claimed"][pid]
    checks.append({
        "property_id": pid,
        "quick_cmd": "./run.sh %s quick" % pid,
        "thorough_cmd": "./run.sh %s thorough" % pid,
        "evidence_file": "evidence/%s.json" % pid,
        "replay_cmd_template": "./run.sh replay {path}",
        "engine": "vcheck",
        "level_claimed": {"category": e["category"], "text": e["text"], "design_ref": e.get("design_ref", "DESIGN.md")},
        "level_note": e["note"],
        "technique": e["technique"],
    })
na = [{"property_id": p, "reason": table["not_applicable"].get(p, "check not built yet in this round; no claim is made")}
      for p in props if p not in table["claimed"]]
m = {
    "version": 1,
    "setup_cmd": "./setup.sh",
    "hooks": {
        "guard": "verif",
        "enable": "go build -tags verif (no hook is needed: every observation point is a public seam - Loader, io.Writer, Func/Filter/Test, NodeVisitor; the tag is passed for uniformity)",
        "baseline_off_cmd": "cd /repo && GOFLAGS=-mod=mod GOPROXY=off GOSUMDB=off GOTOOLCHAIN=local go test -vet=off -count=1 ./...",
        "source_commits": [],
        "add_only": True,
    },
    "engines": [{
        "name": "vcheck",
        "path": "cmd/vcheck",
        "serves_properties": [c["property_id"] for c in checks],
        "kind_free_text": "hand-written bounded-exhaustive explorer: simplest-first enumeration of finite case spaces / choice-sequence DFS with deviation budget / cooperative scheduler, sharded over supervised worker processes that turn process death, stack exhaustion, memory blow-up and non-termination into verdicts",
    }],
    "checks": checks,
    "notes": table.get("notes", ""),
    "not_applicable": na,
}
json.dump(m, open(os.path.join(root, "MANIFEST.json"), "w"), indent=1)
print("claimed:", [c["property_id"] for c in checks], "not claimed:", [n["property_id"] for n in na])
