#!/usr/bin/env python3
"""mkoverlay.py <repo> <outdir>: for every non-test Go file of the library that imports sync or sync/atomic,
write a copy whose import is redirected to the scheduling-point shims (verif/vsync, verif/vsync/atomic) and an
overlay.json for `go build -overlay`. /repo itself is not modified; with no such import the overlay is empty."""
import json, os, re, sys, shutil
repo, out = sys.argv[1], sys.argv[2]
shutil.rmtree(out, ignore_errors=True)
os.makedirs(out)
spec = re.compile(r'^(\s*(?:import\s+)?)(?:([A-Za-z_.][A-Za-z0-9_]*)\s+)?"(sync|sync/atomic)"\s*$')
replace = {}
for d, dirs, files in os.walk(repo):
    dirs[:] = [x for x in dirs if not x.startswith('.') and x not in ('testdata', 'vendor')]
    for f in files:
        if not f.endswith('.go') or f.endswith('_test.go'):
            continue
        p = os.path.join(d, f)
        src = open(p, encoding='utf-8', errors='surrogateescape').read()
        if '"sync' not in src:
            continue
        lines, changed, in_block = src.split('\n'), False, False
        for i, l in enumerate(lines):
            s = l.strip()
            if s.startswith('import ('):
                in_block = True
                continue
            if in_block and s == ')':
                in_block = False
                continue
            if not (in_block or s.startswith('import ')):
                if s.startswith(('func ', 'type ', 'var ', 'const ')):
                    break
                continue
            m = spec.match(l)
            if m:
                name = m.group(2) or ('sync' if m.group(3) == 'sync' else 'atomic')
                path = 'verif/vsync' if m.group(3) == 'sync' else 'verif/vsync/atomic'
                lines[i] = '%s%s "%s"' % (m.group(1), name, path)
                changed = True
        if changed:
            rel = os.path.relpath(p, repo)
            q = os.path.join(out, rel.replace('/', '__'))
            open(q, 'w', encoding='utf-8', errors='surrogateescape').write('\n'.join(lines))
            replace[os.path.abspath(p)] = os.path.abspath(q)
json.dump({'Replace': replace}, open(os.path.join(out, 'overlay.json'), 'w'), indent=1)
print('overlay: %d file(s) redirected to the sync shims' % len(replace))
