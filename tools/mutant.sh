#!/bin/bash
# tools/mutant.sh <patch.diff> <check id>...  : apply a property-breaking change to /repo, confirm the
# repository's own tests still pass, run the named quick checks, then undo the change.
set -u
cd "$(dirname "$0")/.."
. ./env.sh
patch="$(realpath "$1")"; shift
if ! git -C /repo diff --quiet; then echo "/repo has uncommitted changes"; exit 2; fi
git -C /repo apply "$patch" || { echo "patch does not apply"; exit 2; }
trap 'git -C /repo checkout -- . ; git -C /repo clean -fdq' EXIT
( cd /repo && go build ./... && go test -count=1 ./... >/tmp/mutant_tests.log 2>&1 ) && tests=pass || tests=FAIL
echo "repo tests with mutant: $tests"
for id in "$@"; do
  out=$(timeout 1800 ./run.sh "$id" quick 2>&1); rc=$?
  echo "check $id: exit=$rc $(echo "$out" | grep -c '^VIOLATION') violation line(s)"
  echo "$out" | grep -A2 '^VIOLATION' | head -6
done
