import subprocess,re
s=open('/verif/DESIGN.md').read()
tbl=subprocess.run(['python3','/verif/tools/boundstable.py'],capture_output=True,text=True,cwd='/verif').stdout.strip('\n')
a=s.index('### 10.2'); b=s.index('### 10.3')
sec=s[a:b]
i=sec.index('| id | tier |')
j=i
lines=sec[i:].split('\n')
k=0
while k<len(lines) and lines[k].startswith('|'): k+=1
new=sec[:i]+tbl+'\n'+'\n'.join(lines[k:])
open('/verif/DESIGN.md','w').write(s[:a]+new+s[b:])
print("table rows:", tbl.count('\n')+1)
