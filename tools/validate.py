#!/usr/bin/env python3
import json, glob, sys, jsonschema
m = json.load(open('/verif/MANIFEST.json'))
jsonschema.validate(m, json.load(open('/root/.vp/MANIFEST.schema.json')))
es = json.load(open('/root/.vp/EVIDENCE.schema.json'))
bad = 0
for c in m['checks']:
    p = '/verif/' + c['evidence_file']
    try:
        e = json.load(open(p))
        jsonschema.validate(e, es)
        assert e['level'] == c['level_claimed']['category'], "level mismatch"
    except Exception as ex:
        bad += 1
        print("BAD", p, str(ex)[:200])
print("manifest valid;", len(m['checks']), "checks;", bad, "bad evidence files")
