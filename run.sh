#!/bin/bash
# run.sh <id> [quick|thorough]   - rebuild the checker from /repo's working tree and run one check
# run.sh replay <replay.json>    - re-execute one recorded case without the explorer
set -u
cd "$(dirname "$0")"
. ./env.sh
mkdir -p .bin .work
# VERIF_REPO=<dir> (tools/seedcheck.sh, tools/seedall.sh): check a scratch copy of the library (a worktree with a
# seeded change applied) instead of /repo, with its own binaries and its own output root, so that /repo, evidence/
# and replays/ are untouched and several copies can be checked at once. The registered commands never set it.
REPO=${VERIF_REPO:-/repo}
BIN=.bin
MODFLAG=
if [ "$REPO" != /repo ]; then
  ALT="$PWD/.work/alt-$$"
  mkdir -p "$ALT/bin"
  sed "s#=> /repo#=> $REPO#" go.mod > "$ALT/go.mod"; cp "$REPO/go.sum" "$ALT/go.sum" 2>/dev/null
  cp KNOWN_FINDINGS.txt "$ALT/"
  MODFLAG="-modfile=$ALT/go.mod"
  BIN="$ALT/bin"
  export VERIF_ROOT="$ALT"
  trap 'rm -rf "$ALT"' EXIT
fi
# the harness module resolves github.com/tyler-sommer/stick through "replace => /repo",
# so this rebuild always compiles /repo's current working tree (build tag "verif": no hooks needed).
[ "$REPO" = /repo ] && cp /repo/go.sum ./go.sum 2>/dev/null
# Lock, once, map and atomic operations of the library become scheduling points of the cooperative scheduler:
# files of /repo that import sync or sync/atomic are compiled from a copy whose import is redirected to the
# shims in verif/vsync (go build -overlay; /repo is untouched; no such file on the pinned tree).
OVL=.work/overlay; [ "$REPO" = /repo ] || OVL="$ALT/overlay"
python3 tools/mkoverlay.py "$REPO" "$OVL" >/dev/null || { echo "overlay generation failed"; exit 2; }
go build $MODFLAG -tags verif -overlay "$OVL/overlay.json" -o "$BIN/vcheck" ./cmd/vcheck || { echo "build failed"; exit 2; }
if [ "${1:-}" = "replay" ]; then
  "$BIN/vcheck" replay "$2"; exit $?
fi
id="$1"; tier="${2:-${VERIF_TIER:-quick}}"
if [ "$id" = "C18" ]; then
  go build $MODFLAG -race -tags verif -o "$BIN/vcheck-race" ./cmd/vcheck || { echo "race build failed"; exit 2; }
fi
"$BIN/vcheck" check "$id" --tier "$tier"; exit $?
