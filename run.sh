#!/bin/bash
# run.sh <id> [quick|thorough]   - rebuild the checker from /repo's working tree and run one check
# run.sh replay <replay.json>    - re-execute one recorded case without the explorer
set -u
cd "$(dirname "$0")"
. ./env.sh
mkdir -p .bin .work
# the harness module resolves github.com/tyler-sommer/stick through "replace => /repo",
# so this rebuild always compiles /repo's current working tree (build tag "verif": no hooks needed).
cp /repo/go.sum ./go.sum 2>/dev/null
# Lock, once, map and atomic operations of the library become scheduling points of the cooperative scheduler:
# files of /repo that import sync or sync/atomic are compiled from a copy whose import is redirected to the
# shims in verif/vsync (go build -overlay; /repo is untouched; no such file on the pinned tree).
python3 tools/mkoverlay.py /repo .work/overlay >/dev/null || { echo "overlay generation failed"; exit 2; }
go build -tags verif -overlay .work/overlay/overlay.json -o .bin/vcheck ./cmd/vcheck || { echo "build failed"; exit 2; }
if [ "${1:-}" = "replay" ]; then
  exec .bin/vcheck replay "$2"
fi
id="$1"; tier="${2:-${VERIF_TIER:-quick}}"
if [ "$id" = "C18" ]; then
  go build -race -tags verif -o .bin/vcheck-race ./cmd/vcheck || { echo "race build failed"; exit 2; }
fi
exec .bin/vcheck check "$id" --tier "$tier"
